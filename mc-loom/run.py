#!/usr/bin/env python3
"""Builds and runs the loom engine of C09 and merges its coverage into
/verif/evidence/C09.json (written just before by the seqx engine)."""
import json, os, subprocess, sys, fcntl
VERIF = os.path.dirname(os.path.dirname(os.path.abspath(__file__)))
tier = "quick"
if "--tier" in sys.argv:
    tier = sys.argv[sys.argv.index("--tier") + 1]
env = dict(os.environ, CARGO_NET_OFFLINE="true")
os.makedirs(os.path.join(VERIF, "target-loom"), exist_ok=True)
with open(os.path.join(VERIF, "target-loom", ".check.lock"), "w") as lk:
    fcntl.flock(lk, fcntl.LOCK_EX)
    r = subprocess.run(["cargo", "build", "--release", "--offline", "--quiet"], cwd=os.path.join(VERIF, "mc-loom"), env=env,
                       stdout=subprocess.PIPE, stderr=subprocess.STDOUT, text=True)
if r.returncode != 0:
    sys.stdout.write(r.stdout[-6000:])
    print("MACHINERY: build of mc-loom failed")
    sys.exit(2)
if "--build-only" in sys.argv:
    sys.exit(0)
side = os.path.join(VERIF, "evidence", "C09.loom.json")
if os.path.exists(side):
    os.remove(side)
r = subprocess.run([os.path.join(VERIF, "target-loom", "release", "mc-loom"), "--tier", tier], cwd=VERIF, env=env)
code = r.returncode
main = os.path.join(VERIF, "evidence", "C09.json")
if os.path.exists(side) and os.path.exists(main):
    ev = json.load(open(main))
    lo = json.load(open(side))
    ev["coverage"]["loom"] = lo
    ev["coverage"]["traces_validated_against_impl"] = ev["coverage"].get("traces_validated_against_impl", 0) + lo["schedules"]
    ev["violations"] = ev.get("violations", 0) + lo.get("violation_classes", 0)
    json.dump(ev, open(main, "w"), indent=1)
    os.remove(side)
elif code == 0:
    print("MACHINERY: loom evidence missing")
    code = 2
sys.exit(code if code in (0, 1) else 2)
