//! C09 (b) — real-thread schedules of zone readers and writers under loom.
//!
//! The in-memory zone is built with the `verif-hooks` feature: every lock
//! acquisition of zonetree::in_memory reports a scheduling point to the
//! backend below (a loom atomic operation = a possible preemption) and
//! acquires by try-lock, yielding to loom while contended. loom then
//! explores every schedule of the harness threads up to the preemption
//! bound (DPOR), on the real parking_lot / tokio locks and the real tree.
use domain::base::iana::Rtype;
use domain::zonetree::verif_sync::{self, Event};
use domain::zonetree::Zone;
use futures_util::FutureExt;
use loom::sync::atomic::{AtomicUsize, Ordering};
use mc::zfix::*;
use mc::*;
use serde_json::json;
use std::collections::BTreeSet;
use std::sync::atomic::{AtomicBool, AtomicPtr, AtomicU64, Ordering as SO};
use std::sync::Mutex;

static POINT: AtomicPtr<AtomicUsize> = AtomicPtr::new(std::ptr::null_mut());
static POINTS_SEEN: AtomicU64 = AtomicU64::new(0);
static CONTENDED_SEEN: AtomicU64 = AtomicU64::new(0);

fn backend(ev: Event) {
    let p = POINT.load(SO::SeqCst);
    if p.is_null() {
        return; // outside a model run (zone construction)
    }
    match ev {
        Event::Acquire => {
            POINTS_SEEN.fetch_add(1, SO::Relaxed);
            // a loom-visible operation: loom may preempt here
            unsafe { &*p }.fetch_add(1, Ordering::SeqCst);
        }
        Event::Contended => {
            CONTENDED_SEEN.fetch_add(1, SO::Relaxed);
            loom::thread::yield_now();
        }
    }
}

// A single chain apex -> a -> b: every HashMap in the tree that is iterated
// while scheduling points occur has one entry, so iteration order (which is
// randomised per map and not owned) cannot influence the schedule.
const QN: [&str; 3] = ["a", "b.a", "x.a"];

#[derive(Clone, PartialEq, Eq, Debug, PartialOrd, Ord)]
struct Obs {
    answers: Vec<Observed>,
    walk: BTreeSet<(Vec<u8>, u16, Vec<u8>)>,
}

fn observe_zone(r: &dyn domain::zonetree::ReadableZone) -> Obs {
    Obs { answers: QN.iter().map(|q| query(r, &rel(q), Rtype::A)).collect(), walk: walk(r).0 }
}

fn content0() -> Content {
    let mut c = Content::base(1);
    c.add("a", Rd::A(1));
    c.add("b.a", Rd::A(5));
    c
}

/// Writer k: sets a = A(10+k) and c = A(10+k) (existing nodes only: node
/// creation is the known unversioned operation), then commits.
fn writer_body(zone: &Zone, k: u8, in_writer: &AtomicBool, overlaps: &AtomicU64, commit: bool) {
    let mut w = zone.write().now_or_never().expect("write() future is ready under the seam");
    if in_writer.swap(true, SO::SeqCst) {
        overlaps.fetch_add(1, SO::SeqCst);
    }
    let apex = w.open(false).now_or_never().unwrap().unwrap();
    for n in ["a", "b.a"] {
        let node = node_for(apex.as_ref(), &rel(n)).now_or_never().unwrap().unwrap();
        node.update_rrset(rrset_of(&[Rd::A(10 + k)])).now_or_never().unwrap().unwrap();
    }
    drop(apex);
    in_writer.store(false, SO::SeqCst);
    if commit {
        w.commit(false).now_or_never().unwrap().unwrap();
    }
    drop(w);
}

/// Multi-batch writer k: batch 1 sets a = A(10+k) and commits; the same WritableZone is re-opened
/// and batch 2 sets b.a = A(10+k) and commits. The writer owns the zone from write() to drop.
fn multi_batch_writer_body(zone: &Zone, k: u8, in_writer: &AtomicBool, overlaps: &AtomicU64) {
    let mut w = zone.write().now_or_never().expect("write() future is ready under the seam");
    for n in ["a", "b.a"] {
        if in_writer.swap(true, SO::SeqCst) {
            overlaps.fetch_add(1, SO::SeqCst);
        }
        let apex = w.open(false).now_or_never().unwrap().unwrap();
        let node = node_for(apex.as_ref(), &rel(n)).now_or_never().unwrap().unwrap();
        node.update_rrset(rrset_of(&[Rd::A(10 + k)])).now_or_never().unwrap().unwrap();
        drop(node);
        drop(apex);
        in_writer.store(false, SO::SeqCst);
        w.commit(false).now_or_never().unwrap().unwrap();
    }
    drop(w);
}

fn with_writes_to(base: &Content, k: u8, names: &[&str]) -> Content {
    let mut c = base.clone();
    for n in names {
        let set = c.names.entry(rel(n)).or_default();
        set.retain(|x| !matches!(x, Rd::A(_)));
        set.insert(Rd::A(10 + k));
    }
    c
}

#[allow(dead_code)]
fn with_writes(base: &Content, ks: &[u8]) -> Content {
    let mut c = base.clone();
    for k in ks {
        for n in ["a", "b.a"] {
            let set = c.names.entry(rel(n)).or_default();
            set.retain(|x| !matches!(x, Rd::A(_)));
            set.insert(Rd::A(10 + k));
        }
    }
    c
}

fn expected_obs(c: &Content) -> Obs {
    // computed on a fresh, quiescent zone holding exactly `c` (outside any model run)
    let z = build_direct(c, false);
    let r = z.read();
    observe_zone(r.as_ref())
}

struct Scenario {
    name: &'static str,
    /// preemption bound for this scenario (None = the tier's bound)
    bound: Option<usize>,
    /// threads: 'R' reader (two observations), 'W' committing writer, 'A' abandoning writer,
    /// 'M' multi-batch writer (open, edit, commit, re-open with the same WritableZone, edit, commit - as
    /// ZoneUpdater does for every IXFR batch)
    threads: &'static [char],
}

fn main() {
    let ctx = Ctx::new("C09", "model_checking");
    assert!(verif_sync::set_backend(backend));
    let quick = ctx.quick();
    let bound = if quick { 2 } else { 3 };
    let scenarios = [
        Scenario { name: "reader|writer|reader", bound: None, threads: &['R', 'W', 'R'] },
        Scenario { name: "reader|writer|writer", bound: None, threads: &['R', 'W', 'W'] },
        Scenario { name: "reader|abandoning-writer|writer", bound: None, threads: &['R', 'A', 'W'] },
        Scenario { name: "reader|multi-batch-writer|writer", bound: None, threads: &['R', 'M', 'W'] },
        // thorough only: four threads at a lower bound
        Scenario { name: "reader|writer|reader|writer", bound: Some(1), threads: &['R', 'W', 'R', 'W'] },
        Scenario { name: "reader|writer|abandoning-writer|reader", bound: Some(1), threads: &['R', 'W', 'A', 'R'] },
    ];
    let c0 = content0();
    let mut per_scenario = Vec::new();
    let mut total_execs = 0u64;
    let mut outcomes_all: BTreeSet<String> = BTreeSet::new();
    for sc in &scenarios {
        if quick && sc.threads.len() > 3 {
            continue;
        }
        let bound = sc.bound.unwrap_or(bound);
        // legal contents a reader may be pinned to / the zone may end in: every serial order of
        // the committing writers (a multi-batch writer holds the zone's write lock across both of
        // its batches, so its batches are contiguous), every committed version on the way
        let units: Vec<(u8, char)> = sc.threads.iter().enumerate().filter(|(_, t)| **t == 'W' || **t == 'M').map(|(i, t)| (i as u8, *t)).collect();
        let mut legal: Vec<(String, Obs)> = vec![("v0".into(), expected_obs(&c0))];
        let mut finals: Vec<Obs> = Vec::new();
        let mut perms: Vec<Vec<(u8, char)>> = vec![vec![]];
        for _ in 0..units.len() {
            perms = perms.into_iter().flat_map(|p| units.iter().filter(|u| !p.contains(u)).map(|u| { let mut q = p.clone(); q.push(*u); q }).collect::<Vec<_>>()).collect();
        }
        for perm in &perms {
            let mut c = c0.clone();
            let mut tag = String::from("v0");
            for (k, t) in perm {
                let batches: Vec<&[&str]> = if *t == 'W' { vec![&["a", "b.a"]] } else { vec![&["a"], &["b.a"]] };
                for (bi, names) in batches.iter().enumerate() {
                    c = with_writes_to(&c, *k, names);
                    tag = format!("{tag}>{}{k}{}", t.to_ascii_lowercase(), if *t == 'M' { format!(".{}", bi + 1) } else { String::new() });
                    let o = expected_obs(&c);
                    if !legal.iter().any(|(_, l)| *l == o) {
                        legal.push((tag.clone(), o));
                    }
                }
            }
            finals.push(expected_obs(&c));
        }
        if units.is_empty() {
            finals.push(expected_obs(&c0));
        }
        let execs = std::sync::Arc::new(AtomicU64::new(0));
        let viols: std::sync::Arc<Mutex<Vec<(String, String)>>> = Default::default();
        let outcomes: std::sync::Arc<Mutex<BTreeSet<String>>> = Default::default();
        let threads: Vec<char> = sc.threads.to_vec();
        let (e2, v2, o2, legal2, c02, finals2) = (execs.clone(), viols.clone(), outcomes.clone(), legal.clone(), c0.clone(), finals.clone());
        let mut b = loom::model::Builder::new();
        b.preemption_bound = Some(bound);
        b.max_branches = 200_000;
        let run = std::panic::catch_unwind(std::panic::AssertUnwindSafe(|| {
            b.check(move || {
                e2.fetch_add(1, SO::Relaxed);
                let zone = build_direct(&c02, false);
                let point = loom::sync::Arc::new(AtomicUsize::new(0));
                POINT.store(loom::sync::Arc::as_ptr(&point) as *mut AtomicUsize, SO::SeqCst);
                let in_writer = std::sync::Arc::new(AtomicBool::new(false));
                let overlaps = std::sync::Arc::new(AtomicU64::new(0));
                let results: std::sync::Arc<Mutex<Vec<(usize, Obs, Obs)>>> = Default::default();
                let mut handles = Vec::new();
                for (i, t) in threads.iter().enumerate().skip(1) {
                    let (zone, in_writer, overlaps, results, t) = (zone.clone(), in_writer.clone(), overlaps.clone(), results.clone(), *t);
                    handles.push(loom::thread::spawn(move || body(i, t, &zone, &in_writer, &overlaps, &results)));
                }
                body(0, threads[0], &zone, &in_writer, &overlaps, &results);
                for h in handles {
                    h.join().unwrap();
                }
                POINT.store(std::ptr::null_mut(), SO::SeqCst);
                drop(point);
                // ---- oracles for this schedule
                let mut v = v2.lock().unwrap();
                if overlaps.load(SO::SeqCst) > 0 {
                    v.push(("C09|loom|writers-overlap".into(), "two writers were inside their write sections at the same time".into()));
                }
                let mut outcome = String::new();
                for (i, o1, o2) in results.lock().unwrap().iter() {
                    if o1 != o2 {
                        v.push(("C09|loom|reader-observation-changed-while-held".into(), format!("reader thread {i} observed two different states through one ReadableZone")));
                    }
                    match legal2.iter().find(|(_, l)| l == o1) {
                        Some((name, _)) => outcome.push_str(&format!("r{i}={name};")),
                        None => {
                            // a mixture of versions or uncommitted data
                            let data: Vec<String> = o1.answers.iter().map(|a| format!("{:?}", a.answer.iter().map(|x| x.2.clone()).collect::<Vec<_>>())).collect();
                            v.push(("C09|loom|reader-sees-no-single-committed-version".into(), format!("reader thread {i} observed {:?}, which is none of the committed versions", data)));
                        }
                    }
                }
                // final state: serial application of the committing writers in some order
                let fin = observe_zone(zone.read().as_ref());
                match finals2.iter().position(|l| *l == fin) {
                    Some(i) => outcome.push_str(&format!("final=order{i}")),
                    None => v.push(("C09|loom|final-state-is-no-serial-outcome".into(), "after all threads finished the zone holds a content no serial order of the committing writers produces".into())),
                }
                o2.lock().unwrap().insert(outcome);
            });
        }));
        if let Err(p) = run {
            let msg = p.downcast_ref::<String>().cloned().or_else(|| p.downcast_ref::<&str>().map(|s| s.to_string())).unwrap_or_default();
            let class: String = msg.chars().filter(|c| !c.is_ascii_digit()).take(60).collect();
            ctx.violation(&format!("C09|loom|{}|model-aborted|{}", sc.name, class), &format!("loom aborted the model: {msg}"), json!({"scenario": sc.name, "preemption_bound": bound}));
        }
        POINT.store(std::ptr::null_mut(), SO::SeqCst);
        for (sig, what) in viols.lock().unwrap().iter() {
            ctx.violation(&format!("{sig}|{}", sc.name), what, json!({"scenario": sc.name, "preemption_bound": bound}));
        }
        let n = execs.load(SO::Relaxed);
        total_execs += n;
        let oc = outcomes.lock().unwrap().clone();
        per_scenario.push(json!({"scenario": sc.name, "schedules": n, "distinct_outcomes": oc.len(), "outcomes": oc}));
        outcomes_all.extend(oc.into_iter().map(|o| format!("{}:{o}", sc.name)));
    }
    // evidence goes into a side file that the driver merges into C09.json
    let cov = json!({
        "engine": "loom 0.7.2 (DPOR, preemption-bounded)",
        "preemption_bound": bound,
        "schedules": total_execs,
        "scheduling_points_reported": POINTS_SEEN.load(SO::Relaxed),
        "contended_retries": CONTENDED_SEEN.load(SO::Relaxed),
        "distinct_outcomes": outcomes_all.len(),
        "scenarios": per_scenario,
        "violation_classes": ctx.violation_count(),
    });
    let _ = std::fs::create_dir_all("evidence");
    std::fs::write("evidence/C09.loom.json", serde_json::to_string_pretty(&cov).unwrap()).expect("write loom evidence");
    println!("C09 loom: {} schedules over {} scenarios, preemption bound {}, {} distinct outcomes, {} violation class(es)", total_execs, scenarios.len(), bound, outcomes_all.len(), ctx.violation_count());
    ctx.finish_quiet();
}

fn body(i: usize, t: char, zone: &Zone, in_writer: &AtomicBool, overlaps: &AtomicU64, results: &Mutex<Vec<(usize, Obs, Obs)>>) {
    match t {
        'R' => {
            let r = zone.read();
            let o1 = observe_zone(r.as_ref());
            let o2 = observe_zone(r.as_ref());
            results.lock().unwrap().push((i, o1, o2));
        }
        'W' => writer_body(zone, i as u8, in_writer, overlaps, true),
        'A' => writer_body(zone, i as u8, in_writer, overlaps, false),
        'M' => multi_batch_writer_body(zone, i as u8, in_writer, overlaps),
        _ => unreachable!(),
    }
}
