#!/usr/bin/env python3
"""One-time generator of the RSA fixtures in this directory (NOT run by the
check; the check only reads the committed files, embedded at compile time).

Needs the openssl command line tool. For every (bits, public exponent):
  rsa-<bits>-e<exp>.private   BIND private-key format v1.2, Algorithm 8
  rsa-<bits>-e<exp>.key       "z. IN DNSKEY 256 3 8 <RFC 3110 public key>"
  rsa-<bits>-e<exp>.sigs      signatures made by `openssl dgst -sign` over
                              msg.bin: lines "<sha1|sha256|sha512> <hex>"
Everything is derived from the PKCS#1 DER of the key by a DER reader written
here (no DNS library involved).
"""
import base64, os, subprocess, sys

HERE = os.path.dirname(os.path.abspath(__file__))
MSG = b"C12 fixture message: RSA PKCS#1 v1.5 signatures by an independent signer\n"
KEYS = [(1024, 65537), (2048, 65537), (3072, 65537), (4096, 65537),
        (2048, 3), (2048, 16777217), (2056, 65537), (4088, 65537)]

def sh(*a, **kw):
    return subprocess.run(a, check=True, capture_output=True, **kw).stdout

def der_ints(der):
    # SEQUENCE { INTEGER ... }
    def rdlen(b, i):
        n = b[i]; i += 1
        if n < 0x80:
            return n, i
        k = n & 0x7F
        return int.from_bytes(b[i:i + k], "big"), i + k
    assert der[0] == 0x30
    n, i = rdlen(der, 1)
    end = i + n
    out = []
    while i < end:
        assert der[i] == 0x02
        n, i = rdlen(der, i + 1)
        v = der[i:i + n]; i += n
        out.append(v.lstrip(b"\0") or b"\0")
    return out

def main():
    with open(os.path.join(HERE, "msg.bin"), "wb") as f:
        f.write(MSG)
    for bits, e in KEYS:
        base = os.path.join(HERE, f"rsa-{bits}-e{e}")
        pem = base + ".pem"
        sh("openssl", "genpkey", "-algorithm", "RSA", "-pkeyopt", f"rsa_keygen_bits:{bits}",
           "-pkeyopt", f"rsa_keygen_pubexp:{e}", "-out", pem)
        der = sh("openssl", "rsa", "-in", pem, "-traditional", "-outform", "DER")
        ver, n, pe, d, p, q, dp, dq, qi = der_ints(der)
        assert int.from_bytes(pe, "big") == e and len(n) == (bits + 7) // 8
        b = lambda x: base64.b64encode(x).decode()
        with open(base + ".private", "w") as f:
            f.write("Private-key-format: v1.2\nAlgorithm: 8 (RSASHA256)\n")
            for k, v in [("Modulus", n), ("PublicExponent", pe), ("PrivateExponent", d), ("Prime1", p),
                         ("Prime2", q), ("Exponent1", dp), ("Exponent2", dq), ("Coefficient", qi)]:
                f.write(f"{k}: {b(v)}\n")
        # RFC 3110 section 2
        assert len(pe) <= 255
        pub = bytes([len(pe)]) + pe + n
        with open(base + ".key", "w") as f:
            f.write(f"z. IN DNSKEY 256 3 8 {b(pub)}\n")
        with open(base + ".sigs", "w") as f:
            for h in ["sha1", "sha256", "sha512"]:
                sig = sh("openssl", "dgst", "-" + h, "-sign", pem, os.path.join(HERE, "msg.bin"))
                assert len(sig) == len(n)
                f.write(f"{h} {sig.hex()}\n")
        os.remove(pem)
        print("made", base)

if __name__ == "__main__":
    main()
