//! Shared record-data VALUE GENERATOR (owned by the C05 harness; reused by
//! C04 ordering/equality, C06 presentation round trip, C12 signing).
//! See DESIGN.md §3 "C05" for the menus.
//!
//! # What it produces
//!
//! For every record type the library implements (and for unknown types and
//! OPT) the generator enumerates the **full product of per-field boundary
//! menus** and, for every element of that product, offers
//!
//! * the library value built through the library's *public, safe*
//!   constructors ([`Rd`] = `AllRecordData<Vec<u8>, Name<Vec<u8>>>`), and
//! * an **independent reference encoding**: the uncompressed wire-format
//!   RDATA written field by field by this module from the RFC layouts
//!   (never by calling into `domain`), together with the byte spans of all
//!   embedded domain names.
//!
//! Constructor refusals (`LongRecordData`, `CharStrError`, ...) are expected
//! results: a refused candidate is counted, not generated.
//!
//! # API
//!
//! * [`all_values`]`(quick)` / [`zone_values`]`(quick)` — materialised lists
//!   `(mnemonic, value)`; meant for the *quick* menus (the thorough product
//!   holds ~10^6 values, some of 64 KiB: stream it instead).
//! * [`compact_values`]`()` — a small (a few values per type, no field
//!   above 255 octets) list for pair/triple enumeration (C04) and signing
//!   (C12).
//! * [`generators`]`()` + [`TypeGen::run`] — streaming, shardable
//!   enumeration delivering [`Event`]s (values with their reference
//!   encoding, plus constructor anomalies).
//! * [`opt_items`]`(tier)` — every EDNS option type with boundary values.
//! * [`names`]`()`, [`owners`]`()`, [`name_specs`]`()` — the name menu.
//!
//! Everything is deterministic: the n-th candidate of a type is always the
//! same value.

use crate::guard;
use domain::base::charstr::CharStr;
use domain::base::iana::{
    DigestAlgorithm, Nsec3HashAlgorithm, Rtype, SecurityAlgorithm,
};
use domain::base::name::Name;
use domain::base::rdata::UnknownRecordData;
use domain::base::{Serial, Ttl};
use domain::rdata::{self, AllRecordData, ZoneRecordData};
use std::collections::BTreeMap;
use std::net::{Ipv4Addr, Ipv6Addr};

/// Octets type of generated values.
pub type Octs = Vec<u8>;
/// Name type of generated values.
pub type Nm = Name<Vec<u8>>;
/// Any record data.
pub type Rd = AllRecordData<Octs, Nm>;
/// Record data allowed in zone files.
pub type ZRd = ZoneRecordData<Octs, Nm>;

/// Which menus to use.
#[derive(Clone, Copy, Debug, PartialEq, Eq)]
pub enum Tier {
    /// 1-3 values per field, nothing longer than 255 octets.
    Compact,
    /// The DESIGN menus in full (u8 {0,1,255}, u16 {0,1,255,256,65535},
    /// u32 {0,1,2^31,2^32-1}, 4 names, octets {0,1,255,max,max+1}, 7
    /// bitmaps, charstr {0,2,255,256}); 2-3 values per field only for types
    /// with more than 7 fields (RRSIG).
    Quick,
    /// Full menus everywhere, and for types with at most 7 fields extended
    /// ones (two more u8/u16/u32 values, three more names: wildcard,
    /// 63-octet label, labels with '.', NUL and 0xFF).
    Thorough,
}

impl Tier {
    pub fn from_quick(quick: bool) -> Tier {
        if quick {
            Tier::Quick
        } else {
            Tier::Thorough
        }
    }
}

//------------ names ---------------------------------------------------------

/// A domain name as a list of labels (without the root label).
#[derive(Clone, Debug, PartialEq, Eq)]
pub struct NameSpec {
    pub tag: &'static str,
    pub labels: Vec<Vec<u8>>,
}

impl NameSpec {
    /// Uncompressed wire form (independent of the library).
    pub fn wire(&self) -> Vec<u8> {
        crate::wire::to_wire(&self.labels)
    }
    /// The library value (`Name::from_octets` over the reference wire).
    pub fn name(&self) -> Nm {
        Name::from_octets(self.wire()).expect("menu name is valid")
    }
}

/// The name menu: root, `a.`, `A.b.`, and a 255-octet name with upper- and
/// lower-case labels (63 'A', 63 'b', 63 'C', 61 'd').
pub fn name_specs() -> Vec<NameSpec> {
    vec![
        NameSpec { tag: "root", labels: vec![] },
        NameSpec { tag: "a.", labels: vec![b"a".to_vec()] },
        NameSpec { tag: "A.b.", labels: vec![b"A".to_vec(), b"b".to_vec()] },
        NameSpec {
            tag: "max255",
            labels: vec![vec![b'A'; 63], vec![b'b'; 63], vec![b'C'; 63], vec![b'd'; 61]],
        },
    ]
}

/// The name menu as library values.
pub fn names() -> Vec<Nm> {
    name_specs().iter().map(|n| n.name()).collect()
}

/// Owner names for harnesses that need records: the name menu plus a
/// wildcard and a case twin.
pub fn owners() -> Vec<Nm> {
    let mut v = names();
    v.push(NameSpec { tag: "*.a.", labels: vec![b"*".to_vec(), b"a".to_vec()] }.name());
    v.push(NameSpec { tag: "a.B.", labels: vec![b"a".to_vec(), b"B".to_vec()] }.name());
    v
}

//------------ octets / menus -----------------------------------------------

/// Deterministic non-uniform fill so that shifted or truncated fields show.
pub fn fill(len: usize, salt: u8) -> Vec<u8> {
    (0..len)
        .map(|i| (i as u8).wrapping_mul(31).wrapping_add(salt).wrapping_add((i >> 8) as u8))
        .collect()
}

/// Fill with ASCII letters of both cases (character strings compare
/// case-insensitively in the library, the octets must still survive).
pub fn fill_alpha(len: usize) -> Vec<u8> {
    (0..len)
        .map(|i| if i % 2 == 0 { b'A' + (i % 26) as u8 } else { b'a' + (i % 26) as u8 })
        .collect()
}

/// Length choice for a variable-length octets field.
#[derive(Clone, Copy, Debug, PartialEq, Eq)]
pub enum Len {
    Fixed(usize),
    /// the largest length that keeps the RDATA at 65535 octets
    Max,
    /// one more than that: the constructor is expected to refuse
    MaxPlus1,
}

pub struct Menus {
    pub tier: Tier,
}

impl Menus {
    /// Quick tier: reduced menus only for types with more than 7 fields
    /// (RRSIG); compact: always.
    fn reduced(&self, nfields: usize) -> bool {
        match self.tier {
            Tier::Compact => true,
            Tier::Quick => nfields > 7,
            Tier::Thorough => false,
        }
    }
    /// Thorough tier: extended menus for types with at most 7 fields.
    fn extended(&self, nfields: usize) -> bool {
        self.tier == Tier::Thorough && nfields <= 7
    }
    pub fn u8s(&self, nfields: usize) -> Vec<u8> {
        if self.tier == Tier::Compact {
            vec![1]
        } else if self.reduced(nfields) {
            vec![0, 255]
        } else if self.extended(nfields) {
            vec![0, 1, 127, 128, 255]
        } else {
            vec![0, 1, 255]
        }
    }
    pub fn u16s(&self, nfields: usize) -> Vec<u16> {
        if self.tier == Tier::Compact {
            vec![1, 256]
        } else if self.reduced(nfields) {
            vec![0, 256, 65535]
        } else if self.extended(nfields) {
            vec![0, 1, 255, 256, 0x1234, 32768, 65535]
        } else {
            vec![0, 1, 255, 256, 65535]
        }
    }
    pub fn u32s(&self, nfields: usize) -> Vec<u32> {
        if self.tier == Tier::Compact {
            vec![1]
        } else if self.reduced(nfields) {
            vec![1, 0x8000_0000]
        } else if self.extended(nfields) {
            vec![0, 1, 0x0102_0304, 0x7FFF_FFFF, 0x8000_0000, 0xFFFF_FFFF]
        } else {
            vec![0, 1, 0x8000_0000, 0xFFFF_FFFF]
        }
    }
    pub fn names(&self, nfields: usize) -> Vec<NameSpec> {
        let mut all = name_specs();
        if self.tier == Tier::Compact {
            vec![all[1].clone(), all[2].clone()]
        } else if self.reduced(nfields) {
            vec![all[0].clone(), all[2].clone(), all[3].clone()]
        } else if self.extended(nfields) {
            all.push(NameSpec { tag: "*.a.", labels: vec![b"*".to_vec(), b"a".to_vec()] });
            all.push(NameSpec { tag: "X63.", labels: vec![vec![b'X'; 63]] });
            all.push(NameSpec {
                tag: "a.B.c\\.D.",
                labels: vec![b"a".to_vec(), b"B".to_vec(), b"c.".to_vec(), b"D\x00\xff".to_vec()],
            });
            all
        } else {
            all
        }
    }
    /// octets field menu: empty, 1, 255, the type's maximum, maximum+1
    pub fn lens(&self, nfields: usize) -> Vec<Len> {
        if self.tier == Tier::Compact {
            vec![Len::Fixed(0), Len::Fixed(3)]
        } else if self.reduced(nfields) {
            vec![Len::Fixed(0), Len::Fixed(255), Len::Max]
        } else {
            vec![Len::Fixed(0), Len::Fixed(1), Len::Fixed(255), Len::Max, Len::MaxPlus1]
        }
    }
    /// character-string menu: empty, mixed-case 2 octets, 255 octets.
    pub fn charstrs(&self, nfields: usize) -> Vec<Vec<u8>> {
        if self.tier == Tier::Compact {
            vec![b"Ab".to_vec()]
        } else if self.reduced(nfields) && self.tier == Tier::Quick && nfields > 5 {
            vec![vec![], fill_alpha(255)]
        } else {
            vec![vec![], b"Ab".to_vec(), fill_alpha(255)]
        }
    }
    /// type bitmap menu (lists of record types)
    pub fn bitmaps(&self) -> Vec<Vec<u16>> {
        if self.tier == Tier::Compact {
            vec![vec![1], vec![1, 47, 46]]
        } else {
            vec![
                vec![],
                vec![1],
                vec![1, 47, 46],
                vec![255],
                vec![256],
                vec![65535],
                vec![1, 257, 0x1234, 65280],
            ]
        }
    }
}

/// Reference encoding of an RFC 4034 §4.1.2 type bitmap.
pub fn bitmap_wire(types: &[u16]) -> Vec<u8> {
    let mut windows: BTreeMap<u8, [u8; 32]> = BTreeMap::new();
    for &t in types {
        let w = windows.entry((t >> 8) as u8).or_insert([0u8; 32]);
        let low = (t & 0xFF) as usize;
        w[low / 8] |= 0x80 >> (low % 8);
    }
    let mut out = Vec::new();
    for (n, w) in windows {
        let len = 32 - w.iter().rev().take_while(|b| **b == 0).count();
        out.push(n);
        out.push(len as u8);
        out.extend_from_slice(&w[..len]);
    }
    out
}

//------------ reference writer ---------------------------------------------

/// Field-by-field reference RDATA writer. Also collects the description of
/// the candidate and whether it is representable in wire format at all.
#[derive(Clone, Debug, Default)]
pub struct Ref {
    pub wire: Vec<u8>,
    pub names: Vec<(usize, usize)>,
    pub desc: Vec<String>,
    /// set when some field cannot be represented (over-long length field)
    pub unrepresentable: Option<String>,
}

impl Ref {
    pub fn new() -> Ref {
        Ref::default()
    }
    pub fn u8(&mut self, tag: &str, v: u8) -> u8 {
        self.wire.push(v);
        self.desc.push(format!("{tag}={v}"));
        v
    }
    pub fn u16(&mut self, tag: &str, v: u16) -> u16 {
        self.wire.extend_from_slice(&v.to_be_bytes());
        self.desc.push(format!("{tag}={v}"));
        v
    }
    pub fn u32(&mut self, tag: &str, v: u32) -> u32 {
        self.wire.extend_from_slice(&v.to_be_bytes());
        self.desc.push(format!("{tag}={v}"));
        v
    }
    pub fn u48(&mut self, tag: &str, v: u64) -> u64 {
        if v >> 48 != 0 {
            self.unrepresentable = Some(format!("{tag} exceeds 48 bits"));
        }
        self.wire.extend_from_slice(&v.to_be_bytes()[2..]);
        self.desc.push(format!("{tag}={v}"));
        v
    }
    /// raw octets, no length prefix
    pub fn raw(&mut self, tag: &str, b: &[u8]) -> Vec<u8> {
        self.wire.extend_from_slice(b);
        self.desc.push(format!("{tag}=[{}B]", b.len()));
        b.to_vec()
    }
    /// octets that are part of the encoding but not a field of their own
    pub fn lit(&mut self, b: &[u8]) {
        self.wire.extend_from_slice(b);
    }
    /// octets with a one-octet length prefix
    pub fn len8(&mut self, tag: &str, b: &[u8]) -> Vec<u8> {
        if b.len() > 255 {
            self.unrepresentable = Some(format!("{tag} longer than 255 octets"));
        }
        self.wire.push(b.len() as u8);
        self.wire.extend_from_slice(b);
        self.desc.push(format!("{tag}=<{}B>", b.len()));
        b.to_vec()
    }
    /// octets with a two-octet length prefix
    pub fn len16(&mut self, tag: &str, b: &[u8]) -> Vec<u8> {
        if b.len() > 65535 {
            self.unrepresentable = Some(format!("{tag} longer than 65535 octets"));
        }
        self.wire.extend_from_slice(&(b.len() as u16).to_be_bytes());
        self.wire.extend_from_slice(b);
        self.desc.push(format!("{tag}=<<{}B>>", b.len()));
        b.to_vec()
    }
    pub fn name(&mut self, tag: &str, n: &NameSpec) -> Nm {
        let w = n.wire();
        self.names.push((self.wire.len(), w.len()));
        self.wire.extend_from_slice(&w);
        self.desc.push(format!("{tag}={}", n.tag));
        n.name()
    }
    pub fn note(&mut self, s: String) {
        self.desc.push(s);
    }
    /// octets field whose length is a [`Len`] choice; `rest` is the number
    /// of RDATA octets contributed by everything else (including this
    /// field's own length prefix, if any).
    pub fn resolve(len: Len, rest: usize) -> usize {
        match len {
            Len::Fixed(n) => n,
            Len::Max => 65535usize.saturating_sub(rest),
            Len::MaxPlus1 => 65536usize.saturating_sub(rest),
        }
    }
}

//------------ events -------------------------------------------------------

/// One generated value with its independent reference encoding.
#[derive(Clone)]
pub struct Value {
    /// type mnemonic ("A", "RRSIG", "TYPE65280", ...)
    pub mnemonic: &'static str,
    /// numeric record type
    pub rtype: u16,
    /// candidate index within the type's enumeration (for replay)
    pub index: u64,
    /// the library value
    pub data: Rd,
    /// reference uncompressed wire-format RDATA
    pub wire: Vec<u8>,
    /// (offset, length) of every embedded domain name within `wire`
    pub names: Vec<(usize, usize)>,
    /// field choices, human readable
    pub desc: String,
}

/// What the enumeration of one candidate yields.
pub enum Event {
    /// The constructor accepted a wire-representable candidate.
    Value(Value),
    /// The constructor refused the candidate (expected for over-long ones).
    Refused { mnemonic: &'static str, index: u64, desc: String, error: String, representable: bool },
    /// The constructor accepted a candidate that has no wire representation
    /// (a length field would overflow, RDATA above 65535 octets).
    AcceptedUnrepresentable { mnemonic: &'static str, rtype: u16, index: u64, desc: String, why: String, data: Rd },
    /// The constructor panicked.
    CtorPanic { mnemonic: &'static str, index: u64, desc: String, msg: String, representable: bool },
}

/// Sink handed to the per-type generators.
pub struct Sink<'a> {
    mnemonic: &'static str,
    rtype: u16,
    shard: usize,
    nshards: usize,
    next: u64,
    cur: u64,
    f: &'a mut dyn FnMut(Event),
}

impl Sink<'_> {
    /// Advance to the next candidate; false if another shard owns it.
    pub fn want(&mut self) -> bool {
        self.cur = self.next;
        self.next += 1;
        (self.cur % self.nshards as u64) as usize == self.shard
    }
    /// Offer a candidate: `ctor` builds the library value.
    pub fn offer(&mut self, mut r: Ref, ctor: impl FnOnce() -> Result<Rd, String>) {
        if r.unrepresentable.is_none() && r.wire.len() > 65535 {
            r.unrepresentable = Some(format!("RDATA of {} octets", r.wire.len()));
        }
        let desc = format!("{}[{}]", self.mnemonic, r.desc.join(","));
        let ev = match guard(ctor) {
            Ok(Ok(data)) => match r.unrepresentable {
                None => Event::Value(Value {
                    mnemonic: self.mnemonic,
                    rtype: self.rtype,
                    index: self.cur,
                    data,
                    wire: r.wire,
                    names: r.names,
                    desc,
                }),
                Some(why) => Event::AcceptedUnrepresentable {
                    mnemonic: self.mnemonic,
                    rtype: self.rtype,
                    index: self.cur,
                    desc,
                    why,
                    data,
                },
            },
            Ok(Err(error)) => Event::Refused {
                mnemonic: self.mnemonic,
                index: self.cur,
                desc,
                error,
                representable: r.unrepresentable.is_none(),
            },
            Err(msg) => Event::CtorPanic {
                mnemonic: self.mnemonic,
                index: self.cur,
                desc,
                msg,
                representable: r.unrepresentable.is_none(),
            },
        };
        (self.f)(ev);
    }
}

/// The generator of one record type.
#[derive(Clone, Copy)]
pub struct TypeGen {
    pub mnemonic: &'static str,
    pub rtype: u16,
    /// allowed in zone files (member of `ZoneRecordData`)
    pub zone: bool,
    gen: fn(&Menus, &mut Sink),
}

impl TypeGen {
    /// Enumerate the candidates `i` of this type with `i % nshards == shard`
    /// (constructors of the others are not even called).
    pub fn run(&self, tier: Tier, shard: usize, nshards: usize, f: &mut dyn FnMut(Event)) -> u64 {
        let m = Menus { tier };
        let mut s = Sink {
            mnemonic: self.mnemonic,
            rtype: self.rtype,
            shard,
            nshards: nshards.max(1),
            next: 0,
            cur: 0,
            f,
        };
        (self.gen)(&m, &mut s);
        s.next
    }
}

fn es<E: std::fmt::Display>(e: E) -> String {
    e.to_string()
}

fn cs(b: &[u8]) -> Result<CharStr<Octs>, String> {
    CharStr::from_octets(b.to_vec()).map_err(|e| format!("CharStrError: {e}"))
}

/// Odometer over index vectors.
fn prod(sizes: &[usize], mut f: impl FnMut(&[usize])) {
    crate::product(sizes, |i| f(i));
}

//------------ per-type generators ---------------------------------------------

/// All type generators, in a fixed order.
pub fn generators() -> Vec<TypeGen> {
    macro_rules! g {
        ($m:expr, $t:expr, $z:expr, $f:expr) => {
            TypeGen { mnemonic: $m, rtype: $t, zone: $z, gen: $f }
        };
    }
    vec![
        g!("A", 1, true, gen_a),
        g!("AAAA", 28, true, gen_aaaa),
        g!("NS", 2, true, |m, s| gen_name1(m, s, |n| Rd::Ns(rdata::Ns::new(n)))),
        g!("MD", 3, true, |m, s| gen_name1(m, s, |n| Rd::Md(rdata::Md::new(n)))),
        g!("MF", 4, true, |m, s| gen_name1(m, s, |n| Rd::Mf(rdata::Mf::new(n)))),
        g!("CNAME", 5, true, |m, s| gen_name1(m, s, |n| Rd::Cname(rdata::Cname::new(n)))),
        g!("MB", 7, true, |m, s| gen_name1(m, s, |n| Rd::Mb(rdata::Mb::new(n)))),
        g!("MG", 8, true, |m, s| gen_name1(m, s, |n| Rd::Mg(rdata::Mg::new(n)))),
        g!("MR", 9, true, |m, s| gen_name1(m, s, |n| Rd::Mr(rdata::Mr::new(n)))),
        g!("PTR", 12, true, |m, s| gen_name1(m, s, |n| Rd::Ptr(rdata::Ptr::new(n)))),
        g!("DNAME", 39, true, |m, s| gen_name1(m, s, |n| Rd::Dname(rdata::Dname::new(n)))),
        g!("MINFO", 14, true, |m, s| gen_name2(m, s, |a, b| Rd::Minfo(rdata::Minfo::new(a, b)))),
        g!("RP", 17, true, |m, s| gen_name2(m, s, |a, b| Rd::Rp(rdata::Rp::new(a, b)))),
        g!("MX", 15, true, gen_mx),
        g!("SOA", 6, true, gen_soa),
        g!("TXT", 16, true, gen_txt),
        g!("HINFO", 13, true, gen_hinfo),
        g!("NULL", 10, false, gen_null),
        g!("SRV", 33, true, gen_srv),
        g!("NAPTR", 35, true, gen_naptr),
        g!("CAA", 257, true, gen_caa),
        g!("DS", 43, true, |m, s| gen_ds(m, s, false)),
        g!("CDS", 59, true, |m, s| gen_ds(m, s, true)),
        g!("DNSKEY", 48, true, |m, s| gen_dnskey(m, s, false)),
        g!("CDNSKEY", 60, true, |m, s| gen_dnskey(m, s, true)),
        g!("RRSIG", 46, true, gen_rrsig),
        g!("NSEC", 47, true, gen_nsec),
        g!("NSEC3", 50, true, gen_nsec3),
        g!("NSEC3PARAM", 51, true, gen_nsec3param),
        g!("SVCB", 64, true, |m, s| gen_svcb(m, s, false)),
        g!("HTTPS", 65, true, |m, s| gen_svcb(m, s, true)),
        g!("TLSA", 52, true, gen_tlsa),
        g!("SSHFP", 44, true, gen_sshfp),
        g!("IPSECKEY", 45, true, gen_ipseckey),
        g!("OPENPGPKEY", 61, true, gen_openpgpkey),
        g!("ZONEMD", 63, true, gen_zonemd),
        g!("TSIG", 250, false, gen_tsig),
        g!("OPT", 41, false, gen_opt),
        g!("TYPE65280", 65280, true, |m, s| gen_unknown(m, s, 65280)),
        g!("TYPE99", 99, true, |m, s| gen_unknown(m, s, 99)),
        g!("TYPE65535", 65535, true, |m, s| gen_unknown(m, s, 65535)),
    ]
}

fn addrs4(m: &Menus) -> Vec<[u8; 4]> {
    if m.tier == Tier::Compact {
        vec![[192, 0, 2, 1], [192, 0, 2, 2]]
    } else {
        vec![[0, 0, 0, 0], [1, 2, 3, 4], [255, 255, 255, 255]]
    }
}

fn addrs6(m: &Menus) -> Vec<[u8; 16]> {
    let mut a = [0u8; 16];
    for (i, b) in a.iter_mut().enumerate() {
        *b = (i as u8) * 16 + 1;
    }
    if m.tier == Tier::Compact {
        vec![a]
    } else {
        vec![[0; 16], a, [255; 16]]
    }
}

fn gen_a(m: &Menus, s: &mut Sink) {
    for a in addrs4(m) {
        if !s.want() {
            continue;
        }
        let mut r = Ref::new();
        r.raw("addr", &a);
        s.offer(r, || Ok(Rd::A(rdata::A::new(Ipv4Addr::from(a)))));
    }
    // the second constructor
    if m.tier != Tier::Compact && s.want() {
        let mut r = Ref::new();
        r.raw("addr(from_octets)", &[9, 8, 7, 6]);
        s.offer(r, || Ok(Rd::A(rdata::A::from_octets(9, 8, 7, 6))));
    }
}

fn gen_aaaa(m: &Menus, s: &mut Sink) {
    for a in addrs6(m) {
        if !s.want() {
            continue;
        }
        let mut r = Ref::new();
        r.raw("addr", &a);
        s.offer(r, || Ok(Rd::Aaaa(rdata::Aaaa::new(Ipv6Addr::from(a)))));
    }
}

fn gen_name1(m: &Menus, s: &mut Sink, mk: fn(Nm) -> Rd) {
    for n in m.names(1) {
        if !s.want() {
            continue;
        }
        let mut r = Ref::new();
        let n = r.name("name", &n);
        s.offer(r, || Ok(mk(n)));
    }
}

fn gen_name2(m: &Menus, s: &mut Sink, mk: fn(Nm, Nm) -> Rd) {
    let ns = m.names(2);
    prod(&[ns.len(), ns.len()], |i| {
        if !s.want() {
            return;
        }
        let mut r = Ref::new();
        let a = r.name("n1", &ns[i[0]]);
        let b = r.name("n2", &ns[i[1]]);
        s.offer(r, || Ok(mk(a, b)));
    });
}

fn gen_mx(m: &Menus, s: &mut Sink) {
    let (ps, ns) = (m.u16s(2), m.names(2));
    prod(&[ps.len(), ns.len()], |i| {
        if !s.want() {
            return;
        }
        let mut r = Ref::new();
        let p = r.u16("pref", ps[i[0]]);
        let n = r.name("exchange", &ns[i[1]]);
        s.offer(r, || Ok(Rd::Mx(rdata::Mx::new(p, n))));
    });
}

fn gen_soa(m: &Menus, s: &mut Sink) {
    let (ns, us) = (m.names(7), m.u32s(7));
    prod(&[ns.len(), ns.len(), us.len(), us.len(), us.len(), us.len(), us.len()], |i| {
        if !s.want() {
            return;
        }
        let mut r = Ref::new();
        let mname = r.name("mname", &ns[i[0]]);
        let rname = r.name("rname", &ns[i[1]]);
        let serial = r.u32("serial", us[i[2]]);
        let refresh = r.u32("refresh", us[i[3]]);
        let retry = r.u32("retry", us[i[4]]);
        let expire = r.u32("expire", us[i[5]]);
        let minimum = r.u32("minimum", us[i[6]]);
        s.offer(r, || {
            Ok(Rd::Soa(rdata::Soa::new(
                mname,
                rname,
                Serial(serial),
                Ttl::from_secs(refresh),
                Ttl::from_secs(retry),
                Ttl::from_secs(expire),
                Ttl::from_secs(minimum),
            )))
        });
    });
}

/// Largest text length n whose TXT encoding n + ceil(n/255) fits 65535.
fn txt_max_text() -> usize {
    let mut n = 65535usize;
    while n + n.div_ceil(255) > 65535 {
        n -= 1;
    }
    n
}

fn gen_txt(m: &Menus, s: &mut Sink) {
    // (a) explicit character-string sequences through Txt::from_octets
    let mut seqs: Vec<(&'static str, Vec<Vec<u8>>)> = vec![
        ("one-empty", vec![vec![]]),
        ("one-Ab", vec![b"Ab".to_vec()]),
        ("one-255", vec![fill_alpha(255)]),
        ("two", vec![b"x y".to_vec(), b"\"q\\".to_vec()]),
    ];
    if m.tier != Tier::Compact {
        seqs.push(("none", vec![]));
        seqs.push(("255+255", vec![fill_alpha(255), fill(255, 9)]));
        seqs.push(("empty,empty,1", vec![vec![], vec![], vec![0]]));
        // exactly 65535 octets: 255 strings of 255 octets + one of 254
        let mut big: Vec<Vec<u8>> = (0..255).map(|k| fill(255, k as u8)).collect();
        big.push(fill(254, 77));
        seqs.push(("65535", big.clone()));
        // 65536 octets: expected refusal
        big.pop();
        big.push(fill(255, 78));
        seqs.push(("65536", big));
    }
    for (tag, seq) in seqs {
        if !s.want() {
            continue;
        }
        let mut r = Ref::new();
        r.note(format!("from_octets:{tag}"));
        for c in &seq {
            r.len8("s", c);
        }
        let w = r.wire.clone();
        s.offer(r, || rdata::Txt::from_octets(w).map(Rd::Txt).map_err(|e| format!("TxtError: {e}")));
    }
    // (b) the builder: text split into 255-octet chunks
    let mut texts: Vec<usize> = vec![0, 1, 255];
    if m.tier != Tier::Compact {
        texts.extend([254, 256, 510, 511, txt_max_text(), txt_max_text() + 1]);
    }
    for n in texts {
        if !s.want() {
            continue;
        }
        let text = fill(n, 5);
        let mut r = Ref::new();
        r.note(format!("build_from_slice:{n}"));
        if n == 0 {
            // an empty text is one empty string (TXT needs >= 1 string)
            r.len8("s", &[]);
        }
        for c in text.chunks(255) {
            r.len8("s", c);
        }
        s.offer(r, || {
            rdata::Txt::<Octs>::build_from_slice(&text).map(Rd::Txt).map_err(|e| format!("TxtAppendError: {e}"))
        });
    }
    // (c) the builder fed piecewise: append_slice in pieces, append_charstr
    if m.tier != Tier::Compact {
        let plans: Vec<(&'static str, Vec<(bool, usize)>)> = vec![
            // (is_charstr, len)
            ("slice200+slice55", vec![(false, 200), (false, 55)]),
            ("slice200+slice56", vec![(false, 200), (false, 56)]),
            ("slice255+slice1", vec![(false, 255), (false, 1)]),
            ("slice10+cs3+slice4", vec![(false, 10), (true, 3), (false, 4)]),
            ("cs0+cs255", vec![(true, 0), (true, 255)]),
            ("slice300+cs0", vec![(false, 300), (true, 0)]),
            ("slice0+slice0", vec![(false, 0), (false, 0)]),
        ];
        for (tag, plan) in plans {
            if !s.want() {
                continue;
            }
            // reference: slices concatenate into a run that is chunked at
            // 255; a charstr closes the run and stands alone
            let mut r = Ref::new();
            r.note(format!("builder:{tag}"));
            let mut strings: Vec<Vec<u8>> = Vec::new();
            let mut run: Option<Vec<u8>> = None;
            let mut k = 0u8;
            let mut pieces: Vec<(bool, Vec<u8>)> = Vec::new();
            for (is_cs, n) in &plan {
                k += 1;
                let b = fill(*n, k);
                pieces.push((*is_cs, b.clone()));
                if *is_cs {
                    if let Some(run) = run.take() {
                        for c in run.chunks(255) {
                            strings.push(c.to_vec());
                        }
                    }
                    strings.push(b);
                } else if !b.is_empty() {
                    run.get_or_insert_with(Vec::new).extend_from_slice(&b);
                }
            }
            if let Some(run) = run.take() {
                for c in run.chunks(255) {
                    strings.push(c.to_vec());
                }
            }
            if strings.is_empty() {
                strings.push(vec![]);
            }
            for c in &strings {
                r.len8("s", c);
            }
            s.offer(r, || {
                let mut b = rdata::rfc1035::TxtBuilder::<Vec<u8>>::new();
                for (is_cs, p) in &pieces {
                    if *is_cs {
                        b.append_charstr(&cs(p)?).map_err(|e| format!("TxtAppendError: {e}"))?;
                    } else {
                        b.append_slice(p).map_err(|e| format!("TxtAppendError: {e}"))?;
                    }
                }
                b.finish().map(Rd::Txt).map_err(|e| format!("TxtAppendError: {e}"))
            });
        }
    }
}

fn gen_hinfo(m: &Menus, s: &mut Sink) {
    let mut cs_menu = m.charstrs(2);
    if m.tier != Tier::Compact {
        cs_menu.push(fill_alpha(256)); // expected CharStrError
    }
    prod(&[cs_menu.len(), cs_menu.len()], |i| {
        if !s.want() {
            return;
        }
        let mut r = Ref::new();
        let a = r.len8("cpu", &cs_menu[i[0]]);
        let b = r.len8("os", &cs_menu[i[1]]);
        s.offer(r, || Ok(Rd::Hinfo(rdata::Hinfo::new(cs(&a)?, cs(&b)?))));
    });
}

fn gen_null(m: &Menus, s: &mut Sink) {
    for l in m.lens(1) {
        if !s.want() {
            continue;
        }
        let n = Ref::resolve(l, 0);
        let mut r = Ref::new();
        let d = r.raw("data", &fill(n, 1));
        s.offer(r, || rdata::Null::from_octets(d).map(Rd::Null).map_err(es));
    }
}

fn gen_unknown(m: &Menus, s: &mut Sink, rtype: u16) {
    for l in m.lens(1) {
        if !s.want() {
            continue;
        }
        let n = Ref::resolve(l, 0);
        let mut r = Ref::new();
        let d = r.raw("data", &fill(n, 2));
        s.offer(r, || UnknownRecordData::from_octets(Rtype::from_int(rtype), d).map(Rd::Unknown).map_err(es));
    }
}

fn gen_srv(m: &Menus, s: &mut Sink) {
    let (us, ns) = (m.u16s(4), m.names(4));
    prod(&[us.len(), us.len(), us.len(), ns.len()], |i| {
        if !s.want() {
            return;
        }
        let mut r = Ref::new();
        let p = r.u16("prio", us[i[0]]);
        let w = r.u16("weight", us[i[1]]);
        let port = r.u16("port", us[i[2]]);
        let t = r.name("target", &ns[i[3]]);
        s.offer(r, || Ok(Rd::Srv(rdata::Srv::new(p, w, port, t))));
    });
}

fn gen_naptr(m: &Menus, s: &mut Sink) {
    let (us, ns) = (m.u16s(6), m.names(6));
    let mut cm = m.charstrs(6);
    let with_long = m.tier != Tier::Compact;
    if with_long {
        cm.push(fill_alpha(256)); // expected CharStrError
    }
    prod(&[us.len(), us.len(), cm.len(), cm.len(), cm.len(), ns.len()], |i| {
        if !s.want() {
            return;
        }
        let mut r = Ref::new();
        let o = r.u16("order", us[i[0]]);
        let p = r.u16("pref", us[i[1]]);
        let f = r.len8("flags", &cm[i[2]]);
        let sv = r.len8("services", &cm[i[3]]);
        let re = r.len8("regexp", &cm[i[4]]);
        let n = r.name("replacement", &ns[i[5]]);
        s.offer(r, || Ok(Rd::Naptr(rdata::Naptr::new(o, p, cs(&f)?, cs(&sv)?, cs(&re)?, n))));
    });
}

fn gen_caa(m: &Menus, s: &mut Sink) {
    let fl = m.u8s(3);
    // (tag octets, via CharStr?) — both tag constructors
    let mut tags: Vec<(Vec<u8>, bool)> = vec![(b"issue".to_vec(), false), (b"IssueWild9".to_vec(), true)];
    if m.tier != Tier::Compact {
        tags.push((vec![], false));
        tags.push((b"a".to_vec(), true));
        tags.push((fill_alpha(255), false));
        tags.push((fill_alpha(255), true));
        tags.push((fill_alpha(256), false)); // from_octets: must be refused
        tags.push((fill_alpha(256), true)); // via CharStr: CharStrError
        tags.push((b"a-b".to_vec(), false)); // not alphanumeric: refused
    }
    let lens = m.lens(3);
    prod(&[fl.len(), tags.len(), lens.len()], |i| {
        if !s.want() {
            return;
        }
        let (tag, via_cs) = tags[i[1]].clone();
        let mut r = Ref::new();
        let f = r.u8("flags", fl[i[0]]);
        let t = r.len8(if via_cs { "tag(new)" } else { "tag(from_octets)" }, &tag);
        let n = Ref::resolve(lens[i[2]], 1 + 1 + tag.len().min(255));
        let v = r.raw("value", &fill(n, 3));
        s.offer(r, || {
            let tag = if via_cs {
                rdata::caa::CaaTag::new(cs(&t)?).map_err(es)?
            } else {
                rdata::caa::CaaTag::from_octets(t).map_err(es)?
            };
            Ok(Rd::Caa(rdata::Caa::new(rdata::caa::CaaFlags::new(f), tag, v)))
        });
    });
}

fn gen_ds(m: &Menus, s: &mut Sink, cds: bool) {
    let (kt, al, lens) = (m.u16s(4), m.u8s(4), m.lens(4));
    prod(&[kt.len(), al.len(), al.len(), lens.len()], |i| {
        if !s.want() {
            return;
        }
        let mut r = Ref::new();
        let k = r.u16("keytag", kt[i[0]]);
        let a = r.u8("alg", al[i[1]]);
        let dt = r.u8("digtype", al[i[2]]);
        let d = r.raw("digest", &fill(Ref::resolve(lens[i[3]], 4), 4));
        s.offer(r, || {
            let (a, dt) = (SecurityAlgorithm::from_int(a), DigestAlgorithm::from_int(dt));
            if cds {
                rdata::Cds::new(k, a, dt, d).map(Rd::Cds).map_err(es)
            } else {
                rdata::Ds::new(k, a, dt, d).map(Rd::Ds).map_err(es)
            }
        });
    });
}

fn gen_dnskey(m: &Menus, s: &mut Sink, cdnskey: bool) {
    let (fl, pr, lens) = (m.u16s(4), m.u8s(4), m.lens(4));
    prod(&[fl.len(), pr.len(), pr.len(), lens.len()], |i| {
        if !s.want() {
            return;
        }
        let mut r = Ref::new();
        let f = r.u16("flags", fl[i[0]]);
        let p = r.u8("proto", pr[i[1]]);
        let a = r.u8("alg", pr[i[2]]);
        let k = r.raw("key", &fill(Ref::resolve(lens[i[3]], 4), 5));
        s.offer(r, || {
            let a = SecurityAlgorithm::from_int(a);
            if cdnskey {
                rdata::Cdnskey::new(f, p, a, k).map(Rd::Cdnskey).map_err(es)
            } else {
                rdata::Dnskey::new(f, p, a, k).map(Rd::Dnskey).map_err(es)
            }
        });
    });
}

fn gen_rrsig(m: &Menus, s: &mut Sink) {
    let (u16s, u8s, u32s, ns, lens) = (m.u16s(9), m.u8s(9), m.u32s(9), m.names(9), m.lens(9));
    prod(
        &[u16s.len(), u8s.len(), u8s.len(), u32s.len(), u32s.len(), u32s.len(), u16s.len(), ns.len(), lens.len()],
        |i| {
            if !s.want() {
                return;
            }
            let mut r = Ref::new();
            let tc = r.u16("covered", u16s[i[0]]);
            let a = r.u8("alg", u8s[i[1]]);
            let l = r.u8("labels", u8s[i[2]]);
            let ttl = r.u32("ottl", u32s[i[3]]);
            let exp = r.u32("exp", u32s[i[4]]);
            let inc = r.u32("inc", u32s[i[5]]);
            let kt = r.u16("keytag", u16s[i[6]]);
            let nspec = &ns[i[7]];
            let n = r.name("signer", nspec);
            let sig = r.raw("sig", &fill(Ref::resolve(lens[i[8]], 18 + nspec.wire().len()), 6));
            s.offer(r, || {
                rdata::Rrsig::new(
                    Rtype::from_int(tc),
                    SecurityAlgorithm::from_int(a),
                    l,
                    Ttl::from_secs(ttl),
                    rdata::dnssec::Timestamp::from(exp),
                    rdata::dnssec::Timestamp::from(inc),
                    kt,
                    n,
                    sig,
                )
                .map(Rd::Rrsig)
                .map_err(es)
            });
        },
    );
}

fn mk_bitmap(types: &[u16]) -> rdata::dnssec::RtypeBitmap<Octs> {
    let mut b = rdata::dnssec::RtypeBitmapBuilder::<Vec<u8>>::new_vec();
    for t in types {
        b.add(Rtype::from_int(*t)).expect("vec");
    }
    b.finalize()
}

/// Insertion orders for the bitmap builder: as listed and reversed.
fn bitmap_orders(m: &Menus) -> Vec<(Vec<u16>, &'static str)> {
    let mut out = Vec::new();
    for b in m.bitmaps() {
        out.push((b.clone(), "fwd"));
        if b.len() > 1 && m.tier != Tier::Compact {
            let mut rev = b.clone();
            rev.reverse();
            out.push((rev, "rev"));
        }
    }
    out
}

fn gen_nsec(m: &Menus, s: &mut Sink) {
    let (ns, bm) = (m.names(2), bitmap_orders(m));
    prod(&[ns.len(), bm.len()], |i| {
        if !s.want() {
            return;
        }
        let mut r = Ref::new();
        let n = r.name("next", &ns[i[0]]);
        let (types, ord) = &bm[i[1]];
        r.raw("bitmap", &bitmap_wire(types));
        r.note(format!("types={types:?}/{ord}"));
        s.offer(r, || Ok(Rd::Nsec(rdata::Nsec::new(n, mk_bitmap(types)))));
    });
}

fn len8_menu(m: &Menus, nfields: usize) -> Vec<usize> {
    if m.tier == Tier::Compact {
        vec![0, 4]
    } else if m.reduced(nfields) {
        vec![0, 255]
    } else {
        vec![0, 1, 255, 256]
    }
}

fn gen_nsec3(m: &Menus, s: &mut Sink) {
    let (u8s, its, ls, bm) = (m.u8s(6), m.u16s(6), len8_menu(m, 6), bitmap_orders(m));
    prod(&[u8s.len(), u8s.len(), its.len(), ls.len(), ls.len(), bm.len()], |i| {
        if !s.want() {
            return;
        }
        let mut r = Ref::new();
        let a = r.u8("hashalg", u8s[i[0]]);
        let f = r.u8("flags", u8s[i[1]]);
        let it = r.u16("iter", its[i[2]]);
        let salt = r.len8("salt", &fill(ls[i[3]], 7));
        let next = r.len8("next", &fill(ls[i[4]], 8));
        let (types, ord) = &bm[i[5]];
        r.raw("bitmap", &bitmap_wire(types));
        r.note(format!("types={types:?}/{ord}"));
        s.offer(r, || {
            Ok(Rd::Nsec3(rdata::Nsec3::new(
                Nsec3HashAlgorithm::from_int(a),
                f,
                it,
                rdata::nsec3::Nsec3Salt::from_octets(salt).map_err(es)?,
                rdata::nsec3::OwnerHash::from_octets(next).map_err(es)?,
                mk_bitmap(types),
            )))
        });
    });
}

fn gen_nsec3param(m: &Menus, s: &mut Sink) {
    let (u8s, its, ls) = (m.u8s(4), m.u16s(4), len8_menu(m, 4));
    prod(&[u8s.len(), u8s.len(), its.len(), ls.len()], |i| {
        if !s.want() {
            return;
        }
        let mut r = Ref::new();
        let a = r.u8("hashalg", u8s[i[0]]);
        let f = r.u8("flags", u8s[i[1]]);
        let it = r.u16("iter", its[i[2]]);
        let salt = r.len8("salt", &fill(ls[i[3]], 7));
        s.offer(r, || {
            Ok(Rd::Nsec3param(rdata::Nsec3param::new(
                Nsec3HashAlgorithm::from_int(a),
                f,
                it,
                rdata::nsec3::Nsec3Salt::from_octets(salt).map_err(es)?,
            )))
        });
    });
}

fn gen_tlsa(m: &Menus, s: &mut Sink) {
    let (u8s, lens) = (m.u8s(4), m.lens(4));
    prod(&[u8s.len(), u8s.len(), u8s.len(), lens.len()], |i| {
        if !s.want() {
            return;
        }
        let mut r = Ref::new();
        let u = r.u8("usage", u8s[i[0]]);
        let se = r.u8("selector", u8s[i[1]]);
        let mt = r.u8("mtype", u8s[i[2]]);
        let d = r.raw("data", &fill(Ref::resolve(lens[i[3]], 3), 9));
        s.offer(r, || Ok(Rd::Tlsa(rdata::Tlsa::new(u.into(), se.into(), mt.into(), d))));
    });
}

fn gen_sshfp(m: &Menus, s: &mut Sink) {
    let (u8s, lens) = (m.u8s(3), m.lens(3));
    prod(&[u8s.len(), u8s.len(), lens.len()], |i| {
        if !s.want() {
            return;
        }
        let mut r = Ref::new();
        let a = r.u8("alg", u8s[i[0]]);
        let t = r.u8("fptype", u8s[i[1]]);
        let d = r.raw("fp", &fill(Ref::resolve(lens[i[2]], 2), 10));
        s.offer(r, || Ok(Rd::Sshfp(rdata::Sshfp::new(a.into(), t.into(), d))));
    });
}

fn gen_openpgpkey(m: &Menus, s: &mut Sink) {
    for l in m.lens(1) {
        if !s.want() {
            continue;
        }
        let mut r = Ref::new();
        let d = r.raw("key", &fill(Ref::resolve(l, 0), 11));
        s.offer(r, || Ok(Rd::Openpgpkey(rdata::Openpgpkey::new(d))));
    }
}

fn gen_zonemd(m: &Menus, s: &mut Sink) {
    let (u32s, u8s) = (m.u32s(4), m.u8s(4));
    let mut lens = m.lens(4);
    if m.tier != Tier::Compact {
        // RFC 8976 2.2.4: the digest MUST NOT be shorter than 12 octets
        lens.push(Len::Fixed(11));
        lens.push(Len::Fixed(12));
    } else {
        lens = vec![Len::Fixed(48)];
    }
    prod(&[u32s.len(), u8s.len(), u8s.len(), lens.len()], |i| {
        if !s.want() {
            return;
        }
        let mut r = Ref::new();
        let se = r.u32("serial", u32s[i[0]]);
        let sc = r.u8("scheme", u8s[i[1]]);
        let a = r.u8("alg", u8s[i[2]]);
        let d = r.raw("digest", &fill(Ref::resolve(lens[i[3]], 6), 12));
        s.offer(r, || Ok(Rd::Zonemd(rdata::Zonemd::new(Serial(se), sc.into(), a.into(), d))));
    });
}

fn gen_ipseckey(m: &Menus, s: &mut Sink) {
    use rdata::ipseckey::IpseckeyGateway as Gw;
    #[derive(Clone)]
    enum G {
        None,
        V4([u8; 4]),
        V6([u8; 16]),
        Name(NameSpec),
    }
    let mut gws = vec![G::None];
    gws.extend(addrs4(m).into_iter().map(G::V4));
    gws.extend(addrs6(m).into_iter().map(G::V6));
    gws.extend(m.names(4).into_iter().map(G::Name));
    let (u8s, lens) = (m.u8s(4), m.lens(4));
    prod(&[u8s.len(), u8s.len(), gws.len(), lens.len()], |i| {
        if !s.want() {
            return;
        }
        let mut r = Ref::new();
        let p = r.u8("prec", u8s[i[0]]);
        let alg = u8s[i[1]];
        let g = gws[i[2]].clone();
        let gt = match g {
            G::None => 0,
            G::V4(_) => 1,
            G::V6(_) => 2,
            G::Name(_) => 3,
        };
        r.u8("gwtype", gt);
        r.u8("alg", alg);
        let gw: Gw<Nm> = match &g {
            G::None => Gw::None,
            G::V4(a) => {
                r.raw("gw4", a);
                Gw::Ipv4(rdata::A::new(Ipv4Addr::from(*a)))
            }
            G::V6(a) => {
                r.raw("gw6", a);
                Gw::Ipv6(rdata::Aaaa::new(Ipv6Addr::from(*a)))
            }
            G::Name(n) => Gw::Name(r.name("gwname", n)),
        };
        let rest = r.wire.len();
        let k = r.raw("key", &fill(Ref::resolve(lens[i[3]], rest), 13));
        s.offer(r, || Ok(Rd::Ipseckey(rdata::Ipseckey::new(p, alg.into(), gw, k))));
    });
}

fn gen_tsig(m: &Menus, s: &mut Sink) {
    let (ns, u16s, lens) = (m.names(7), m.u16s(7), m.lens(7));
    let times: Vec<u64> = match m.tier {
        Tier::Compact => vec![1_700_000_000],
        Tier::Quick => vec![0, 0x1_0000_0000, 0xFFFF_FFFF_FFFF],
        Tier::Thorough => vec![0, 1, 0x1_0000_0000, 0xFFFF_FFFF_FFFF, 0x1_0000_0000_0000],
    };
    prod(&[ns.len(), times.len(), u16s.len(), lens.len(), u16s.len(), u16s.len(), lens.len()], |i| {
        if !s.want() {
            return;
        }
        let nspec = &ns[i[0]];
        let fixed = nspec.wire().len() + 16;
        let (lm, lo) = (lens[i[3]], lens[i[6]]);
        // a Max/MaxPlus1 field gets the whole budget left by the fixed
        // part and by the other field's *fixed* length
        let fixlen = |l: Len| if let Len::Fixed(n) = l { n } else { 0 };
        let mac_len = Ref::resolve(lm, fixed + fixlen(lo));
        let other_len = match lo {
            Len::Fixed(n) => n,
            _ => Ref::resolve(lo, fixed + mac_len).min(Ref::resolve(lo, fixed + fixlen(lm))),
        };
        let mut r = Ref::new();
        let alg = r.name("alg", nspec);
        let t = r.u48("time", times[i[1]]);
        let fudge = r.u16("fudge", u16s[i[2]]);
        let mac = r.len16("mac", &fill(mac_len, 14));
        let id = r.u16("origid", u16s[i[4]]);
        let err = r.u16("error", u16s[i[5]]);
        let other = r.len16("other", &fill(other_len, 15));
        s.offer(r, || {
            rdata::Tsig::new(
                alg,
                rdata::tsig::Time48::from_u64(t),
                fudge,
                mac,
                id,
                domain::base::iana::TsigRcode::from_int(err),
                other,
            )
            .map(Rd::Tsig)
            .map_err(es)
        });
    });
}
//------------ SVCB / HTTPS ----------------------------------------------------

/// One service parameter: key, reference value octets, how to push it.
#[derive(Clone)]
pub struct SvcParamSpec {
    pub tag: String,
    pub key: u16,
    pub value: Vec<u8>,
    kind: SvcKind,
}

#[derive(Clone)]
enum SvcKind {
    Mandatory(Vec<u16>),
    Alpn(Vec<Vec<u8>>),
    NoDefaultAlpn,
    Port(u16),
    Ech(Vec<u8>),
    V4(Vec<[u8; 4]>),
    V6(Vec<[u8; 16]>),
    DohPath(Vec<u8>),
    Ohttp,
    TlsGroups(Vec<u16>),
    Unknown(Vec<u8>),
}

impl SvcParamSpec {
    fn new(kind: SvcKind, key: u16, tag: &str) -> SvcParamSpec {
        let value: Vec<u8> = match &kind {
            SvcKind::Mandatory(k) | SvcKind::TlsGroups(k) => k.iter().flat_map(|k| k.to_be_bytes()).collect(),
            SvcKind::Alpn(ps) => ps.iter().flat_map(|p| std::iter::once(p.len() as u8).chain(p.iter().cloned())).collect(),
            SvcKind::NoDefaultAlpn | SvcKind::Ohttp => vec![],
            SvcKind::Port(p) => p.to_be_bytes().to_vec(),
            SvcKind::Ech(b) | SvcKind::DohPath(b) | SvcKind::Unknown(b) => b.clone(),
            SvcKind::V4(a) => a.iter().flatten().cloned().collect(),
            SvcKind::V6(a) => a.iter().flatten().cloned().collect(),
        };
        SvcParamSpec { tag: tag.to_string(), key, value, kind }
    }

    /// Push this parameter through the library's typed value API.
    pub fn push(&self, b: &mut rdata::svcb::SvcParamsBuilder<Vec<u8>>) -> Result<(), String> {
        use rdata::svcb::value::*;
        use rdata::svcb::UnknownSvcParam;
        use domain::base::iana::SvcParamKey;
        match &self.kind {
            SvcKind::Mandatory(k) => {
                let v = Mandatory::<Vec<u8>>::from_keys(k.iter().map(|k| SvcParamKey::from_int(*k))).map_err(es)?;
                b.push(&v).map_err(es)
            }
            SvcKind::Alpn(ps) => {
                let mut ab = AlpnBuilder::<Vec<u8>>::empty();
                for p in ps {
                    ab.push(p).map_err(es)?;
                }
                b.push(&ab.freeze()).map_err(es)
            }
            SvcKind::NoDefaultAlpn => b.push(&NoDefaultAlpn).map_err(es),
            SvcKind::Port(p) => b.push(&Port::new(*p)).map_err(es),
            SvcKind::Ech(e) => b.push(&Ech::from_octets(e.clone()).map_err(es)?).map_err(es),
            SvcKind::V4(a) => {
                let v = Ipv4Hint::<Vec<u8>>::from_addrs(a.iter().map(|a| Ipv4Addr::from(*a))).map_err(es)?;
                b.push(&v).map_err(es)
            }
            SvcKind::V6(a) => {
                let v = Ipv6Hint::<Vec<u8>>::from_addrs(a.iter().map(|a| Ipv6Addr::from(*a))).map_err(es)?;
                b.push(&v).map_err(es)
            }
            SvcKind::DohPath(p) => b.push(&DohPath::from_octets(p.clone()).map_err(es)?).map_err(es),
            SvcKind::Ohttp => b.push(&Ohttp).map_err(es),
            SvcKind::TlsGroups(k) => {
                let v = TlsSupportedGroups::<Vec<u8>>::from_keys(k.iter().cloned()).map_err(es)?;
                b.push(&v).map_err(es)
            }
            SvcKind::Unknown(v) => {
                let v = UnknownSvcParam::new(SvcParamKey::from_int(self.key), v.clone()).map_err(es)?;
                b.push(&v).map_err(es)
            }
        }
    }
}

/// Parameter sets (push order as listed): every parameter type alone with
/// its boundary values, unknown keys, combinations in sorted / reversed /
/// middle-insert push order, duplicates (expected refusal), maximum size.
pub fn svc_param_sets(tier: Tier) -> Vec<Vec<SvcParamSpec>> {
    use SvcKind::*;
    let p = SvcParamSpec::new;
    let mut singles = vec![
        p(Mandatory(vec![1]), 0, "mandatory[alpn]"),
        p(Alpn(vec![b"h2".to_vec()]), 1, "alpn[h2]"),
        p(NoDefaultAlpn, 2, "no-default-alpn"),
        p(Port(443), 3, "port443"),
        p(V4(vec![[192, 0, 2, 1]]), 4, "ipv4hint1"),
        p(Ech(vec![1, 2, 3]), 5, "ech3"),
        p(V6(vec![[0x20; 16]]), 6, "ipv6hint1"),
        p(DohPath(b"/dns-query{?dns}".to_vec()), 7, "dohpath"),
        p(Ohttp, 8, "ohttp"),
        p(TlsGroups(vec![29, 23]), 9, "tlsgroups"),
        p(Unknown(vec![0xde, 0xad]), 65280, "key65280"),
    ];
    let mut sets: Vec<Vec<SvcParamSpec>> = vec![vec![]];
    if tier == Tier::Compact {
        sets.push(vec![singles[1].clone(), singles[3].clone()]);
        sets.push(vec![singles[3].clone(), singles[1].clone(), singles[4].clone()]);
        return sets;
    }
    singles.extend([
        p(Mandatory(vec![]), 0, "mandatory[]"),
        p(Mandatory(vec![1, 3, 65535]), 0, "mandatory[1,3,65535]"),
        p(Alpn(vec![]), 1, "alpn[]"),
        p(Alpn(vec![b"h3".to_vec(), fill_alpha(255)]), 1, "alpn[h3,255B]"),
        p(Alpn(vec![fill_alpha(256)]), 1, "alpn[256B]"), // refusal
        p(Alpn(vec![vec![]]), 1, "alpn[empty-id]"),      // refusal
        p(Port(0), 3, "port0"),
        p(Port(65535), 3, "port65535"),
        p(Port(256), 3, "port256"),
        p(V4(vec![]), 4, "ipv4hint0"),
        p(V4(vec![[0; 4], [255; 4], [1, 2, 3, 4]]), 4, "ipv4hint3"),
        p(Ech(vec![]), 5, "ech0"),
        p(Ech(fill(255, 20)), 5, "ech255"),
        p(V6(vec![]), 6, "ipv6hint0"),
        p(V6(vec![[0; 16], [255; 16]]), 6, "ipv6hint2"),
        p(DohPath(vec![]), 7, "dohpath0"),
        p(TlsGroups(vec![]), 9, "tlsgroups0"),
        p(TlsGroups(vec![0, 65535]), 9, "tlsgroups[0,65535]"),
        p(Unknown(vec![]), 10, "key10-empty"),
        p(Unknown(fill(255, 21)), 255, "key255"),
        p(Unknown(vec![7]), 256, "key256"),
        p(Unknown(vec![]), 65535, "key65535"),
        // a known key pushed as unknown data
        p(Unknown(vec![0x01, 0xbb]), 3, "key3-as-unknown"),
    ]);
    for s in &singles {
        sets.push(vec![s.clone()]);
    }
    let (alpn, port, v4, unk, ech, man) = (
        singles[1].clone(),
        singles[3].clone(),
        singles[4].clone(),
        singles[10].clone(),
        singles[5].clone(),
        singles[0].clone(),
    );
    // all 6 push orders of three parameters, all 2 of two
    let tri = [alpn.clone(), port.clone(), unk.clone()];
    for perm in [[0, 1, 2], [0, 2, 1], [1, 0, 2], [1, 2, 0], [2, 0, 1], [2, 1, 0]] {
        sets.push(perm.iter().map(|&k| tri[k].clone()).collect());
    }
    sets.push(vec![man.clone(), alpn.clone()]);
    sets.push(vec![alpn.clone(), man.clone()]);
    // duplicate key: expected refusal
    sets.push(vec![port.clone(), alpn.clone(), port.clone()]);
    // four parameters pushed from the middle outwards
    sets.push(vec![v4.clone(), port.clone(), ech.clone(), alpn.clone(), unk.clone()]);
    // every defined key at once, reverse order
    let mut all: Vec<SvcParamSpec> = singles[..11].to_vec();
    all.reverse();
    sets.push(all);
    if tier == Tier::Thorough {
        // maximal sizes: one value of 65535 octets (cannot fit any record),
        // and one that fills the RDATA exactly (priority 2 + root 1 + 4)
        sets.push(vec![p(Unknown(fill(65535, 22)), 65281, "key65281-65535B")]);
        sets.push(vec![p(Unknown(fill(65536, 22)), 65281, "key65281-65536B")]);
        sets.push(vec![p(Unknown(fill(65535 - 7, 23)), 65281, "key65281-fill-root")]);
        sets.push(vec![p(Unknown(fill(65535 - 6, 23)), 65281, "key65281-fill-root+1")]);
        sets.push(vec![p(Ech(fill(65535 - 7, 24)), 5, "ech-fill-root")]);
    }
    sets
}

/// Reference encoding of a parameter set: ascending key order.
pub fn svc_params_wire(set: &[SvcParamSpec]) -> Vec<u8> {
    let mut sorted: Vec<&SvcParamSpec> = set.iter().collect();
    sorted.sort_by_key(|p| p.key);
    let mut out = Vec::new();
    for p in sorted {
        out.extend_from_slice(&p.key.to_be_bytes());
        out.extend_from_slice(&(p.value.len() as u16).to_be_bytes());
        out.extend_from_slice(&p.value);
    }
    out
}

fn gen_svcb(m: &Menus, s: &mut Sink, https: bool) {
    let (prios, ns, sets) = (m.u16s(3), m.names(3), svc_param_sets(m.tier));
    prod(&[prios.len(), ns.len(), sets.len()], |i| {
        if !s.want() {
            return;
        }
        let set = &sets[i[2]];
        let mut r = Ref::new();
        let prio = r.u16("prio", prios[i[0]]);
        let target = r.name("target", &ns[i[1]]);
        for p in set {
            if p.value.len() > 65535 {
                r.unrepresentable = Some(format!("{} longer than 65535 octets", p.tag));
            }
            if let SvcKind::Alpn(ids) = &p.kind {
                if ids.iter().any(|i| i.len() > 255) {
                    r.unrepresentable = Some("alpn-id longer than 255 octets".into());
                }
            }
        }
        let mut keys: Vec<u16> = set.iter().map(|p| p.key).collect();
        keys.sort();
        if keys.windows(2).any(|w| w[0] == w[1]) {
            r.unrepresentable = Some("duplicate SvcParamKey".into());
        }
        r.lit(&svc_params_wire(set));
        r.note(format!("params=[{}]", set.iter().map(|p| p.tag.as_str()).collect::<Vec<_>>().join(";")));
        s.offer(r, || {
            let mut b = rdata::svcb::SvcParamsBuilder::<Vec<u8>>::empty();
            for p in set {
                p.push(&mut b)?;
            }
            let params: rdata::svcb::SvcParams<Vec<u8>> = b.freeze().map_err(es)?;
            if https {
                rdata::Https::new(prio, target, params).map(Rd::Https).map_err(es)
            } else {
                rdata::Svcb::new(prio, target, params).map(Rd::Svcb).map_err(es)
            }
        });
    });
}

//------------ EDNS options --------------------------------------------------

/// Option value type used by the generator.
pub type OptVal = domain::base::opt::AllOptData<Octs, Nm>;

/// One EDNS option: code, reference option data, library value.
#[derive(Clone)]
pub struct OptItem {
    pub tag: String,
    pub code: u16,
    /// reference OPTION-DATA (without code and length)
    pub data: Vec<u8>,
    /// the library value (None: the constructor refused, see `refused`)
    pub val: Option<OptVal>,
    pub refused: Option<String>,
    /// true if `data` longer than 65535 (no wire representation)
    pub unrepresentable: bool,
}

fn opt_item(tag: &str, code: u16, data: Vec<u8>, ctor: impl FnOnce() -> Result<OptVal, String>) -> OptItem {
    let (val, refused) = match guard(ctor) {
        Ok(Ok(v)) => (Some(v), None),
        Ok(Err(e)) => (None, Some(e)),
        Err(p) => (None, Some(format!("PANIC: {p}"))),
    };
    OptItem { tag: tag.to_string(), code, unrepresentable: data.len() > 65535, data, val, refused }
}

/// Reference encoding of a client-subnet option (RFC 7871 §6): the address
/// is truncated to the source prefix; prefixes above the address length
/// are clamped (the library's constructor documents the same clamping).
fn subnet_wire(src: u8, scope: u8, addr: &[u8]) -> Vec<u8> {
    let max = (addr.len() * 8) as u8;
    let (src, scope) = (src.min(max), scope.min(max));
    let nbytes = (src as usize).div_ceil(8);
    let mut a = addr[..nbytes].to_vec();
    if src % 8 != 0 {
        let last = a.len() - 1;
        a[last] &= 0xFFu8 << (8 - src % 8);
    }
    let mut out = vec![0, if addr.len() == 4 { 1 } else { 2 }, src, scope];
    out.extend(a);
    out
}

/// Every EDNS option type with boundary values.
pub fn opt_items(tier: Tier) -> Vec<OptItem> {
    use domain::base::iana::{ExtendedErrorCode, OptionCode};
    use domain::base::opt::*;
    use octseq::str::Str;
    let mut v = Vec::new();
    let compact = tier == Tier::Compact;
    // DAU / DHU / N3U (RFC 6975): lists of one-octet algorithm codes
    let alg_lists: Vec<Vec<u8>> = if compact {
        vec![vec![8, 13]]
    } else {
        vec![vec![], vec![8], vec![8, 13], vec![0, 1, 255], fill(255, 1), fill(256, 2)]
    };
    for l in &alg_lists {
        let l2 = l.clone();
        v.push(opt_item(&format!("dau{}", l.len()), 5, l.clone(), move || {
            Dau::<Octs>::from_sec_algs(l2.iter().map(|a| SecurityAlgorithm::from_int(*a))).map(OptVal::Dau).map_err(es)
        }));
        let l2 = l.clone();
        v.push(opt_item(&format!("dhu{}", l.len()), 6, l.clone(), move || {
            Dhu::<Octs>::from_sec_algs(l2.iter().map(|a| SecurityAlgorithm::from_int(*a))).map(OptVal::Dhu).map_err(es)
        }));
        let l2 = l.clone();
        v.push(opt_item(&format!("n3u{}", l.len()), 7, l.clone(), move || {
            N3u::<Octs>::from_sec_algs(l2.iter().map(|a| SecurityAlgorithm::from_int(*a))).map(OptVal::N3u).map_err(es)
        }));
        if !compact {
            let l2 = l.clone();
            v.push(opt_item(&format!("dau{}(from_octets)", l.len()), 5, l.clone(), move || {
                Dau::<Octs>::from_octets(l2).map(OptVal::Dau).map_err(es)
            }));
        }
    }
    // CHAIN
    for n in (Menus { tier }).names(1) {
        let nm = n.name();
        v.push(opt_item(&format!("chain:{}", n.tag), 13, n.wire(), move || Ok(OptVal::Chain(Chain::new(nm)))));
    }
    // COOKIE: client only, client + server of 8, 16, 32 octets
    let srv_lens: Vec<Option<usize>> = if compact { vec![None, Some(16)] } else { vec![None, Some(8), Some(9), Some(16), Some(31), Some(32), Some(7), Some(33)] };
    for sl in srv_lens {
        let client: [u8; 8] = [1, 2, 3, 4, 5, 6, 7, 0xff];
        let mut data = client.to_vec();
        let server = sl.map(|n| fill(n, 30));
        if let Some(s) = &server {
            data.extend_from_slice(s);
        }
        v.push(opt_item(&format!("cookie:{sl:?}"), 10, data, move || {
            Ok(OptVal::Cookie(Cookie::new(
                cookie::ClientCookie::from_octets(client),
                server.map(|s| cookie::ServerCookie::from_octets(&s)),
            )))
        }));
    }
    // EXPIRE
    let mut exps: Vec<Option<u32>> = vec![None, Some(1)];
    if !compact {
        exps.extend([Some(0), Some(0x8000_0000), Some(u32::MAX)]);
    }
    for e in exps {
        v.push(opt_item(&format!("expire:{e:?}"), 9, e.map(|e| e.to_be_bytes().to_vec()).unwrap_or_default(), move || {
            Ok(OptVal::Expire(Expire::new(e)))
        }));
    }
    // EXTENDED ERROR
    let texts: Vec<Option<String>> = if compact {
        vec![None, Some("bad".into())]
    } else {
        vec![None, Some(String::new()), Some("x".into()), Some("é\"\\ ;".into()), Some("t".repeat(255)), Some("u".repeat(65533)), Some("v".repeat(65534))]
    };
    let codes: Vec<u16> = if compact { vec![1] } else { vec![0, 1, 255, 256, 49152, 65535] };
    for c in &codes {
        for t in &texts {
            if t.as_ref().map(|t| t.len() > 300).unwrap_or(false) && *c != 1 {
                continue;
            }
            let mut data = c.to_be_bytes().to_vec();
            if let Some(t) = t {
                data.extend_from_slice(t.as_bytes());
            }
            let (c2, t2) = (*c, t.clone());
            v.push(opt_item(&format!("ede:{c}:{:?}", t.as_ref().map(|t| t.len())), 15, data, move || {
                ExtendedError::<Octs>::new(
                    ExtendedErrorCode::from_int(c2),
                    t2.map(|t| Str::from_utf8(t.into_bytes()).expect("utf8")),
                )
                .map(OptVal::ExtendedError)
                .map_err(es)
            }));
        }
    }
    // TCP KEEPALIVE
    let mut kas: Vec<Option<u16>> = vec![None, Some(100)];
    if !compact {
        kas.extend([Some(0), Some(1), Some(255), Some(256), Some(65535)]);
    }
    for k in kas {
        v.push(opt_item(&format!("keepalive:{k:?}"), 11, k.map(|k| k.to_be_bytes().to_vec()).unwrap_or_default(), move || {
            Ok(OptVal::TcpKeepalive(TcpKeepalive::new(k.map(Into::into))))
        }));
    }
    // KEY TAG: list of 16-bit tags
    let tag_lens: Vec<usize> = if compact { vec![2] } else { vec![0, 1, 2, 3, 4, 254, 65534, 65535, 65536] };
    for n in tag_lens {
        let d = fill(n, 31);
        let d2 = d.clone();
        v.push(opt_item(&format!("keytag:{n}B"), 14, d, move || KeyTag::from_octets(d2).map(OptVal::KeyTag).map_err(es)));
    }
    // NSID, PADDING, unknown codes: opaque octets
    let op_lens: Vec<usize> = if compact { vec![0, 3] } else { vec![0, 1, 255, 65535, 65536] };
    for n in &op_lens {
        let d = fill(*n, 32);
        let d2 = d.clone();
        v.push(opt_item(&format!("nsid:{n}B"), 3, d.clone(), move || Nsid::from_octets(d2).map(OptVal::Nsid).map_err(es)));
        let d2 = d.clone();
        v.push(opt_item(&format!("padding:{n}B"), 12, d.clone(), move || Padding::from_octets(d2).map(OptVal::Padding).map_err(es)));
        for code in if compact { vec![65001u16] } else { vec![0u16, 4, 16, 65001, 65535] } {
            let d2 = d.clone();
            v.push(opt_item(&format!("code{code}:{n}B"), code, d.clone(), move || {
                UnknownOptData::new(OptionCode::from_int(code), d2).map(OptVal::Other).map_err(es)
            }));
        }
    }
    // CLIENT SUBNET
    let a4 = [192u8, 0, 2, 0xff];
    let mut a6 = [0u8; 16];
    for (i, b) in a6.iter_mut().enumerate() {
        *b = 0xf0 | i as u8;
    }
    let p4: Vec<u8> = if compact { vec![24] } else { vec![0, 1, 7, 8, 9, 24, 31, 32, 33, 255] };
    let p6: Vec<u8> = if compact { vec![56] } else { vec![0, 1, 56, 64, 127, 128, 129, 255] };
    let scopes: Vec<u8> = if compact { vec![0] } else { vec![0, 1, 255] };
    for sc in &scopes {
        for p in &p4 {
            let (p, sc) = (*p, *sc);
            v.push(opt_item(&format!("subnet4:{p}/{sc}"), 8, subnet_wire(p, sc, &a4), move || {
                Ok(OptVal::ClientSubnet(ClientSubnet::new(p, sc, std::net::IpAddr::V4(Ipv4Addr::from(a4)))))
            }));
        }
        for p in &p6 {
            let (p, sc) = (*p, *sc);
            v.push(opt_item(&format!("subnet6:{p}/{sc}"), 8, subnet_wire(p, sc, &a6), move || {
                Ok(OptVal::ClientSubnet(ClientSubnet::new(p, sc, std::net::IpAddr::V6(Ipv6Addr::from(a6)))))
            }));
        }
    }
    v
}

/// Reference OPT RDATA of a list of options.
pub fn opt_wire(items: &[&OptItem]) -> Vec<u8> {
    let mut out = Vec::new();
    for it in items {
        out.extend_from_slice(&it.code.to_be_bytes());
        out.extend_from_slice(&(it.data.len() as u16).to_be_bytes());
        out.extend_from_slice(&it.data);
    }
    out
}

/// OPT record data: empty, every option alone, all small options together
/// (forward and reverse), and pairs that fill the RDATA to 65535 / 65536.
fn gen_opt(m: &Menus, s: &mut Sink) {
    use domain::base::opt::Opt;
    let items = opt_items(m.tier);
    let usable: Vec<&OptItem> = items.iter().filter(|i| i.val.is_some()).collect();
    let mut lists: Vec<Vec<&OptItem>> = vec![vec![]];
    for it in &usable {
        lists.push(vec![*it]);
    }
    let small: Vec<&OptItem> = usable.iter().cloned().filter(|i| i.data.len() <= 300).collect();
    lists.push(small.clone());
    let mut rev = small.clone();
    rev.reverse();
    lists.push(rev);
    if m.tier != Tier::Compact {
        // two options whose sum crosses the 65535 boundary
        let pad = |n: usize| usable.iter().cloned().find(|i| i.code == 12 && i.data.len() == n);
        if let (Some(big), Some(one), Some(zero)) = (pad(65535), pad(1), pad(0)) {
            lists.push(vec![zero, big]); // 4 + 65539
            lists.push(vec![one, one, one]);
            let _ = big;
        }
        // exactly 65535: 4+255 + 4+n  -> n = 65272
        let nsid255 = usable.iter().cloned().find(|i| i.code == 3 && i.data.len() == 255);
        if let Some(n255) = nsid255 {
            lists.push(vec![n255, n255]);
        }
    }
    for list in lists {
        if !s.want() {
            continue;
        }
        let mut r = Ref::new();
        r.note(format!("opts=[{}]", list.iter().map(|i| i.tag.as_str()).collect::<Vec<_>>().join(";")));
        r.lit(&opt_wire(&list));
        s.offer(r, || {
            let mut o = Opt::<Vec<u8>>::empty();
            for it in &list {
                o.push(it.val.as_ref().unwrap()).map_err(es)?;
            }
            Ok(Rd::Opt(o))
        });
    }
    // filler to exact sizes through Opt::from_octets / push of unknown data
    if m.tier != Tier::Compact {
        for total in [65535usize, 65536] {
            if !s.want() {
                continue;
            }
            let mut r = Ref::new();
            r.note(format!("single-unknown-option-filling-{total}"));
            let d = fill(total - 4, 40);
            r.lit(&[0xfd, 0xe9]);
            r.lit(&((total - 4) as u16).to_be_bytes());
            r.lit(&d);
            if total - 4 > 65535 {
                r.unrepresentable = Some("option longer than 65535".into());
            }
            s.offer(r, || {
                let mut o = Opt::<Vec<u8>>::empty();
                let u = domain::base::opt::UnknownOptData::new(domain::base::iana::OptionCode::from_int(0xfde9), d).map_err(es)?;
                o.push(&u).map_err(es)?;
                Ok(Rd::Opt(o))
            });
        }
    }
}

//------------ convenience API ------------------------------------------------

/// Statistics of a materialising call.
#[derive(Clone, Debug, Default)]
pub struct GenStats {
    pub generated: BTreeMap<&'static str, u64>,
    pub refused: BTreeMap<&'static str, u64>,
    pub anomalies: BTreeMap<&'static str, u64>,
}

/// All values of all types for the given tier, with their reference
/// encodings. Intended for `Tier::Compact` and `Tier::Quick`.
pub fn values_ex(tier: Tier) -> (Vec<Value>, GenStats) {
    let mut out = Vec::new();
    let mut st = GenStats::default();
    for g in generators() {
        g.run(tier, 0, 1, &mut |ev| match ev {
            Event::Value(v) => {
                *st.generated.entry(g.mnemonic).or_insert(0) += 1;
                out.push(v);
            }
            Event::Refused { .. } => *st.refused.entry(g.mnemonic).or_insert(0) += 1,
            _ => *st.anomalies.entry(g.mnemonic).or_insert(0) += 1,
        });
    }
    (out, st)
}

/// `(type mnemonic, value)` for every record type (including OPT and
/// unknown types). `tier_quick == false` materialises the thorough product
/// (large: prefer [`generators`]).
pub fn all_values(tier_quick: bool) -> Vec<(&'static str, Rd)> {
    values_ex(Tier::from_quick(tier_quick)).0.into_iter().map(|v| (v.mnemonic, v.data)).collect()
}

/// A small list (a few values per type, fields <= 255 octets).
pub fn compact_values() -> Vec<(&'static str, Rd)> {
    values_ex(Tier::Compact).0.into_iter().map(|v| (v.mnemonic, v.data)).collect()
}

/// The subset that may appear in zone files, as `ZoneRecordData`.
pub fn zone_values_tier(tier: Tier) -> Vec<(&'static str, ZRd)> {
    let mut out = Vec::new();
    for g in generators().into_iter().filter(|g| g.zone) {
        g.run(tier, 0, 1, &mut |ev| {
            if let Event::Value(v) = ev {
                let r: Result<ZRd, Rd> = v.data.into();
                if let Ok(z) = r {
                    out.push((g.mnemonic, z));
                }
            }
        });
    }
    out
}

pub fn zone_values(tier_quick: bool) -> Vec<(&'static str, ZRd)> {
    zone_values_tier(Tier::from_quick(tier_quick))
}
