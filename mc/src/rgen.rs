//! Shared record-data VALUE GENERATOR (owned by the C05 harness; reused by
//! C04 ordering/equality, C06 presentation round trip, C12 signing).
//! See DESIGN.md §3 "C05" for the menus.
//!
//! # What it produces
//!
//! For every record type the library implements (and for unknown types and
//! OPT) the generator enumerates the **full product of per-field boundary
//! menus** and, for every element of that product, offers
//!
//! * the library value built through the library's *public, safe*
//!   constructors ([`Rd`] = `AllRecordData<Vec<u8>, Name<Vec<u8>>>`), and
//! * an **independent reference encoding**: the uncompressed wire-format
//!   RDATA written field by field by this module from the RFC layouts
//!   (never by calling into `domain`), together with the byte spans of all
//!   embedded domain names.
//!
//! Constructor refusals (`LongRecordData`, `CharStrError`, ...) are expected
//! results: a refused candidate is counted, not generated.
//!
//! # API
//!
//! * [`all_values`]`(quick)` / [`zone_values`]`(quick)` — materialised lists
//!   `(mnemonic, value)`; meant for the *quick* menus (the thorough product
//!   holds ~10^6 values, some of 64 KiB: stream it instead).
//! * [`compact_values`]`()` — a small (a few values per type, no field
//!   above 255 octets) list for pair/triple enumeration (C04) and signing
//!   (C12).
//! * [`generators`]`()` + [`TypeGen::run`] — streaming, shardable
//!   enumeration delivering [`Event`]s (values with their reference
//!   encoding, plus constructor anomalies).
//! * [`opt_items`]`(tier)` — every EDNS option type with boundary values.
//! * [`names`]`()`, [`owners`]`()`, [`name_specs`]`()` — the name menu.
//!
//! Everything is deterministic: the n-th candidate of a type is always the
//! same value.

use crate::guard;
use domain::base::charstr::CharStr;
use domain::base::iana::{
    DigestAlgorithm, Nsec3HashAlgorithm, Rtype, SecurityAlgorithm,
};
use domain::base::name::Name;
use domain::base::rdata::UnknownRecordData;
use domain::base::{Serial, Ttl};
use domain::rdata::{self, AllRecordData, ZoneRecordData};
use std::collections::BTreeMap;
use std::net::{Ipv4Addr, Ipv6Addr};

/// Octets type of generated values.
pub type Octs = Vec<u8>;
/// Name type of generated values.
pub type Nm = Name<Vec<u8>>;
/// Any record data.
pub type Rd = AllRecordData<Octs, Nm>;
/// Record data allowed in zone files.
pub type ZRd = ZoneRecordData<Octs, Nm>;

/// Which menus to use.
#[derive(Clone, Copy, Debug, PartialEq, Eq)]
pub enum Tier {
    /// 1-3 values per field, nothing longer than 255 octets.
    Compact,
    /// Full menus for types with <= 4 fields, 2-3 values per field else.
    Quick,
    /// Full menus everywhere.
    Thorough,
}

impl Tier {
    pub fn from_quick(quick: bool) -> Tier {
        if quick {
            Tier::Quick
        } else {
            Tier::Thorough
        }
    }
}

//------------ names ---------------------------------------------------------

/// A domain name as a list of labels (without the root label).
#[derive(Clone, Debug, PartialEq, Eq)]
pub struct NameSpec {
    pub tag: &'static str,
    pub labels: Vec<Vec<u8>>,
}

impl NameSpec {
    /// Uncompressed wire form (independent of the library).
    pub fn wire(&self) -> Vec<u8> {
        crate::wire::to_wire(&self.labels)
    }
    /// The library value (`Name::from_octets` over the reference wire).
    pub fn name(&self) -> Nm {
        Name::from_octets(self.wire()).expect("menu name is valid")
    }
}

/// The name menu: root, `a.`, `A.b.`, and a 255-octet name with upper- and
/// lower-case labels (63 'A', 63 'b', 63 'C', 61 'd').
pub fn name_specs() -> Vec<NameSpec> {
    vec![
        NameSpec { tag: "root", labels: vec![] },
        NameSpec { tag: "a.", labels: vec![b"a".to_vec()] },
        NameSpec { tag: "A.b.", labels: vec![b"A".to_vec(), b"b".to_vec()] },
        NameSpec {
            tag: "max255",
            labels: vec![vec![b'A'; 63], vec![b'b'; 63], vec![b'C'; 63], vec![b'd'; 61]],
        },
    ]
}

/// The name menu as library values.
pub fn names() -> Vec<Nm> {
    name_specs().iter().map(|n| n.name()).collect()
}

/// Owner names for harnesses that need records: the name menu plus a
/// wildcard and a case twin.
pub fn owners() -> Vec<Nm> {
    let mut v = names();
    v.push(NameSpec { tag: "*.a.", labels: vec![b"*".to_vec(), b"a".to_vec()] }.name());
    v.push(NameSpec { tag: "a.B.", labels: vec![b"a".to_vec(), b"B".to_vec()] }.name());
    v
}

//------------ octets / menus -----------------------------------------------

/// Deterministic non-uniform fill so that shifted or truncated fields show.
pub fn fill(len: usize, salt: u8) -> Vec<u8> {
    (0..len)
        .map(|i| (i as u8).wrapping_mul(31).wrapping_add(salt).wrapping_add((i >> 8) as u8))
        .collect()
}

/// Fill with ASCII letters of both cases (character strings compare
/// case-insensitively in the library, the octets must still survive).
pub fn fill_alpha(len: usize) -> Vec<u8> {
    (0..len)
        .map(|i| if i % 2 == 0 { b'A' + (i % 26) as u8 } else { b'a' + (i % 26) as u8 })
        .collect()
}

/// Length choice for a variable-length octets field.
#[derive(Clone, Copy, Debug, PartialEq, Eq)]
pub enum Len {
    Fixed(usize),
    /// the largest length that keeps the RDATA at 65535 octets
    Max,
    /// one more than that: the constructor is expected to refuse
    MaxPlus1,
}

pub struct Menus {
    pub tier: Tier,
}

impl Menus {
    /// Quick tier: reduced menus only for types with more than 7 fields
    /// (RRSIG); compact: always.
    fn reduced(&self, nfields: usize) -> bool {
        match self.tier {
            Tier::Compact => true,
            Tier::Quick => nfields > 7,
            Tier::Thorough => false,
        }
    }
    /// Thorough tier: extended menus for types with at most 7 fields.
    fn extended(&self, nfields: usize) -> bool {
        self.tier == Tier::Thorough && nfields <= 7
    }
    pub fn u8s(&self, nfields: usize) -> Vec<u8> {
        if self.tier == Tier::Compact {
            vec![1]
        } else if self.reduced(nfields) {
            vec![0, 255]
        } else if self.extended(nfields) {
            vec![0, 1, 127, 128, 255]
        } else {
            vec![0, 1, 255]
        }
    }
    pub fn u16s(&self, nfields: usize) -> Vec<u16> {
        if self.tier == Tier::Compact {
            vec![1, 256]
        } else if self.reduced(nfields) {
            vec![0, 256, 65535]
        } else if self.extended(nfields) {
            vec![0, 1, 255, 256, 0x1234, 32768, 65535]
        } else {
            vec![0, 1, 255, 256, 65535]
        }
    }
    pub fn u32s(&self, nfields: usize) -> Vec<u32> {
        if self.tier == Tier::Compact {
            vec![1]
        } else if self.reduced(nfields) {
            vec![1, 0x8000_0000]
        } else if self.extended(nfields) {
            vec![0, 1, 0x0102_0304, 0x7FFF_FFFF, 0x8000_0000, 0xFFFF_FFFF]
        } else {
            vec![0, 1, 0x8000_0000, 0xFFFF_FFFF]
        }
    }
    pub fn names(&self, nfields: usize) -> Vec<NameSpec> {
        let mut all = name_specs();
        if self.tier == Tier::Compact {
            vec![all[1].clone(), all[2].clone()]
        } else if self.reduced(nfields) {
            vec![all[0].clone(), all[2].clone(), all[3].clone()]
        } else if self.extended(nfields) {
            all.push(NameSpec { tag: "*.a.", labels: vec![b"*".to_vec(), b"a".to_vec()] });
            all.push(NameSpec { tag: "X63.", labels: vec![vec![b'X'; 63]] });
            all.push(NameSpec {
                tag: "a.B.c\\.D.",
                labels: vec![b"a".to_vec(), b"B".to_vec(), b"c.".to_vec(), b"D\x00\xff".to_vec()],
            });
            all
        } else {
            all
        }
    }
    /// octets field menu: empty, 1, 255, the type's maximum, maximum+1
    pub fn lens(&self, nfields: usize) -> Vec<Len> {
        if self.tier == Tier::Compact {
            vec![Len::Fixed(0), Len::Fixed(3)]
        } else if self.reduced(nfields) {
            vec![Len::Fixed(0), Len::Fixed(255), Len::Max]
        } else {
            vec![Len::Fixed(0), Len::Fixed(1), Len::Fixed(255), Len::Max, Len::MaxPlus1]
        }
    }
    /// character-string menu: empty, mixed-case 2 octets, 255 octets.
    pub fn charstrs(&self, nfields: usize) -> Vec<Vec<u8>> {
        if self.tier == Tier::Compact {
            vec![b"Ab".to_vec()]
        } else if self.reduced(nfields) && self.tier == Tier::Quick && nfields > 5 {
            vec![vec![], fill_alpha(255)]
        } else {
            vec![vec![], b"Ab".to_vec(), fill_alpha(255)]
        }
    }
    /// type bitmap menu (lists of record types)
    pub fn bitmaps(&self) -> Vec<Vec<u16>> {
        if self.tier == Tier::Compact {
            vec![vec![1], vec![1, 47, 46]]
        } else {
            vec![
                vec![],
                vec![1],
                vec![1, 47, 46],
                vec![255],
                vec![256],
                vec![65535],
                vec![1, 257, 0x1234, 65280],
            ]
        }
    }
}

/// Reference encoding of an RFC 4034 §4.1.2 type bitmap.
pub fn bitmap_wire(types: &[u16]) -> Vec<u8> {
    let mut windows: BTreeMap<u8, [u8; 32]> = BTreeMap::new();
    for &t in types {
        let w = windows.entry((t >> 8) as u8).or_insert([0u8; 32]);
        let low = (t & 0xFF) as usize;
        w[low / 8] |= 0x80 >> (low % 8);
    }
    let mut out = Vec::new();
    for (n, w) in windows {
        let len = 32 - w.iter().rev().take_while(|b| **b == 0).count();
        out.push(n);
        out.push(len as u8);
        out.extend_from_slice(&w[..len]);
    }
    out
}

//------------ reference writer ---------------------------------------------

/// Field-by-field reference RDATA writer. Also collects the description of
/// the candidate and whether it is representable in wire format at all.
#[derive(Clone, Debug, Default)]
pub struct Ref {
    pub wire: Vec<u8>,
    pub names: Vec<(usize, usize)>,
    pub desc: Vec<String>,
    /// set when some field cannot be represented (over-long length field)
    pub unrepresentable: Option<String>,
}

impl Ref {
    pub fn new() -> Ref {
        Ref::default()
    }
    pub fn u8(&mut self, tag: &str, v: u8) -> u8 {
        self.wire.push(v);
        self.desc.push(format!("{tag}={v}"));
        v
    }
    pub fn u16(&mut self, tag: &str, v: u16) -> u16 {
        self.wire.extend_from_slice(&v.to_be_bytes());
        self.desc.push(format!("{tag}={v}"));
        v
    }
    pub fn u32(&mut self, tag: &str, v: u32) -> u32 {
        self.wire.extend_from_slice(&v.to_be_bytes());
        self.desc.push(format!("{tag}={v}"));
        v
    }
    pub fn u48(&mut self, tag: &str, v: u64) -> u64 {
        if v >> 48 != 0 {
            self.unrepresentable = Some(format!("{tag} exceeds 48 bits"));
        }
        self.wire.extend_from_slice(&v.to_be_bytes()[2..]);
        self.desc.push(format!("{tag}={v}"));
        v
    }
    /// raw octets, no length prefix
    pub fn raw(&mut self, tag: &str, b: &[u8]) -> Vec<u8> {
        self.wire.extend_from_slice(b);
        self.desc.push(format!("{tag}=[{}B]", b.len()));
        b.to_vec()
    }
    /// octets that are part of the encoding but not a field of their own
    pub fn lit(&mut self, b: &[u8]) {
        self.wire.extend_from_slice(b);
    }
    /// octets with a one-octet length prefix
    pub fn len8(&mut self, tag: &str, b: &[u8]) -> Vec<u8> {
        if b.len() > 255 {
            self.unrepresentable = Some(format!("{tag} longer than 255 octets"));
        }
        self.wire.push(b.len() as u8);
        self.wire.extend_from_slice(b);
        self.desc.push(format!("{tag}=<{}B>", b.len()));
        b.to_vec()
    }
    /// octets with a two-octet length prefix
    pub fn len16(&mut self, tag: &str, b: &[u8]) -> Vec<u8> {
        if b.len() > 65535 {
            self.unrepresentable = Some(format!("{tag} longer than 65535 octets"));
        }
        self.wire.extend_from_slice(&(b.len() as u16).to_be_bytes());
        self.wire.extend_from_slice(b);
        self.desc.push(format!("{tag}=<<{}B>>", b.len()));
        b.to_vec()
    }
    pub fn name(&mut self, tag: &str, n: &NameSpec) -> Nm {
        let w = n.wire();
        self.names.push((self.wire.len(), w.len()));
        self.wire.extend_from_slice(&w);
        self.desc.push(format!("{tag}={}", n.tag));
        n.name()
    }
    pub fn note(&mut self, s: String) {
        self.desc.push(s);
    }
    /// octets field whose length is a [`Len`] choice; `rest` is the number
    /// of RDATA octets contributed by everything else (including this
    /// field's own length prefix, if any).
    pub fn resolve(len: Len, rest: usize) -> usize {
        match len {
            Len::Fixed(n) => n,
            Len::Max => 65535usize.saturating_sub(rest),
            Len::MaxPlus1 => 65536usize.saturating_sub(rest),
        }
    }
}

//------------ events -------------------------------------------------------

/// One generated value with its independent reference encoding.
#[derive(Clone)]
pub struct Value {
    /// type mnemonic ("A", "RRSIG", "TYPE65280", ...)
    pub mnemonic: &'static str,
    /// numeric record type
    pub rtype: u16,
    /// candidate index within the type's enumeration (for replay)
    pub index: u64,
    /// the library value
    pub data: Rd,
    /// reference uncompressed wire-format RDATA
    pub wire: Vec<u8>,
    /// (offset, length) of every embedded domain name within `wire`
    pub names: Vec<(usize, usize)>,
    /// field choices, human readable
    pub desc: String,
}

/// What the enumeration of one candidate yields.
pub enum Event {
    /// The constructor accepted a wire-representable candidate.
    Value(Value),
    /// The constructor refused the candidate (expected for over-long ones).
    Refused { mnemonic: &'static str, index: u64, desc: String, error: String, representable: bool },
    /// The constructor accepted a candidate that has no wire representation
    /// (a length field would overflow, RDATA above 65535 octets).
    AcceptedUnrepresentable { mnemonic: &'static str, rtype: u16, index: u64, desc: String, why: String, data: Rd },
    /// The constructor panicked.
    CtorPanic { mnemonic: &'static str, index: u64, desc: String, msg: String, representable: bool },
}

/// Sink handed to the per-type generators.
pub struct Sink<'a> {
    mnemonic: &'static str,
    rtype: u16,
    shard: usize,
    nshards: usize,
    next: u64,
    cur: u64,
    f: &'a mut dyn FnMut(Event),
}

impl Sink<'_> {
    /// Advance to the next candidate; false if another shard owns it.
    pub fn want(&mut self) -> bool {
        self.cur = self.next;
        self.next += 1;
        (self.cur % self.nshards as u64) as usize == self.shard
    }
    /// Offer a candidate: `ctor` builds the library value.
    pub fn offer(&mut self, mut r: Ref, ctor: impl FnOnce() -> Result<Rd, String>) {
        if r.unrepresentable.is_none() && r.wire.len() > 65535 {
            r.unrepresentable = Some(format!("RDATA of {} octets", r.wire.len()));
        }
        let desc = format!("{}[{}]", self.mnemonic, r.desc.join(","));
        let ev = match guard(ctor) {
            Ok(Ok(data)) => match r.unrepresentable {
                None => Event::Value(Value {
                    mnemonic: self.mnemonic,
                    rtype: self.rtype,
                    index: self.cur,
                    data,
                    wire: r.wire,
                    names: r.names,
                    desc,
                }),
                Some(why) => Event::AcceptedUnrepresentable {
                    mnemonic: self.mnemonic,
                    rtype: self.rtype,
                    index: self.cur,
                    desc,
                    why,
                    data,
                },
            },
            Ok(Err(error)) => Event::Refused {
                mnemonic: self.mnemonic,
                index: self.cur,
                desc,
                error,
                representable: r.unrepresentable.is_none(),
            },
            Err(msg) => Event::CtorPanic {
                mnemonic: self.mnemonic,
                index: self.cur,
                desc,
                msg,
                representable: r.unrepresentable.is_none(),
            },
        };
        (self.f)(ev);
    }
}

/// The generator of one record type.
#[derive(Clone, Copy)]
pub struct TypeGen {
    pub mnemonic: &'static str,
    pub rtype: u16,
    /// allowed in zone files (member of `ZoneRecordData`)
    pub zone: bool,
    gen: fn(&Menus, &mut Sink),
}

impl TypeGen {
    /// Enumerate the candidates `i` of this type with `i % nshards == shard`
    /// (constructors of the others are not even called).
    pub fn run(&self, tier: Tier, shard: usize, nshards: usize, f: &mut dyn FnMut(Event)) -> u64 {
        let m = Menus { tier };
        let mut s = Sink {
            mnemonic: self.mnemonic,
            rtype: self.rtype,
            shard,
            nshards: nshards.max(1),
            next: 0,
            cur: 0,
            f,
        };
        (self.gen)(&m, &mut s);
        s.next
    }
}

fn es<E: std::fmt::Display>(e: E) -> String {
    e.to_string()
}

fn cs(b: &[u8]) -> Result<CharStr<Octs>, String> {
    CharStr::from_octets(b.to_vec()).map_err(|e| format!("CharStrError: {e}"))
}

/// Odometer over index vectors.
fn prod(sizes: &[usize], mut f: impl FnMut(&[usize])) {
    crate::product(sizes, |i| f(i));
}

include!("rgen_types.rs");
include!("rgen_opt.rs");

//------------ convenience API ------------------------------------------------

/// Statistics of a materialising call.
#[derive(Clone, Debug, Default)]
pub struct GenStats {
    pub generated: BTreeMap<&'static str, u64>,
    pub refused: BTreeMap<&'static str, u64>,
    pub anomalies: BTreeMap<&'static str, u64>,
}

/// All values of all types for the given tier, with their reference
/// encodings. Intended for `Tier::Compact` and `Tier::Quick`.
pub fn values_ex(tier: Tier) -> (Vec<Value>, GenStats) {
    let mut out = Vec::new();
    let mut st = GenStats::default();
    for g in generators() {
        g.run(tier, 0, 1, &mut |ev| match ev {
            Event::Value(v) => {
                *st.generated.entry(g.mnemonic).or_insert(0) += 1;
                out.push(v);
            }
            Event::Refused { .. } => *st.refused.entry(g.mnemonic).or_insert(0) += 1,
            _ => *st.anomalies.entry(g.mnemonic).or_insert(0) += 1,
        });
    }
    (out, st)
}

/// `(type mnemonic, value)` for every record type (including OPT and
/// unknown types). `tier_quick == false` materialises the thorough product
/// (large: prefer [`generators`]).
pub fn all_values(tier_quick: bool) -> Vec<(&'static str, Rd)> {
    values_ex(Tier::from_quick(tier_quick)).0.into_iter().map(|v| (v.mnemonic, v.data)).collect()
}

/// A small list (a few values per type, fields <= 255 octets).
pub fn compact_values() -> Vec<(&'static str, Rd)> {
    values_ex(Tier::Compact).0.into_iter().map(|v| (v.mnemonic, v.data)).collect()
}

/// The subset that may appear in zone files, as `ZoneRecordData`.
pub fn zone_values_tier(tier: Tier) -> Vec<(&'static str, ZRd)> {
    let mut out = Vec::new();
    for g in generators().into_iter().filter(|g| g.zone) {
        g.run(tier, 0, 1, &mut |ev| {
            if let Event::Value(v) = ev {
                let r: Result<ZRd, Rd> = v.data.into();
                if let Ok(z) = r {
                    out.push((g.mnemonic, z));
                }
            }
        });
    }
    out
}

pub fn zone_values(tier_quick: bool) -> Vec<(&'static str, ZRd)> {
    zone_values_tier(Tier::from_quick(tier_quick))
}
