//! Shared record-data value generator (owned by the C05 harness; used by
//! C04, C06 and C12 as well). See DESIGN.md §3 C05 for the menus.
