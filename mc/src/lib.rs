//! Shared machinery of the /verif model-checking harnesses.
//!
//! * `Ctx` — run context: tier, violation collection with known-finding
//!   matching, replay files, evidence writer, exit code.
//! * `guard` — catch_unwind wrapper returning the panic message.
//! * `Watchdog` — per-case wall-clock watchdog for hang detection.
//! * `par_cases` — parallel exhaustive enumeration over an index space.
//! * `envx` — deviation-bounded choice-sequence explorer.

use serde_json::{json, Value};
use std::collections::BTreeMap;
use std::panic::{catch_unwind, AssertUnwindSafe};
use std::sync::atomic::{AtomicU64, AtomicUsize, Ordering};
use std::sync::{Arc, Mutex};
use std::time::{Duration, Instant};

pub mod envx;
pub mod wire;
pub mod rgen;
pub mod zfix;

pub const VERIF_DIR: &str = "/verif";

#[derive(Clone, Copy, PartialEq, Eq, Debug)]
pub enum Tier {
    Quick,
    Thorough,
}

#[derive(Clone, Debug)]
pub struct Known {
    pub signature: String,
    pub what: String,
}

pub struct Ctx {
    pub id: String,
    pub tier: Tier,
    pub seed: i64,
    pub level: String,
    pub replay: Option<String>,
    start: Instant,
    known: Vec<Known>,
    inner: Mutex<Inner>,
}

#[derive(Default)]
struct Inner {
    /// signature -> (count, first replay path)
    violations: BTreeMap<String, (u64, String, String)>,
    known_hit: BTreeMap<String, (u64, String)>,
    notes: Vec<String>,
}

std::thread_local! {
    static LAST_PANIC: std::cell::RefCell<Option<String>> = const { std::cell::RefCell::new(None) };
    static GUARD_DEPTH: std::cell::Cell<u32> = const { std::cell::Cell::new(0) };
}

fn install_panic_hook() {
    std::panic::set_hook(Box::new(|info| {
        let msg = if let Some(s) = info.payload().downcast_ref::<&str>() {
            s.to_string()
        } else if let Some(s) = info.payload().downcast_ref::<String>() {
            s.clone()
        } else {
            "<non-string panic>".to_string()
        };
        let loc = info
            .location()
            .map(|l| format!("{}:{}", l.file(), l.line()))
            .unwrap_or_default();
        if GUARD_DEPTH.with(|d| d.get()) == 0 {
            // a panic of the harness itself, not of the subject
            eprintln!("MACHINERY: harness panic outside guard(): {msg} @ {loc}");
        }
        LAST_PANIC.with(|p| *p.borrow_mut() = Some(format!("{msg} @ {loc}")));
    }));
}

/// Run `f`, catching a panic and returning its message and location.
pub fn guard<T>(f: impl FnOnce() -> T) -> Result<T, String> {
    GUARD_DEPTH.with(|d| d.set(d.get() + 1));
    let r = catch_unwind(AssertUnwindSafe(f));
    GUARD_DEPTH.with(|d| d.set(d.get() - 1));
    match r {
        Ok(v) => Ok(v),
        Err(_) => Err(LAST_PANIC
            .with(|p| p.borrow_mut().take())
            .unwrap_or_else(|| "<panic>".into())),
    }
}

/// Strip line numbers from a panic location so a signature survives edits.
pub fn panic_class(msg: &str) -> String {
    // "message @ /repo/src/x.rs:123" -> "message @ src/x.rs"
    let (m, loc) = match msg.rsplit_once(" @ ") {
        Some((m, l)) => (m, l),
        None => (msg, ""),
    };
    let file = loc.rsplit_once(':').map(|x| x.0).unwrap_or(loc);
    let file = file.strip_prefix("/repo/").unwrap_or(file);
    // drop numbers in the message ("index 4 but len is 4" stays meaningful,
    // but long numbers vary) - keep as is, cut to 80 chars
    let m: String = m.chars().take(80).collect();
    format!("{m} @ {file}")
}

impl Ctx {
    pub fn new(id: &str, level: &str) -> Arc<Ctx> {
        install_panic_hook();
        let args: Vec<String> = std::env::args().collect();
        let mut tier = match std::env::var("VERIF_TIER").ok().as_deref() {
            Some("thorough") => Tier::Thorough,
            _ => Tier::Quick,
        };
        let mut replay = None;
        let mut i = 1;
        while i < args.len() {
            match args[i].as_str() {
                "--tier" => {
                    i += 1;
                    tier = if args.get(i).map(|s| s.as_str()) == Some("thorough") {
                        Tier::Thorough
                    } else {
                        Tier::Quick
                    };
                }
                "--replay" => {
                    i += 1;
                    replay = args.get(i).cloned();
                }
                _ => {}
            }
            i += 1;
        }
        let seed = std::env::var("VERIF_SEED")
            .ok()
            .and_then(|s| s.parse().ok())
            .unwrap_or(0);
        let mut known = Vec::new();
        let kf = format!("{VERIF_DIR}/known_findings.jsonl");
        if let Ok(text) = std::fs::read_to_string(&kf) {
            for line in text.lines() {
                let line = line.trim();
                if line.is_empty() || line.starts_with('#') {
                    continue;
                }
                let v: Value = match serde_json::from_str(line) {
                    Ok(v) => v,
                    Err(e) => {
                        eprintln!("MACHINERY: bad line in known_findings.jsonl: {e}");
                        std::process::exit(2);
                    }
                };
                // "fixed" entries suppress nothing.
                if v.get("fixed").is_some() {
                    continue;
                }
                if v["property"].as_str() == Some(id) {
                    known.push(Known {
                        signature: v["signature"].as_str().unwrap_or("").to_string(),
                        what: v["what"].as_str().unwrap_or("").to_string(),
                    });
                }
            }
        }
        Arc::new(Ctx {
            id: id.to_string(),
            tier,
            seed,
            level: level.to_string(),
            replay,
            start: Instant::now(),
            known,
            inner: Mutex::new(Inner::default()),
        })
    }

    pub fn quick(&self) -> bool {
        self.tier == Tier::Quick
    }

    pub fn is_known(&self, signature: &str) -> bool {
        self.known.iter().any(|k| k.signature == signature)
    }

    pub fn note(&self, s: impl Into<String>) {
        self.inner.lock().unwrap().notes.push(s.into());
    }

    /// Report a violation. `signature` is the violation *class* (used for
    /// known-finding matching and dedup); `replay` is the concrete case.
    /// Returns true if it is a listed known finding.
    pub fn violation(&self, signature: &str, what: &str, replay: Value) -> bool {
        let mut g = self.inner.lock().unwrap();
        if let Some(k) = self.known.iter().find(|k| k.signature == signature) {
            let e = g
                .known_hit
                .entry(signature.to_string())
                .or_insert((0, k.what.clone()));
            e.0 += 1;
            return true;
        }
        if let Some(e) = g.violations.get_mut(signature) {
            e.0 += 1;
            return false;
        }
        // first of its class: write a replay file
        let dir = format!("{VERIF_DIR}/replays/{}", self.id);
        let _ = std::fs::create_dir_all(&dir);
        let mut h: u64 = 0xcbf29ce484222325;
        for b in signature.bytes() {
            h ^= b as u64;
            h = h.wrapping_mul(0x100000001b3);
        }
        let path = format!("{dir}/{h:016x}.json");
        let body = json!({
            "property": self.id,
            "signature": signature,
            "what": what,
            "case": replay,
        });
        if self.replay.is_none() {
            let _ = std::fs::write(&path, serde_json::to_string_pretty(&body).unwrap());
        }
        g.violations
            .insert(signature.to_string(), (1, path, what.to_string()));
        false
    }

    pub fn violation_count(&self) -> usize {
        self.inner.lock().unwrap().violations.len()
    }

    /// Print verdict lines and exit without writing the evidence file (for
    /// a secondary engine whose coverage the driver merges).
    pub fn finish_quiet(&self) -> ! {
        let g = self.inner.lock().unwrap();
        for (sig, (n, what)) in g.known_hit.iter() {
            println!("KNOWN-FINDING: property={} {} [signature={} instances={}]", self.id, what, sig, n);
        }
        for (sig, (n, path, what)) in g.violations.iter() {
            println!("VIOLATION property={} replay={}", self.id, path);
            println!("  class: {sig} ({n} instances): {what}");
        }
        std::process::exit(if g.violations.is_empty() { 0 } else { 1 });
    }

    /// Write the evidence file, print verdict lines, and exit.
    pub fn finish(&self, mut coverage: Value, assumptions: &[&str]) -> ! {
        let g = self.inner.lock().unwrap();
        let wall = self.start.elapsed().as_secs_f64();
        if let Some(o) = coverage.as_object_mut() {
            if !g.notes.is_empty() {
                o.insert("notes".into(), json!(g.notes));
            }
            o.insert(
                "known_findings_hit".into(),
                json!(g
                    .known_hit
                    .iter()
                    .map(|(s, (n, _))| json!({"signature": s, "instances": n}))
                    .collect::<Vec<_>>()),
            );
            o.insert(
                "violation_classes".into(),
                json!(g
                    .violations
                    .iter()
                    .map(|(s, (n, p, w))| json!({"signature": s, "instances": n, "replay": p, "what": w}))
                    .collect::<Vec<_>>()),
            );
        }
        let ev = json!({
            "property_id": self.id,
            "tier": if self.tier == Tier::Quick { "quick" } else { "thorough" },
            "seed": self.seed,
            "level": self.level,
            "coverage": coverage,
            "assumptions": assumptions,
            "wall_s": (wall * 1000.0).round() / 1000.0,
            "violations": g.violations.len(),
        });
        if self.replay.is_none() {
            let dir = format!("{VERIF_DIR}/evidence");
            let _ = std::fs::create_dir_all(&dir);
            let path = format!("{dir}/{}.json", self.id);
            if let Err(e) = std::fs::write(&path, serde_json::to_string_pretty(&ev).unwrap()) {
                eprintln!("MACHINERY: cannot write evidence {path}: {e}");
                std::process::exit(2);
            }
        }
        for (sig, (n, what)) in g.known_hit.iter() {
            println!(
                "KNOWN-FINDING: property={} {} [signature={} instances={}]",
                self.id, what, sig, n
            );
        }
        for (sig, (n, path, what)) in g.violations.iter() {
            println!("VIOLATION property={} replay={}", self.id, path);
            println!("  class: {sig} ({n} instances): {what}");
        }
        let cov = &ev["coverage"];
        println!(
            "{} {}: {} violation class(es), {} known-finding class(es), wall {:.1}s; states={} transitions={} evaluations={} distinct_nontrivial={}",
            self.id,
            ev["tier"].as_str().unwrap(),
            g.violations.len(),
            g.known_hit.len(),
            wall,
            cov["states"],
            cov["transitions"],
            cov["evaluations"],
            cov["distinct_nontrivial"],
        );
        let code = if g.violations.is_empty() { 0 } else { 1 };
        std::process::exit(code);
    }
}

/// Hang watchdog: worker threads `enter(case description)` before a case
/// and `leave()` after it; if a case stays entered for longer than `limit`,
/// the watchdog reports a violation through `ctx` and terminates the
/// process with the evidence written (a hang cannot be unwound).
pub struct Watchdog {
    slots: Arc<Vec<Slot>>,
}

struct Slot {
    since_ms: AtomicU64, // 0 = idle
    desc: Mutex<Option<Value>>,
    /// kernel thread id of the worker that owns the slot (0 = unknown)
    tid: AtomicU64,
}

/// CPU time (user + system, in clock ticks) the kernel has charged to a thread of this process.
fn thread_cpu_ticks(tid: u64) -> Option<u64> {
    let st = std::fs::read_to_string(format!("/proc/self/task/{tid}/stat")).ok()?;
    let rest = &st[st.rfind(')')? + 1..];
    let f: Vec<&str> = rest.split_whitespace().collect();
    // after "pid (comm)": state is f[0]; utime and stime are fields 14 and 15 of the line = f[11], f[12]
    Some(f.get(11)?.parse::<u64>().ok()? + f.get(12)?.parse::<u64>().ok()?)
}

fn own_tid() -> u64 {
    std::fs::read_link("/proc/thread-self")
        .ok()
        .and_then(|p| p.file_name().and_then(|n| n.to_str().map(|s| s.to_string())))
        .and_then(|s| s.parse().ok())
        .unwrap_or(0)
}

static WD_NEXT: AtomicUsize = AtomicUsize::new(0);
std::thread_local! {
    static WD_SLOT: usize = WD_NEXT.fetch_add(1, Ordering::SeqCst);
    static WD_TID: u64 = own_tid();
}

impl Watchdog {
    pub fn start(
        ctx: Arc<Ctx>,
        limit: Duration,
        sig_of: impl Fn(&Value) -> String + Send + 'static,
    ) -> Watchdog {
        let slots: Arc<Vec<Slot>> = Arc::new(
            (0..256)
                .map(|_| Slot {
                    since_ms: AtomicU64::new(0),
                    desc: Mutex::new(None),
                    tid: AtomicU64::new(0),
                })
                .collect(),
        );
        let s2 = slots.clone();
        let t0 = Instant::now();
        // store t0 globally through closure
        let epoch = t0;
        // A case is a hang when it has been entered for longer than `limit` of wall-clock time AND
        // its thread has really been running on it: at least limit/4 of CPU time since the watchdog
        // first saw the case (clock ticks are 10 ms). On a starved machine (load far above the core
        // count) a case can sit entered for a long time without having run; that is not a hang.
        // A case that blocks without consuming CPU is declared a hang after 6 x limit.
        let mut seen: Vec<(u64, Option<u64>)> = vec![(0, None); 256];
        std::thread::spawn(move || loop {
            std::thread::sleep(Duration::from_millis(200));
            let now = epoch.elapsed().as_millis() as u64 + 1;
            for (si, s) in s2.iter().enumerate() {
                let since = s.since_ms.load(Ordering::SeqCst);
                if since == 0 {
                    seen[si] = (0, None);
                    continue;
                }
                let tid = s.tid.load(Ordering::SeqCst);
                if seen[si].0 != since {
                    seen[si] = (since, if tid != 0 { thread_cpu_ticks(tid) } else { None });
                }
                let wall = now.saturating_sub(since);
                let lim = limit.as_millis() as u64;
                let ran_ms = match (seen[si].1, if tid != 0 { thread_cpu_ticks(tid) } else { None }) {
                    (Some(a), Some(b)) => Some(b.saturating_sub(a) * 10),
                    _ => None,
                };
                let hang = wall > lim && match ran_ms {
                    Some(r) => r >= lim / 4 || wall > 6 * lim,
                    None => true,
                };
                if hang {
                    let d = s.desc.lock().unwrap().clone().unwrap_or(Value::Null);
                    let sig = sig_of(&d);
                    let known = ctx.violation(&sig, "case did not terminate within the watchdog limit (hang)", d);
                    if known {
                        // A known hang still cannot be continued past.
                        eprintln!("watchdog: known hang; stopping run");
                    }
                    ctx.finish(
                        json!({"evaluations": 1, "distinct_nontrivial": 0, "rule": "run aborted by hang watchdog", "samples": [], "exhaustive": false}),
                        &["run aborted by the hang watchdog; coverage incomplete"],
                    );
                }
            }
        });
        WD_EPOCH.get_or_init(|| t0);
        Watchdog { slots }
    }

    pub fn enter(&self, desc: impl FnOnce() -> Value) {
        let i = WD_SLOT.with(|s| *s) % self.slots.len();
        if self.slots[i].tid.load(Ordering::Relaxed) == 0 {
            self.slots[i].tid.store(WD_TID.with(|t| *t), Ordering::SeqCst);
        }
        *self.slots[i].desc.lock().unwrap() = Some(desc());
        let now = WD_EPOCH.get().unwrap().elapsed().as_millis() as u64 + 1;
        self.slots[i].since_ms.store(now, Ordering::SeqCst);
    }

    pub fn leave(&self) {
        let i = WD_SLOT.with(|s| *s) % self.slots.len();
        self.slots[i].since_ms.store(0, Ordering::SeqCst);
    }
}

static WD_EPOCH: std::sync::OnceLock<Instant> = std::sync::OnceLock::new();

/// Collects a bounded number of samples and a set of distinct keys.
pub struct Stats {
    pub evaluations: AtomicU64,
    pub nontrivial: AtomicU64,
    distinct: Vec<Mutex<std::collections::HashSet<u64>>>,
    samples: Mutex<Vec<Value>>,
    pub counters: Mutex<BTreeMap<String, u64>>,
}

pub fn fnv(bytes: &[u8]) -> u64 {
    let mut h: u64 = 0xcbf29ce484222325;
    for b in bytes {
        h ^= *b as u64;
        h = h.wrapping_mul(0x100000001b3);
    }
    h
}

impl Stats {
    pub fn new() -> Stats {
        Stats {
            evaluations: AtomicU64::new(0),
            nontrivial: AtomicU64::new(0),
            distinct: (0..256).map(|_| Mutex::new(Default::default())).collect(),
            samples: Mutex::new(Vec::new()),
            counters: Mutex::new(BTreeMap::new()),
        }
    }
    pub fn eval(&self) {
        self.evaluations.fetch_add(1, Ordering::Relaxed);
    }
    /// Record a distinct non-trivial case by a hash key of its content.
    pub fn distinct(&self, key: u64) {
        let shard = (key.wrapping_mul(0x9E3779B97F4A7C15) >> 56) as usize;
        self.distinct[shard].lock().unwrap().insert(key);
    }
    pub fn distinct_many(&self, keys: impl IntoIterator<Item = u64>) {
        for k in keys {
            self.distinct(k);
        }
    }
    pub fn distinct_count(&self) -> u64 {
        self.distinct.iter().map(|s| s.lock().unwrap().len() as u64).sum()
    }
    pub fn sample(&self, max: usize, v: impl FnOnce() -> Value) {
        let mut g = self.samples.lock().unwrap();
        if g.len() < max {
            g.push(v());
        }
    }
    pub fn samples(&self) -> Vec<Value> {
        self.samples.lock().unwrap().clone()
    }
    pub fn count(&self, k: &str) {
        *self.counters.lock().unwrap().entry(k.to_string()).or_insert(0) += 1;
    }
    pub fn count_n(&self, k: &str, n: u64) {
        *self.counters.lock().unwrap().entry(k.to_string()).or_insert(0) += n;
    }
    pub fn merge_counts(&self, m: &BTreeMap<String, u64>) {
        let mut g = self.counters.lock().unwrap();
        for (k, v) in m {
            *g.entry(k.clone()).or_insert(0) += *v;
        }
    }
    pub fn counters_json(&self) -> Value {
        json!(*self.counters.lock().unwrap())
    }
    pub fn evals(&self) -> u64 {
        self.evaluations.load(Ordering::Relaxed)
    }
}

/// Hex helper for replay files.
pub fn hex(b: &[u8]) -> String {
    let mut s = String::with_capacity(b.len() * 2);
    for x in b {
        s.push_str(&format!("{x:02x}"));
    }
    s
}

pub fn unhex(s: &str) -> Vec<u8> {
    (0..s.len() / 2)
        .map(|i| u8::from_str_radix(&s[2 * i..2 * i + 2], 16).unwrap())
        .collect()
}

/// Odometer over a product of menu sizes: calls `f` with every index vector.
pub fn product(sizes: &[usize], mut f: impl FnMut(&[usize])) {
    if sizes.iter().any(|&s| s == 0) {
        return;
    }
    let mut idx = vec![0usize; sizes.len()];
    loop {
        f(&idx);
        let mut i = sizes.len();
        loop {
            if i == 0 {
                return;
            }
            i -= 1;
            idx[i] += 1;
            if idx[i] < sizes[i] {
                break;
            }
            idx[i] = 0;
        }
    }
}

/// All strings of length exactly `n` over `alphabet` with index `k`
/// (k in 0..alphabet.len()^n) -- decode index into a string.
pub fn nth_string<T: Clone>(alphabet: &[T], n: usize, mut k: u64, out: &mut Vec<T>) {
    out.clear();
    let a = alphabet.len() as u64;
    for _ in 0..n {
        out.push(alphabet[(k % a) as usize].clone());
        k /= a;
    }
}

pub fn pow(a: usize, n: usize) -> u64 {
    (a as u64).pow(n as u32)
}
