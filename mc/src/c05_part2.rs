//------------ EDNS options ---------------------------------------------------------

fn opt_variant<O, N>(o: &AllOptData<O, N>) -> &'static str {
    match o {
        AllOptData::Dau(_) => "Dau",
        AllOptData::Dhu(_) => "Dhu",
        AllOptData::N3u(_) => "N3u",
        AllOptData::Chain(_) => "Chain",
        AllOptData::Cookie(_) => "Cookie",
        AllOptData::Expire(_) => "Expire",
        AllOptData::ExtendedError(_) => "ExtendedError",
        AllOptData::TcpKeepalive(_) => "TcpKeepalive",
        AllOptData::KeyTag(_) => "KeyTag",
        AllOptData::Nsid(_) => "Nsid",
        AllOptData::Padding(_) => "Padding",
        AllOptData::ClientSubnet(_) => "ClientSubnet",
        AllOptData::Other(_) => "Other",
        _ => "?",
    }
}

fn compose_option_vec<D: ComposeOptData>(d: &D) -> Result<(u16, Vec<u8>), String> {
    guard(|| {
        let mut t = Vec::new();
        let l = d.compose_len();
        d.compose_option(&mut t).map(|_| (l, t)).map_err(|_| "append error".to_string())
    })
    .and_then(|r| r)
}

/// Read all options of an Opt back through AllOptData; returns
/// (variant, code, recomposed data) per option.
fn opt_value_eq<O: AsRef<[u8]>, N: domain::base::name::ToName>(p: &AllOptData<O, N>, v: &rgen::OptVal) -> bool {
    use AllOptData as A;
    match (p, v) {
        (A::Dau(a), A::Dau(b)) => a == b,
        (A::Dhu(a), A::Dhu(b)) => a == b,
        (A::N3u(a), A::N3u(b)) => a == b,
        (A::Chain(a), A::Chain(b)) => a == b,
        (A::Cookie(a), A::Cookie(b)) => a == b,
        (A::Expire(a), A::Expire(b)) => a == b,
        (A::ExtendedError(a), A::ExtendedError(b)) => a == b && b == a,
        (A::TcpKeepalive(a), A::TcpKeepalive(b)) => a == b,
        (A::KeyTag(a), A::KeyTag(b)) => a.as_slice() == b.as_slice(),
        (A::Nsid(a), A::Nsid(b)) => a.as_slice() == b.as_slice(),
        (A::Padding(a), A::Padding(b)) => a.as_slice() == b.as_slice(),
        (A::ClientSubnet(a), A::ClientSubnet(b)) => a == b,
        (A::Other(a), A::Other(b)) => a.code() == b.code() && a.as_slice() == b.as_slice(),
        _ => false,
    }
}

fn read_options<O: octseq::Octets>(opt: &Opt<O>, orig: &rgen::OptVal) -> Result<Result<Vec<(&'static str, u16, Vec<u8>, bool)>, String>, String> {
    guard(|| {
        let mut out = Vec::new();
        for item in opt.iter::<AllOptData<_, _>>().take(100_000) {
            let item = item.map_err(|e| e.to_string())?;
            let mut t = Vec::new();
            item.compose_option(&mut t).map_err(|_| "append".to_string())?;
            if item.compose_len() as usize != t.len() {
                return Err(format!("compose_len {} but {} octets written on re-compose", item.compose_len(), t.len()));
            }
            let eq = opt_value_eq(&item, orig);
            out.push((opt_variant(&item), item.code().to_int(), t, eq));
        }
        Ok(out)
    })
}

fn check_options(env: &Env, lc: &mut Local) {
    let items = rgen::opt_items(env.tier);
    for (idx, it) in items.iter().enumerate() {
        let case = || json!({"kind": "option", "tier": tier_name(env.tier), "index": idx, "tag": it.tag, "code": it.code, "reference_data_len": it.data.len(), "reference_data_head": hex(&it.data[..it.data.len().min(64)])});
        let cls: String = it.tag.split(':').next().unwrap_or("").trim_end_matches(char::is_numeric).to_string();
        let cls = if cls.starts_with("code") { "unknown".to_string() } else { cls.trim_end_matches("(from_octets)").trim_end_matches(char::is_numeric).to_string() };
        lc.inc(format!("OPTION-{cls}:candidates"));
        let val = match &it.val {
            None => {
                let e = it.refused.clone().unwrap_or_default();
                lc.inc(format!("OPTION-{cls}:refused"));
                if e.starts_with("PANIC") {
                    lc.inc(format!("OPTION-{cls}:refused-by-documented-panic"));
                }
                continue;
            }
            Some(v) => v,
        };
        lc.ev();
        if it.unrepresentable {
            env.viol(format!("C05|OPT|option-{cls}|constructor|accepted-should-reject|data>65535"), format!("option {} accepted with {} octets of data", it.tag, it.data.len()), case());
            continue;
        }
        lc.inc(format!("OPTION-{cls}:generated"));
        // a. compose == reference
        let (l, d) = match compose_option_vec(val) {
            Ok(x) => x,
            Err(e) => {
                env.viol(format!("C05|OPT|option-{cls}|compose_option|panic|{}", panic_class(&e)), format!("{}: {e}", it.tag), case());
                continue;
            }
        };
        if d != it.data {
            env.viol(format!("C05|OPT|option-{cls}|compose_option|differs-from-rfc-reference-encoding"), format!("{}: {}", it.tag, first_diff(&d, &it.data)), case());
            continue;
        }
        if l as usize != d.len() {
            env.viol(format!("C05|OPT|option-{cls}|compose_len|advertised!=written"), format!("{}: compose_len {l}, wrote {}", it.tag, d.len()), case());
            continue;
        }
        let orig_variant = opt_variant(val);
        let expect_one = |got: &Result<Result<Vec<(&'static str, u16, Vec<u8>, bool)>, String>, String>, via: &str| -> bool {
            match got {
                Err(e) => {
                    env.viol(format!("C05|OPT|option-{cls}|read-back|panic|{}", panic_class(e)), format!("[{via}] {}: {e}", it.tag), case());
                    false
                }
                Ok(Err(e)) => {
                    env.viol(format!("C05|OPT|option-{cls}|parse(compose(v))|rejected|{}", err_class(e)), format!("[{via}] the option parser rejects what compose_option wrote for the constructor-accepted {}: {e}", it.tag), case());
                    false
                }
                Ok(Ok(list)) => {
                    if list.len() != 1 {
                        env.viol(format!("C05|OPT|option-{cls}|read-back|count!=1"), format!("[{via}] {}: {} options read back", it.tag, list.len()), case());
                        false
                    } else if list[0].0 != orig_variant || list[0].1 != it.code {
                        env.viol(format!("C05|OPT|option-{cls}|read-back|variant-changed"), format!("[{via}] {}: pushed {orig_variant}/{} read {}/{}", it.tag, it.code, list[0].0, list[0].1), case());
                        false
                    } else if list[0].2 != it.data {
                        env.viol(format!("C05|OPT|option-{cls}|parse(compose(v))|not-equal"), format!("[{via}] {}: read-back option re-composes differently: {}", it.tag, first_diff(&list[0].2, &it.data)), case());
                        false
                    } else if !list[0].3 {
                        env.viol(format!("C05|OPT|option-{cls}|parse(compose(v))|not-equal-by-library-eq"), format!("[{via}] {}: the option read back is not equal to the pushed one although it re-composes identically", it.tag), case());
                        false
                    } else {
                        true
                    }
                }
            }
        };
        // b. Opt::push + iter
        if 4 + it.data.len() <= 65535 {
            lc.ev();
            let built = guard(|| {
                let mut o = Opt::<Vec<u8>>::empty();
                o.push(val).map(|_| o).map_err(|e| e.to_string())
            });
            match built {
                Err(e) => env.viol(format!("C05|OPT|option-{cls}|Opt::push|panic|{}", panic_class(&e)), format!("{}: {e}", it.tag), case()),
                Ok(Err(e)) => env.viol(format!("C05|OPT|option-{cls}|Opt::push|refused"), format!("{}: {e}", it.tag), case()),
                Ok(Ok(o)) => {
                    let mut expect = it.code.to_be_bytes().to_vec();
                    expect.extend_from_slice(&(it.data.len() as u16).to_be_bytes());
                    expect.extend_from_slice(&it.data);
                    let c = compose_vec(&o).unwrap_or_default();
                    if c != expect {
                        env.viol(format!("C05|OPT|option-{cls}|Opt::push|octets-differ-from-reference"), format!("{}: {}", it.tag, first_diff(&c, &expect)), case());
                    } else if expect_one(&read_options(&o, val), "Opt::push") {
                        // also through the stand-alone record data parser
                        match parse_alone(41, &c) {
                            Ok(Ok((AllRecordData::Opt(p), 0))) => {
                                if expect_one(&read_options(&p, val), "parse_any_rdata") {
                                    lc.inc(format!("OPTION-{cls}:roundtripped"));
                                    let mut key = vec![0xFF, 41];
                                    key.extend_from_slice(&c);
                                    lc.distinct.push(fnv(&key));
                                }
                            }
                            Ok(Ok(_)) => env.viol(format!("C05|OPT|option-{cls}|parse_any_rdata|not-opt-or-octets-left"), it.tag.clone(), case()),
                            Ok(Err(e)) => env.viol(format!("C05|OPT|option-{cls}|parse_any_rdata|rejected|{}", err_class(&e)), format!("{}: {e}", it.tag), case()),
                            Err(e) => env.viol(format!("C05|OPT|option-{cls}|parse_any_rdata|panic|{}", panic_class(&e)), format!("{}: {e}", it.tag), case()),
                        }
                    }
                }
            }
        }
        // c. OptBuilder inside a message
        if 12 + 11 + 4 + it.data.len() <= 65535 {
            lc.ev();
            let built = guard(|| {
                let mut a = MessageBuilder::new_vec().additional();
                a.opt(|o| o.push(val)).map(|_| a.finish()).map_err(|e| e.to_string())
            });
            match built {
                Err(e) => env.viol(format!("C05|OPT|option-{cls}|OptBuilder|panic|{}", panic_class(&e)), format!("{}: {e}", it.tag), case()),
                Ok(Err(e)) => env.viol(format!("C05|OPT|option-{cls}|OptBuilder|refused"), format!("{}: {e}", it.tag), case()),
                Ok(Ok(msg)) => {
                    let ok = match w::read_message(&msg) {
                        Ok(raw) if raw.end == msg.len() && raw.sections[2].len() == 1 && raw.sections[2][0].rtype == 41 => {
                            let rd = &raw.sections[2][0].rdata;
                            rd.len() == 4 + it.data.len() && rd[..2] == it.code.to_be_bytes() && rd[2..4] == (it.data.len() as u16).to_be_bytes() && rd[4..] == it.data[..]
                        }
                        _ => false,
                    };
                    if !ok {
                        env.viol(format!("C05|OPT|option-{cls}|OptBuilder|message-differs-from-reference"), format!("{}: message {}", it.tag, hex(&msg[..msg.len().min(80)])), case());
                    } else {
                        let got = guard(|| -> Result<Vec<(&'static str, u16, Vec<u8>, bool)>, String> {
                            let m = Message::from_octets(msg.as_slice()).map_err(|e| e.to_string())?;
                            let rec = m.opt().ok_or("Message::opt() is None")?;
                            read_options(rec.opt(), val).and_then(|r| r)
                        });
                        if expect_one(&got, "OptBuilder+Message::opt") {
                            lc.inc(format!("OPTION-{cls}:message-roundtrips"));
                        }
                    }
                }
            }
        }
    }
}

//------------ byte grammar ----------------------------------------------------------

#[derive(Clone, Copy, Debug)]
enum F {
    U8,
    U16,
    U32,
    U48,
    Name,
    /// octets with one-octet length
    L8,
    /// octets with two-octet length
    L16,
    /// rest of the RDATA, opaque
    Rest,
    Bitmap,
    A4,
    A6,
    Lit(&'static [u8]),
    SvcParams,
    Options,
    /// nothing or one garbage octet
    Trail,
}

const QNAME_POS: usize = 12;
const OWNER_POS: usize = 19;

fn cat(parts: &[&[u8]]) -> Vec<u8> {
    parts.iter().flat_map(|p| p.iter().cloned()).collect()
}

fn variants(f: F, full: bool) -> Vec<Vec<u8>> {
    let ptr = |t: usize| vec![0xC0 | (t >> 8) as u8, t as u8];
    match f {
        F::U8 => vec![vec![0], vec![2]],
        F::U16 => vec![vec![0, 1], vec![255, 255]],
        F::U32 => vec![vec![0, 0, 0, 1], vec![0x80, 0, 0, 0]],
        F::U48 => vec![vec![0, 0, 0, 0, 0, 1]],
        F::Name => {
            let mut v = vec![vec![1, b'b', 0], ptr(QNAME_POS), vec![0], vec![1, b'B', 0], ptr(OWNER_POS)];
            if full {
                v.extend([vec![1], vec![0xC0, 0xFF], vec![2, b'x', b'y', 0xC0, QNAME_POS as u8], vec![0x40, 0]]);
            } else {
                v.push(vec![1]);
            }
            v
        }
        F::L8 => {
            let mut v = vec![vec![0], vec![2, b'A', b'b'], vec![3, b'A', b'b'], vec![1, b'A', b'b']];
            if full {
                v.push(cat(&[&[255], &[b'z'; 255]]));
            }
            v
        }
        F::L16 => vec![vec![0, 0], vec![0, 2, 7, 7], vec![0, 3, 7, 7], vec![0, 1, 7, 7]],
        F::Rest => vec![vec![], vec![7], vec![1, 2, 3], vec![9; 12]],
        F::Bitmap => vec![
            vec![],
            vec![0, 1, 0x40],
            vec![0, 1, 0x40, 1, 2, 0, 1],
            vec![0, 0],
            vec![0, 2, 0x40],
            vec![0, 1, 0x40, 0, 1, 0x40],
            vec![1, 1, 0x40, 0, 1, 0x40],
            cat(&[&[0, 33], &[1; 33]]),
            cat(&[&[255, 32], &[0xff; 32]]),
            vec![0, 1, 0],
            vec![0],
        ],
        F::A4 => vec![vec![192, 0, 2, 1]],
        F::A6 => vec![vec![0x20; 16]],
        F::Lit(b) => vec![b.to_vec()],
        F::SvcParams => vec![
            vec![],
            vec![0, 1, 0, 3, 2, b'h', b'2'],
            vec![0, 3, 0, 2, 1, 187],
            vec![0, 1, 0, 3, 2, b'h', b'2', 0, 3, 0, 2, 1, 187],
            vec![0, 3, 0, 2, 1, 187, 0, 1, 0, 3, 2, b'h', b'2'],
            vec![0, 1, 0, 3, 2, b'h', b'2', 0, 1, 0, 3, 2, b'h', b'2'],
            vec![0, 1, 0, 9, 2, b'h'],
            vec![0, 1, 0, 3, 5, b'h', b'2'],
            vec![0, 1, 0, 1, 0],
            vec![0, 0, 0, 2, 0, 1, 0, 1, 0, 3, 2, b'h', b'2'],
            vec![0, 0, 0, 3, 0, 1, 0],
            vec![0, 0, 0, 0],
            vec![0, 2, 0, 0],
            vec![0, 2, 0, 1, 1],
            vec![0, 3, 0, 1, 1],
            vec![0, 3, 0, 3, 1, 2, 3],
            vec![0, 4, 0, 4, 1, 2, 3, 4],
            vec![0, 4, 0, 5, 1, 2, 3, 4, 5],
            vec![0, 4, 0, 0],
            vec![0, 5, 0, 0],
            vec![0, 5, 0, 2, 1, 2],
            cat(&[&[0, 6, 0, 16], &[3; 16]]),
            vec![0, 6, 0, 4, 1, 2, 3, 4],
            vec![0, 7, 0, 1, b'/'],
            vec![0, 8, 0, 0],
            vec![0, 8, 0, 1, 1],
            vec![0, 9, 0, 2, 0, 29],
            vec![0, 9, 0, 3, 0, 29, 0],
            vec![0, 1],
            vec![0, 1, 0],
            vec![0xff, 0xff, 0, 0],
            vec![0xff, 0xff, 0, 1, 9],
            vec![0xff, 0, 0, 0, 0xff, 0xff, 0, 0],
        ],
        F::Options => vec![
            vec![],
            vec![0, 3, 0, 0],
            vec![0, 3, 0, 2, b'n', b's'],
            vec![0, 3, 0, 9, 1],
            vec![0, 3, 0],
            vec![0, 5, 0, 0],
            vec![0, 5, 0, 1, 8],
            vec![0, 5, 0, 2, 8, 13],
            vec![0, 6, 0, 1, 2],
            vec![0, 7, 0, 3, 1, 2, 3],
            vec![0, 8, 0, 4, 0, 1, 0, 0],
            vec![0, 8, 0, 7, 0, 1, 24, 0, 192, 0, 2],
            vec![0, 8, 0, 7, 0, 1, 23, 0, 192, 0, 3],
            vec![0, 8, 0, 8, 0, 1, 24, 0, 192, 0, 2, 0],
            vec![0, 8, 0, 6, 0, 1, 24, 0, 192, 0],
            vec![0, 8, 0, 4, 0, 3, 0, 0],
            vec![0, 8, 0, 5, 0, 2, 8, 0, 0x20],
            vec![0, 8, 0, 3, 0, 1, 0],
            vec![0, 9, 0, 0],
            vec![0, 9, 0, 4, 0, 0, 0, 1],
            vec![0, 9, 0, 3, 0, 0, 0],
            vec![0, 9, 0, 5, 0, 0, 0, 0, 0],
            vec![0, 10, 0, 8, 1, 2, 3, 4, 5, 6, 7, 8],
            vec![0, 10, 0, 7, 1, 2, 3, 4, 5, 6, 7],
            cat(&[&[0, 10, 0, 16], &[5; 16]]),
            cat(&[&[0, 10, 0, 15], &[5; 15]]),
            cat(&[&[0, 10, 0, 40], &[5; 40]]),
            cat(&[&[0, 10, 0, 41], &[5; 41]]),
            vec![0, 11, 0, 0],
            vec![0, 11, 0, 2, 0, 1],
            vec![0, 11, 0, 1, 0],
            vec![0, 11, 0, 3, 0, 1, 0],
            vec![0, 12, 0, 0],
            vec![0, 12, 0, 3, 0, 0, 0],
            vec![0, 13, 0, 1, 0],
            vec![0, 13, 0, 3, 1, b'a', 0],
            vec![0, 13, 0, 2, 1, b'a'],
            vec![0, 13, 0, 2, 0xC0, 12],
            vec![0, 13, 0, 4, 1, b'a', 0, 0],
            vec![0, 14, 0, 0],
            vec![0, 14, 0, 2, 0, 1],
            vec![0, 14, 0, 3, 0, 1, 0],
            vec![0, 15, 0, 2, 0, 1],
            vec![0, 15, 0, 1, 0],
            vec![0, 15, 0, 4, 0, 1, b'o', b'k'],
            vec![0, 15, 0, 4, 0, 1, 0xff, 0xfe],
            vec![0, 3, 0, 1, 1, 0, 12, 0, 1, 0],
            vec![0xff, 0xff, 0, 0],
            vec![0xff, 0xff, 0, 2, 1, 2],
        ],
        F::Trail => vec![vec![], vec![0xEE]],
    }
}

/// The RDATA grammars: (type, field list). Several grammars per type where
/// the layout depends on a discriminator (IPSECKEY gateway type).
fn grammars() -> Vec<(u16, Vec<F>)> {
    use F::*;
    let mut g: Vec<(u16, Vec<F>)> = vec![
        (1, vec![A4, Trail]),
        (1, vec![Lit(&[1, 2, 3])]),
        (28, vec![A6, Trail]),
        (28, vec![Lit(&[0; 15])]),
        (6, vec![Name, Name, U32, U32, U32, U32, U32, Trail]),
        (6, vec![Name, Name, U32, U32, U32, U32, Lit(&[0, 0, 0])]),
        (15, vec![U16, Name, Trail]),
        (15, vec![Lit(&[0])]),
        (14, vec![Name, Name, Trail]),
        (17, vec![Name, Name, Trail]),
        (16, vec![L8, L8, Trail]),
        (16, vec![]),
        (13, vec![L8, L8, Trail]),
        (10, vec![Rest]),
        (33, vec![U16, U16, U16, Name, Trail]),
        (35, vec![U16, U16, L8, L8, L8, Name, Trail]),
        (257, vec![U8, L8, Rest]),
        (257, vec![U8, Lit(&[3, b'a', b'-', b'b']), Rest]),
        (43, vec![U16, U8, U8, Rest]),
        (59, vec![U16, U8, U8, Rest]),
        (48, vec![U16, U8, U8, Rest]),
        (60, vec![U16, U8, U8, Rest]),
        (43, vec![Lit(&[0, 1, 8])]),
        (48, vec![Lit(&[1, 1, 3])]),
        (59, vec![Lit(&[0, 1, 8])]),
        (60, vec![Lit(&[1, 1, 3])]),
        (46, vec![U16, U8, U8, U32, U32, U32, U16, Name, Rest]),
        (46, vec![Lit(&[0; 17])]),
        (47, vec![Name, Bitmap]),
        (50, vec![U8, U8, U16, L8, L8, Bitmap]),
        (51, vec![U8, U8, U16, L8, Trail]),
        (64, vec![U16, Name, SvcParams]),
        (65, vec![U16, Name, SvcParams]),
        (52, vec![U8, U8, U8, Rest]),
        (52, vec![Lit(&[3, 1])]),
        (44, vec![U8, U8, Rest]),
        (44, vec![Lit(&[1])]),
        (45, vec![U8, Lit(&[0]), U8, Rest]),
        (45, vec![U8, Lit(&[1]), U8, A4, Rest]),
        (45, vec![U8, Lit(&[2]), U8, A6, Rest]),
        (45, vec![U8, Lit(&[3]), U8, Name, Rest]),
        (45, vec![U8, Lit(&[4]), U8, Rest]),
        (45, vec![U8, Lit(&[1]), U8, Lit(&[192, 0])]),
        (45, vec![U8, Lit(&[2]), U8, Lit(&[0x20; 15])]),
        (45, vec![U8, U8]),
        (61, vec![Rest]),
        (63, vec![U32, U8, U8, Rest]),
        (63, vec![U32, U8, U8, Lit(&[4; 11])]),
        (63, vec![U32, U8, U8, Lit(&[4; 13])]),
        (250, vec![Name, U48, U16, L16, U16, U16, L16, Trail]),
        (250, vec![Name, Lit(&[0, 0, 0, 0, 0])]),
        (41, vec![Options]),
        (41, vec![Options, Options]),
        (65280, vec![Rest]),
        (65280, vec![Name]),
        (99, vec![L8, Trail]),
    ];
    for t in [2u16, 3, 4, 5, 7, 8, 9, 12, 39] {
        g.push((t, vec![Name, Trail]));
    }
    g
}

/// header, question "b. A IN", one answer: owner -> pointer to the qname.
fn wrap_message(rtype: u16, rdata: &[u8]) -> Vec<u8> {
    let mut m = vec![0x12, 0x34, 0x84, 0, 0, 1, 0, 1, 0, 0, 0, 0];
    m.extend_from_slice(&[1, b'b', 0, 0, 1, 0, 1]);
    debug_assert_eq!(m.len(), OWNER_POS);
    m.extend_from_slice(&[0xC0, QNAME_POS as u8]);
    m.extend_from_slice(&rtype.to_be_bytes());
    m.extend_from_slice(&[0, 1, 0, 0, 0, 60]);
    m.extend_from_slice(&(rdata.len() as u16).to_be_bytes());
    m.extend_from_slice(rdata);
    m
}

fn rtype_label(rtype: u16) -> String {
    if matches!(rtype, 65280 | 99) {
        "UNKNOWN".into()
    } else {
        Rtype::from_int(rtype).to_string()
    }
}

fn check_bytes(env: &Env, rtype: u16, b: &[u8], lc: &mut Local) {
    let t = rtype_label(rtype);
    let msg = wrap_message(rtype, b);
    let case = || json!({"kind": "bytes", "rtype": rtype, "rdata": hex(b), "message": hex(&msg)});
    lc.ev();
    lc.inc(format!("BYTES-{t}:cases"));
    // parse(b)
    let m = match guard(|| Message::from_octets(msg.as_slice()).map_err(|e| e.to_string())) {
        Ok(Ok(m)) => m,
        Ok(Err(e)) => {
            env.viol(format!("C05|{t}|bytes|harness-message-rejected"), e, case());
            return;
        }
        Err(e) => {
            env.viol(format!("C05|{t}|bytes|Message::from_octets|panic|{}", panic_class(&e)), e, case());
            return;
        }
    };
    let parsed = guard(|| -> Result<Rd, String> {
        let rec = m.answer().map_err(|e| e.to_string())?.next().ok_or("no record")?.map_err(|e| e.to_string())?;
        let rec = rec.to_any_record::<PRd>().map_err(|e| e.to_string())?;
        // flatten into owned octets for later comparison
        use domain::base::name::FlattenInto;
        rec.into_data().try_flatten_into().map_err(|_: std::convert::Infallible| String::new())
    });
    let p: Rd = match parsed {
        Err(e) => {
            env.viol(format!("C05|{t}|bytes|parse|panic|{}", panic_class(&e)), format!("parsing RDATA {} panicked: {e}", hex(b)), case());
            return;
        }
        Ok(Err(_)) => {
            lc.inc(format!("BYTES-{t}:rejected"));
            return;
        }
        Ok(Ok(p)) => p,
    };
    lc.inc(format!("BYTES-{t}:accepted"));
    // compose(parse(b))
    let b2 = match compose_vec(&p) {
        Ok(x) => x,
        Err(e) => {
            env.viol(format!("C05|{t}|bytes|compose(parse(b))|panic|{}", panic_class(&e)), format!("RDATA {}: {e}", hex(b)), case());
            return;
        }
    };
    match guard(|| p.rdlen(false)) {
        Ok(Some(n)) if n as usize != b2.len() => {
            env.viol(format!("C05|{t}|bytes|rdlen(false)|advertised!=written"), format!("RDATA {}: rdlen {n}, wrote {}", hex(b), b2.len()), case());
            return;
        }
        Err(e) => {
            env.viol(format!("C05|{t}|bytes|rdlen|panic|{}", panic_class(&e)), format!("RDATA {}: {e}", hex(b)), case());
            return;
        }
        _ => {}
    }
    if let Err(e) = compose_canonical_vec(&p) {
        env.viol(format!("C05|{t}|bytes|compose_canonical_rdata|panic|{}", panic_class(&e)), format!("RDATA {}: {e}", hex(b)), case());
        return;
    }
    // parse(compose(parse(b))) == parse(b)
    match parse_alone(rtype, &b2) {
        Err(e) => env.viol(format!("C05|{t}|bytes|parse(compose(parse(b)))|panic|{}", panic_class(&e)), format!("RDATA {}: {e}", hex(b)), case()),
        Ok(Err(e)) => env.viol(
            format!("C05|{t}|bytes|parse(compose(parse(b)))|rejected|{}", err_class(&e)),
            format!("RDATA {} is accepted, re-composes to {} which the parser rejects: {e}", hex(b), hex(&b2)),
            case(),
        ),
        Ok(Ok((p2, remaining))) => {
            let eq = guard(|| (p2 == p, p == p2));
            if remaining != 0 {
                env.viol(format!("C05|{t}|bytes|parse(compose(parse(b)))|octets-left-unparsed"), format!("RDATA {} -> {}", hex(b), hex(&b2)), case());
            } else if eq != Ok((true, true)) {
                env.viol(format!("C05|{t}|bytes|parse(compose(parse(b)))|not-equal"), format!("RDATA {} -> {}: {eq:?}; {:?} vs {:?}", hex(b), hex(&b2), p, p2), case());
            } else {
                match compose_vec(&p2) {
                    Ok(b3) if b3 == b2 => {
                        lc.inc(format!("BYTES-{t}:roundtripped"));
                        let mut key = vec![0xFE];
                        key.extend_from_slice(&rtype.to_be_bytes());
                        key.extend_from_slice(b);
                        lc.distinct.push(fnv(&key));
                    }
                    Ok(b3) => env.viol(format!("C05|{t}|bytes|compose-not-idempotent"), format!("RDATA {} -> {} -> {}", hex(b), hex(&b2), hex(&b3)), case()),
                    Err(e) => env.viol(format!("C05|{t}|bytes|compose(p2)|panic|{}", panic_class(&e)), e, case()),
                }
            }
        }
    }
    // and through a compressing message
    lc.ev();
    match build_message(&p, Target::Static, &[vec![1, b'b', 0]]) {
        Err(e) => env.viol(format!("C05|{t}|bytes|message-push|panic|{}", panic_class(&e)), format!("RDATA {}: {e}", hex(b)), case()),
        Ok(Err(e)) => env.viol(format!("C05|{t}|bytes|message-push|refused"), format!("RDATA {}: {e}", hex(b)), case()),
        Ok(Ok(msg2)) => {
            let r = guard(|| -> Result<bool, String> {
                let raw = w::read_message(&msg2)?;
                if raw.end != msg2.len() {
                    return Err("RDLENGTH != octets that follow".into());
                }
                let m = Message::from_octets(msg2.as_slice()).map_err(|e| e.to_string())?;
                let last = m.answer().map_err(|e| e.to_string())?.last().ok_or("no record")?.map_err(|e| e.to_string())?;
                let rec = last.to_any_record::<PRd>().map_err(|e| e.to_string())?;
                Ok(rec.data() == &p)
            });
            match r {
                Ok(Ok(true)) => lc.inc(format!("BYTES-{t}:message-roundtrips")),
                Ok(Ok(false)) => env.viol(format!("C05|{t}|bytes|message-read|not-equal"), format!("RDATA {}", hex(b)), case()),
                Ok(Err(e)) => env.viol(format!("C05|{t}|bytes|message-read|rejected|{}", err_class(&e)), format!("RDATA {}: {e}", hex(b)), case()),
                Err(e) => env.viol(format!("C05|{t}|bytes|message-read|panic|{}", panic_class(&e)), format!("RDATA {}: {e}", hex(b)), case()),
            }
        }
    }
}

fn run_grammar(env: &Env, rtype: u16, fields: &[F], lc: &mut Local) -> u64 {
    let full = env.tier == Tier::Thorough;
    let menus: Vec<Vec<Vec<u8>>> = fields.iter().map(|f| variants(*f, full)).collect();
    let sizes: Vec<usize> = menus.iter().map(|m| m.len()).collect();
    let mut n = 0;
    if sizes.is_empty() {
        check_bytes(env, rtype, &[], lc);
        return 1;
    }
    product(&sizes, |idx| {
        let b: Vec<u8> = idx.iter().enumerate().flat_map(|(f, &k)| menus[f][k].iter().cloned()).collect();
        check_bytes(env, rtype, &b, lc);
        n += 1;
    });
    n
}

//------------ main ------------------------------------------------------------------

fn tier_from(s: &str) -> Tier {
    match s {
        "thorough" => Tier::Thorough,
        "compact" => Tier::Compact,
        _ => Tier::Quick,
    }
}

fn replay(env: &Env, path: &str) {
    let text = std::fs::read_to_string(path).expect("replay file");
    let j: J = serde_json::from_str(&text).expect("json");
    let case = &j["case"];
    let mut lc = Local::default();
    println!("replaying {}", case);
    match case["kind"].as_str() {
        Some("value") => {
            let (mn, idx) = (case["type"].as_str().unwrap_or(""), case["index"].as_u64().unwrap_or(0));
            let tier = tier_from(case["tier"].as_str().unwrap_or("quick"));
            let env2 = Env { ctx: env.ctx.clone(), stats: Stats::new(), tier };
            for g in rgen::generators().into_iter().filter(|g| g.mnemonic == mn) {
                // one shard per candidate index: only `idx` is constructed
                g.run(tier, idx as usize, usize::MAX, &mut |ev| {
                    if let Event::Value(v) = &ev {
                        println!("value: {}\n  data: {:?}\n  reference rdata ({} octets): {}", v.desc, v.data, v.wire.len(), hex(&v.wire[..v.wire.len().min(128)]));
                    }
                    handle_event(&env2, ev, &mut lc);
                });
            }
        }
        Some("bytes") => {
            let rtype = case["rtype"].as_u64().unwrap_or(0) as u16;
            check_bytes(env, rtype, &unhex(case["rdata"].as_str().unwrap_or("")), &mut lc);
        }
        Some("option") => {
            let tier = tier_from(case["tier"].as_str().unwrap_or("quick"));
            let env2 = Env { ctx: env.ctx.clone(), stats: Stats::new(), tier };
            // options are few: re-run all of them
            check_options(&env2, &mut lc);
        }
        _ => println!("unknown replay kind"),
    }
    println!("counters: {:?}", lc.c);
}

fn main() {
    let ctx = Ctx::new("C05", "exploration");
    let tier = if ctx.quick() { Tier::Quick } else { Tier::Thorough };
    let env = Env { ctx: ctx.clone(), stats: Stats::new(), tier };
    if let Some(path) = ctx.replay.clone() {
        replay(&env, &path);
        ctx.finish(json!({"evaluations": 1, "distinct_nontrivial": 0, "rule": "replay", "samples": [], "exhaustive": false}), &["replay of a single case"]);
    }
    let wd = Watchdog::start(ctx.clone(), std::time::Duration::from_secs(120), |d| {
        format!("C05|{}|hang", d["type"].as_str().unwrap_or("?"))
    });

    let t0 = std::time::Instant::now();
    // 1. values
    let gens = rgen::generators();
    let mut tasks: Vec<(usize, usize, usize)> = Vec::new();
    for (gi, g) in gens.iter().enumerate() {
        let n = match g.mnemonic {
            "RRSIG" | "TSIG" | "SOA" => 256,
            "NAPTR" | "NSEC3" | "SVCB" | "HTTPS" | "SRV" | "IPSECKEY" => 32,
            _ => 8,
        };
        for s in 0..n {
            tasks.push((gi, s, n));
        }
    }
    let merged = std::sync::Mutex::new(Local::default());
    let cands = std::sync::Mutex::new(BTreeMap::<&'static str, u64>::new());
    tasks.par_iter().for_each(|&(gi, shard, n)| {
        let g = &gens[gi];
        let tt = std::time::Instant::now();
        let mut lc = Local::default();
        let total = g.run(tier, shard, n, &mut |ev| {
            wd.enter(|| match &ev {
                Event::Value(v) => json!({"kind": "value", "type": v.mnemonic, "tier": tier_name(tier), "index": v.index, "desc": v.desc}),
                _ => json!({"type": g.mnemonic}),
            });
            if let Event::Value(v) = &ev {
                if v.index == 1 {
                    env.stats.sample(48, || json!({"value": v.desc, "rdata_len": v.wire.len(), "rdata_head": hex(&v.wire[..v.wire.len().min(24)])}));
                }
            }
            handle_event(&env, ev, &mut lc);
            wd.leave();
        });
        if std::env::var("C05_TIMING").is_ok() { eprintln!("task {} {shard}/{n} took {:?} ending at {:?}", g.mnemonic, tt.elapsed(), t0.elapsed()); }
        cands.lock().unwrap().insert(g.mnemonic, total);
        let mut m = merged.lock().unwrap();
        for (k, v) in lc.c {
            *m.c.entry(k).or_insert(0) += v;
        }
        m.evals += lc.evals;
        env.stats.distinct_many(lc.distinct);
    });

    eprintln!("phase values done at {:?}", std::time::Instant::now().duration_since(t0));
    // 2. options
    {
        let mut lc = Local::default();
        wd.enter(|| json!({"type": "OPTIONS"}));
        check_options(&env, &mut lc);
        wd.leave();
        let mut m = merged.lock().unwrap();
        for (k, v) in lc.c {
            *m.c.entry(k).or_insert(0) += v;
        }
        m.evals += lc.evals;
        env.stats.distinct_many(lc.distinct);
    }

    eprintln!("phase options done at {:?}", std::time::Instant::now().duration_since(t0));
    // 3. byte grammars
    let grams = grammars();
    let byte_cases = std::sync::atomic::AtomicU64::new(0);
    grams.par_iter().for_each(|(rtype, fields)| {
        let mut lc = Local::default();
        wd.enter(|| json!({"type": format!("BYTES-{rtype}")}));
        let n = run_grammar(&env, *rtype, fields, &mut lc);
        wd.leave();
        byte_cases.fetch_add(n, std::sync::atomic::Ordering::Relaxed);
        let mut m = merged.lock().unwrap();
        for (k, v) in lc.c {
            *m.c.entry(k).or_insert(0) += v;
        }
        m.evals += lc.evals;
        env.stats.distinct_many(lc.distinct);
    });

    eprintln!("phase bytes done at {:?}", std::time::Instant::now().duration_since(t0));
    // report
    let m = merged.into_inner().unwrap();
    let mut per_type: BTreeMap<String, BTreeMap<String, u64>> = BTreeMap::new();
    for (k, v) in &m.c {
        let (t, what) = k.split_once(':').unwrap_or((k.as_str(), ""));
        per_type.entry(t.to_string()).or_default().insert(what.to_string(), *v);
    }
    for (t, n) in cands.into_inner().unwrap() {
        per_type.entry(t.to_string()).or_default().insert("candidates".into(), n);
    }
    let sum = |suffix: &str| -> u64 {
        m.c.iter().filter(|(k, _)| k.ends_with(suffix) && !k.starts_with("BYTES-") && !k.starts_with("OPTION-")).map(|(_, v)| *v).sum()
    };
    let sum_in = |prefix: &str, suffix: &str| -> u64 { m.c.iter().filter(|(k, _)| k.ends_with(suffix) && k.starts_with(prefix)).map(|(_, v)| *v).sum() };
    println!("{:<12} {:>9} {:>9} {:>9} {:>12} {:>9}", "type", "cand", "generated", "refused", "roundtripped", "msg-rt");
    for (t, c) in &per_type {
        let g = |k: &str| c.get(k).cloned().unwrap_or(0);
        println!("{:<12} {:>9} {:>9} {:>9} {:>12} {:>9}", t, g("candidates") + g("cases"), g("generated") + g("accepted"), g("refused") + g("rejected"), g("roundtripped"), g("message-roundtrips"));
    }
    ctx.finish(
        json!({
            "evaluations": m.evals,
            "distinct_nontrivial": env.stats.distinct_count(),
            "rule": "distinct (type, reference RDATA) of non-empty values that completed the stand-alone round trip, plus distinct option encodings that round-tripped, plus distinct (type, RDATA octets) of grammar strings the parser accepted and that round-tripped; hashed with FNV-1a over type and octets",
            "exhaustive": true,
            "tier_menus": tier_name(tier),
            "values_generated": sum(":generated"),
            "values_refused_by_constructor": sum(":refused"),
            "values_roundtripped": sum(":roundtripped"),
            "message_roundtrips": sum(":message-roundtrips"),
            "byte_grammar_cases": byte_cases.load(std::sync::atomic::Ordering::Relaxed),
            "byte_grammar_accepted": sum_in("BYTES-", ":accepted"),
            "byte_grammar_rejected": sum_in("BYTES-", ":rejected"),
            "byte_grammar_roundtripped": sum_in("BYTES-", ":roundtripped"),
            "options_generated": sum_in("OPTION-", ":generated"),
            "options_refused_by_constructor": sum_in("OPTION-", ":refused"),
            "options_roundtripped": sum_in("OPTION-", ":roundtripped"),
            "values_accepted_without_wire_representation": sum(":accepted-unrepresentable"),
            "values_zone_dispatch_roundtripped": sum(":zone-roundtripped"),
            "per_type": per_type,
            "canonical_lowercase_table": CANONICAL_LOWERCASE,
            "may_compress_table": MAY_COMPRESS,
            "samples": env.stats.samples(),
        }),
        &[
            "values off the per-field boundary menus are not covered (DESIGN C05 L.)",
            "the reference encodings are written in mc::rgen from the RFC layouts; the library's Eq is used in addition to, not instead of, octet comparison",
            "messages above 65535 octets are not built: values whose RDATA leaves no room for header and owner are checked stand-alone only (counted as message-skipped-over-65535)",
            "ClientSubnet prefixes above the address length are clamped by the constructor; the reference clamps identically (RFC 7871 gives no encoding for them)",
        ],
    );
}
