//! C20 — client cache: served-from-cache responses are earlier upstream
//! responses for the same question and compatible flags, aged, never stale,
//! and never expose DNSSEC material to queries that did not ask.
//!
//! The REAL `net::client::cache::Connection::with_config` runs over a scripted
//! upstream (`SendRequest<RequestMessage<Vec<u8>>>`) on a tokio current-thread
//! runtime with the clock paused; the harness advances virtual time with
//! `tokio::time::advance`. `cache.rs` measures time with
//! `tokio::time::Instant`, so no hook is needed. moka is created with a
//! capacity only (no TTL/TTI, no background threads in 0.12 `future`), so
//! the only expiry logic is the cache's own `created_at + valid_for`.
//!
//! Histories are enumerated completely per SHAPE (fill·probe,
//! fill·probe·probe, fill·cross-probe, and in the thorough tier
//! fill·fill'·probe·probe) over the full product of the menus, every history
//! on a fresh runtime + fresh cache. The oracle is an independent reference
//! written here from the property text, the flag lattice documented at the
//! top of cache.rs, and RFC 2308/4035/6840; upstream messages are produced
//! and all messages are parsed by the harness's own wire code.

use bytes::Bytes;
use domain::base::iana::OptionCode;
use domain::base::opt::cookie::ClientCookie;
use domain::base::opt::{ClientSubnet, Cookie, Expire, Nsid, Padding, TcpKeepalive, UnknownOptData};
use domain::base::Message;
use domain::net::client::cache;
use domain::net::client::request::{
    ComposeRequest, Error, GetResponse, RequestMessage, SendRequest,
};
use mc::wire::{read_message, read_name};
use mc::*;
use rayon::prelude::*;
use serde_json::{json, Value};
use std::collections::{BTreeMap, HashMap};
use std::future::Future;
use std::net::{IpAddr, Ipv4Addr};
use std::pin::Pin;
use std::sync::{Arc, Mutex};
use std::time::Duration;

// ---------------------------------------------------------------- menus

const RD: u8 = 1;
const CD: u8 = 2;
const AD: u8 = 4;
const DO: u8 = 8;

const H_QR: u16 = 0x8000;
const H_AA: u16 = 0x0400;
const H_TC: u16 = 0x0200;
const H_RD: u16 = 0x0100;
const H_RA: u16 = 0x0080;
const H_AD: u16 = 0x0020;
const H_CD: u16 = 0x0010;

const T_A: u16 = 1;
const T_NS: u16 = 2;
const T_CNAME: u16 = 5;
const T_SOA: u16 = 6;
const T_OPT: u16 = 41;
const T_RRSIG: u16 = 46;
const T_NSEC: u16 = 47;
const T_NSEC3: u16 = 50;

/// Request forms. 0-3 are cacheable standard queries (3 is the same
/// question as 0 in another case). 4-7 are the forms cache.rs passes
/// through: another class, more than one question, no question, another
/// opcode. A QUERY without a question cannot be built (RequestMessage::new
/// refuses it), so "no question" comes with opcode STATUS.
struct Form {
    opcode: u8,
    qs: &'static [(&'static [u8], u16, u16)],
    text: &'static str,
}
const A_LC: &[u8] = b"\x01a\x02ex\x00";
const B_LC: &[u8] = b"\x01b\x02ex\x00";
const A_UC: &[u8] = b"\x01A\x02EX\x00";
const NQ: usize = 8;
const FORMS: [Form; NQ] = [
    Form { opcode: 0, qs: &[(A_LC, T_A, 1)], text: "a.ex/A" },
    Form { opcode: 0, qs: &[(B_LC, T_A, 1)], text: "b.ex/A" },
    Form { opcode: 0, qs: &[(A_LC, T_RRSIG, 1)], text: "a.ex/RRSIG" },
    Form { opcode: 0, qs: &[(A_UC, T_A, 1)], text: "A.EX/A" },
    Form { opcode: 0, qs: &[(A_LC, T_A, 3)], text: "a.ex/A-class-CH" },
    Form { opcode: 0, qs: &[(A_LC, T_A, 1), (B_LC, T_A, 1)], text: "two-questions(a.ex/A,b.ex/A)" },
    Form { opcode: 2, qs: &[], text: "opcode-STATUS-no-question" },
    Form { opcode: 2, qs: &[(A_LC, T_A, 1)], text: "opcode-STATUS-a.ex/A" },
];
/// What "the same question" means: opcode and the whole question section,
/// names compared case-insensitively.
type Ident = (u8, Vec<(Vec<u8>, u16, u16)>);
fn form_ident(q: u8) -> Ident {
    let f = &FORMS[q as usize];
    (f.opcode, f.qs.iter().map(|(n, t, c)| (n.to_ascii_lowercase(), *t, *c)).collect())
}
fn q_text(q: u8) -> &'static str {
    FORMS[q as usize].text
}

/// Upstream answer kinds.
const KINDS: [&str; 37] = [
    "pos-ttl10-aa",          // 0
    "pos-mixed-answer-5/20", // 1
    "pos-20-authority-5",    // 2
    "pos-20-additional-5",   // 3
    "pos-ttl-1000000",       // 4
    "pos-ttl0",              // 5
    "nodata-soa7",           // 6
    "nodata-soa5000",        // 7
    "nxdomain-soa7",         // 8
    "nxdomain-soa5000",      // 9
    "nxdomain-no-soa",       // 10
    "delegation-10",         // 11
    "delegation-2000000",    // 12
    "servfail",              // 13
    "truncated-pos10",       // 14
    "transport-error",       // 15
    "signed-pos10",          // 16 RRSIG iff DO, AD iff AD|DO (well-behaved)
    "signed-raw-pos10",      // 17 RRSIG + AD regardless of the query
    "signed-pos20-rrsig5",   // 18
    "signed-nodata7",        // 19 SOA + (DO: RRSIG, NSEC, RRSIG) in authority
    "noerror-empty",         // 20
    "refused-soa5000",       // 21 error rcode carrying a long-TTL record
    // authority-section ORDER variants: a SOA anywhere in the authority
    // section makes the response negative (RFC 2308 2.1/2.2), NS or not
    "nodata-ns5000-then-soa5000",   // 22
    "nodata-soa5000-then-ns5000",   // 23
    "nxdomain-ns5000-then-soa5000", // 24
    "nxdomain-soa5000-then-ns5000", // 25
    // {positive, nodata, nxdomain} x {AD as asked, AD never} x {DNSSEC
    // records iff DO, none}: the combinations not already above (16 and 19
    // are AD+records, 0/6/8 are neither). "unvalidated" = the upstream does
    // not validate (or the zone is insecure): records without AD.
    "unvalidated-signed-pos10",             // 26 RRSIG iff DO, AD never
    "unvalidated-signed-nodata7-nsec3",     // 27 SOA + (DO: RRSIG, NSEC3, RRSIG), AD never
    "signed-nxdomain7",                     // 28 SOA + (DO: RRSIG, NSEC, RRSIG), AD iff AD|DO
    "unvalidated-signed-nxdomain7-nsec3",   // 29 SOA + (DO: RRSIG, NSEC3, RRSIG), AD never
    "ad-pos10-without-dnssec-records",      // 30 AD iff AD|DO, no DNSSEC records
    "ad-nodata7-without-dnssec-records",    // 31
    "ad-nxdomain7-without-dnssec-records",  // 32
    "unvalidated-signed-pos10-all-sections", // 33 answer, authority NS and additional glue each with RRSIG iff DO, AD never
    // TTLs above the documented MAXIMA of the setters (config huge-requested only)
    "pos-ttl-10000000",   // 34
    "nodata-soa100000",   // 35
    "nxdomain-soa100000", // 36
];
/// Kinds 0..N_MAIN form the answer menu of the main shapes.
const N_MAIN: u8 = 34;
const K_PROBE: u8 = 0; // what upstream answers when a probe is forwarded
const K_TRANSPORT: u8 = 15;
const K_NX_NOSOA: u8 = 10;

/// Reference copy of a configuration (seconds), from the documentation of
/// the `Config::set_*` methods.
#[derive(Clone, Copy, Debug)]
struct Cfg {
    name: &'static str,
    max_validity: u64,
    transport_failure: u64,
    misc_error: u64,
    nxdomain: u64,
    nodata: u64,
    delegation: u64,
    cache_truncated: bool,
    /// how the real Config/Connection is produced
    setup: Setup,
}
#[derive(Clone, Copy, Debug, PartialEq, Eq)]
enum Setup {
    /// Connection::new(upstream): the documented defaults
    New,
    /// Config::new() + every setter with exactly the reference value
    Exact,
    /// every duration setter called with Duration::ZERO: documented minima apply
    Zero,
    /// every duration setter called with Duration::MAX: documented maxima apply
    Huge,
    /// set_max_cache_entries(0) (documented minimum 1 applies), rest default
    OneEntry,
}
const CFG_ZERO: usize = 4;
const CFG_HUGE: usize = 5;
const CFG_ONE_ENTRY: usize = 6;
const CFGS: [Cfg; 7] = [
    // documented defaults; built with Config::new() and no setter
    Cfg { name: "default", max_validity: 604800, transport_failure: 30, misc_error: 30, nxdomain: 3600, nodata: 3600, delegation: 1_000_000, cache_truncated: false, setup: Setup::New },
    // every bound at its documented minimum
    Cfg { name: "tiny", max_validity: 60, transport_failure: 1, misc_error: 1, nxdomain: 60, nodata: 60, delegation: 60, cache_truncated: false, setup: Setup::Exact },
    Cfg { name: "default+cache_truncated", max_validity: 604800, transport_failure: 30, misc_error: 30, nxdomain: 3600, nodata: 3600, delegation: 1_000_000, cache_truncated: true, setup: Setup::Exact },
    // all bounds pairwise different (detects a bound taken from the wrong field)
    Cfg { name: "distinct+cache_truncated", max_validity: 100, transport_failure: 5, misc_error: 7, nxdomain: 70, nodata: 80, delegation: 90, cache_truncated: true, setup: Setup::Exact },
    // out-of-range requests: the documented limits of the setters are the reference
    Cfg { name: "zero-requested", max_validity: 60, transport_failure: 1, misc_error: 1, nxdomain: 60, nodata: 60, delegation: 60, cache_truncated: false, setup: Setup::Zero },
    Cfg { name: "huge-requested", max_validity: 6_048_000, transport_failure: 300, misc_error: 300, nxdomain: 86400, nodata: 86400, delegation: 1_000_000_000, cache_truncated: false, setup: Setup::Huge },
    Cfg { name: "one-cache-entry", max_validity: 604800, transport_failure: 30, misc_error: 30, nxdomain: 3600, nodata: 3600, delegation: 1_000_000, cache_truncated: false, setup: Setup::OneEntry },
];

fn make_cfg(i: usize) -> cache::Config {
    let c = &CFGS[i];
    let mut cfg = cache::Config::new();
    let d = |exact: u64| match c.setup {
        Setup::Zero => Duration::ZERO,
        Setup::Huge => Duration::MAX,
        _ => Duration::from_secs(exact),
    };
    match c.setup {
        Setup::New => {}
        Setup::OneEntry => cfg.set_max_cache_entries(0),
        _ => {
            cfg.set_max_validity(d(c.max_validity));
            cfg.set_transport_failure_duration(d(c.transport_failure));
            cfg.set_misc_error_duration(d(c.misc_error));
            cfg.set_max_nxdomain_validity(d(c.nxdomain));
            cfg.set_max_nodata_validity(d(c.nodata));
            cfg.set_max_delegation_validity(d(c.delegation));
            cfg.set_cache_truncated(c.cache_truncated);
        }
    }
    cfg
}

#[derive(Clone, Copy, Debug, PartialEq, Eq)]
struct Step {
    adv_ms: u64,
    q: u8,
    f: u8,
    /// what the upstream answers if this step reaches it
    ans: u8,
    /// how the client builds the request: 0 = flags in the message given to
    /// RequestMessage::new; 1 = flags set afterwards through header_mut();
    /// 2 = as 1, plus set_udp_payload_size and add_opt (an OPT record is
    /// present even when DO is clear); >= M_CONS = a request construction
    /// (see `Cons`): which additional section the base message has, by which
    /// route the flags get into the request, and which transport the
    /// upstream stands for
    mode: u8,
    /// EDNS option layout of the request (index into `EOPTS`, request
    /// constructions only; 0 = none) | `EO_ECHO` if the upstream copies the
    /// options of the request it received into the OPT record of its answer
    eo: u8,
}

/// Request construction (modes >= M_CONS). `f` of the step is then only a
/// PARAMETER of the construction; the flags the request effectively carries
/// are read by the harness from the octets a transport would send.
const M_CONS: u8 = 3;
const N_ADD: u8 = 7;
const N_ROUTE: u8 = 5;
const N_STYLE: u8 = 3;
/// additional section of the base message handed to RequestMessage::new
const ADDS: [&str; N_ADD as usize] = [
    "no additional section",
    "own OPT record with DO=0",
    "own OPT record with DO=1",
    "one A record in the additional section",
    "one A record, then an own OPT record with DO=0",
    "one A record, then an own OPT record with DO=1",
    "own OPT record with DO=1, then one A record",
];
/// how RD/CD/AD/DO of the step's `f` get into the request
const ROUTES: [&str; N_ROUTE as usize] = [
    "RD/CD/AD in the base message's header, no setter called (DO only through the base message's own OPT record)",
    "RD/CD/AD via header_mut() over a clear base header, set_dnssec_ok(true) iff DO",
    "RD/CD/AD in the base header AND the same via header_mut(), set_dnssec_ok(true) iff DO",
    "RD/CD/AD via header_mut() over a clear base header, set_dnssec_ok(DO) always called",
    "base header carries the complementary RD/CD/AD, header_mut() overrides them, set_dnssec_ok(DO) always called",
];
/// what the transport the upstream stands for does with a request before
/// it is sent (dgram.rs / stream.rs)
const STYLES: [&str; N_STYLE as usize] = [
    "dgram: header_mut().set_id, set_udp_payload_size(1232), to_message()",
    "dgram without payload size: header_mut().set_id, to_message()",
    "stream: header_mut().set_id, append_message() into a builder",
];
#[derive(Clone, Copy, Debug)]
struct Cons {
    style: u8,
    add: u8,
    route: u8,
}
fn cons_of(mode: u8) -> Option<Cons> {
    if mode < M_CONS {
        return None;
    }
    let m = mode - M_CONS;
    let c = Cons { style: m / (N_ADD * N_ROUTE), add: (m / N_ROUTE) % N_ADD, route: m % N_ROUTE };
    assert!(c.style < N_STYLE, "mode out of range");
    Some(c)
}
fn cons_mode(style: u8, add: u8, route: u8) -> u8 {
    M_CONS + style * N_ADD * N_ROUTE + add * N_ROUTE + route
}

// ---------------------------------------------------------------- EDNS option axis

/// The RDATA of an OPT record is a sequence of {code, length, data}
/// (RFC 6891 6.1.2); a length of zero is legal and is what a client sends
/// for NSID (RFC 5001 2.1), edns-tcp-keepalive (RFC 7828 3.2.1), EXPIRE
/// (RFC 7314 2) and may send for Padding (RFC 7830 3).
#[derive(Clone, Copy, Debug)]
enum EO {
    Nsid(&'static [u8]),
    Padding(usize),
    Cookie,
    Subnet,
    KeepaliveEmpty,
    ExpireEmpty,
    Unknown(u16, &'static [u8]),
}
/// One EDNS layout of a request construction.
struct EOpt {
    text: &'static str,
    /// the options are added before the flags route runs (else after it)
    first: bool,
    /// the caller itself calls set_udp_payload_size with this value
    payload: Option<u16>,
    /// added through ComposeRequest::add_opt, in this order
    opts: &'static [EO],
    /// decoration of the own OPT record of the BASE message, if the base
    /// message has one: 0 = plain (payload 4096, no options, only DO in the
    /// TTL field); 1 = payload 65535, extended-rcode octet 0xFF, version 1,
    /// options {cookie, NSID without data}; 2 = payload 0x8000, every Z bit
    /// other than DO set, option {NSID without data}
    base: u8,
}
const EO_ECHO: u8 = 0x80;
const EOPTS: [EOpt; 24] = [
    EOpt { text: "no option", first: false, payload: None, opts: &[], base: 0 },
    EOpt { text: "add_opt(NSID without data): one zero-length option, last in the record", first: false, payload: None, opts: &[EO::Nsid(b"")], base: 0 },
    EOpt { text: "add_opt(option code 65001 without data)", first: false, payload: None, opts: &[EO::Unknown(65001, b"")], base: 0 },
    EOpt { text: "add_opt(NSID without data), add_opt(Padding 4): a zero-length option followed by a non-empty one", first: false, payload: None, opts: &[EO::Nsid(b""), EO::Padding(4)], base: 0 },
    EOpt { text: "add_opt(Padding 4), add_opt(NSID without data): a non-empty option, then a zero-length one as the last", first: false, payload: None, opts: &[EO::Padding(4), EO::Nsid(b"")], base: 0 },
    EOpt { text: "add_opt(Cookie, 8 octet client cookie)", first: false, payload: None, opts: &[EO::Cookie], base: 0 },
    EOpt { text: "add_opt(Padding 31)", first: false, payload: None, opts: &[EO::Padding(31)], base: 0 },
    EOpt { text: "add_opt(ClientSubnet 192.0.2.0/24)", first: false, payload: None, opts: &[EO::Subnet], base: 0 },
    EOpt { text: "add_opt(Cookie), add_opt(ClientSubnet): two non-empty options", first: false, payload: None, opts: &[EO::Cookie, EO::Subnet], base: 0 },
    EOpt { text: "add_opt(option code 65001 with 3 octets of data)", first: false, payload: None, opts: &[EO::Unknown(65001, &[1, 2, 3])], base: 0 },
    EOpt { text: "add_opt(TcpKeepalive without timeout), add_opt(Expire without value): two zero-length options", first: false, payload: None, opts: &[EO::KeepaliveEmpty, EO::ExpireEmpty], base: 0 },
    EOpt { text: "set_udp_payload_size(65535), no option", first: false, payload: Some(0xFFFF), opts: &[], base: 0 },
    EOpt { text: "set_udp_payload_size(65535), add_opt(NSID without data)", first: false, payload: Some(0xFFFF), opts: &[EO::Nsid(b"")], base: 0 },
    EOpt { text: "set_udp_payload_size(0x8000), add_opt(Cookie)", first: false, payload: Some(0x8000), opts: &[EO::Cookie], base: 0 },
    EOpt { text: "add_opt(Padding 468)", first: false, payload: None, opts: &[EO::Padding(468)], base: 0 },
    EOpt { text: "add_opt(NSID without data) BEFORE the flags are set", first: true, payload: None, opts: &[EO::Nsid(b"")], base: 0 },
    EOpt { text: "add_opt(Cookie) BEFORE the flags are set", first: true, payload: None, opts: &[EO::Cookie], base: 0 },
    EOpt { text: "no option added; the base message's own OPT record (if any) has payload 65535, extended-rcode 0xFF, version 1, options {cookie, NSID without data}", first: false, payload: None, opts: &[], base: 1 },
    EOpt { text: "add_opt(NSID without data); the base message's own OPT record (if any) has payload 65535, extended-rcode 0xFF, version 1, options {cookie, NSID without data}", first: false, payload: None, opts: &[EO::Nsid(b"")], base: 1 },
    EOpt { text: "no option added; the base message's own OPT record (if any) has payload 0x8000, all Z bits other than DO set, option {NSID without data}", first: false, payload: None, opts: &[], base: 2 },
    EOpt { text: "add_opt(Cookie); the base message's own OPT record (if any) has payload 0x8000, all Z bits other than DO set, option {NSID without data}", first: false, payload: None, opts: &[EO::Cookie], base: 2 },
    EOpt { text: "add_opt(Padding 0): zero-length padding", first: false, payload: None, opts: &[EO::Padding(0)], base: 0 },
    EOpt {
        text: "add_opt x 5: Cookie, ClientSubnet, code 65001 without data, Padding 7, TcpKeepalive without timeout (zero-length in the middle and last)",
        first: false,
        payload: None,
        opts: &[EO::Cookie, EO::Subnet, EO::Unknown(65001, b""), EO::Padding(7), EO::KeepaliveEmpty],
        base: 0,
    },
    EOpt { text: "add_opt(Padding 4000)", first: false, payload: None, opts: &[EO::Padding(4000)], base: 0 },
];
fn eopt(eo: u8) -> &'static EOpt {
    &EOPTS[(eo & !EO_ECHO) as usize]
}
const CLIENT_COOKIE: [u8; 8] = [0xC0, 0x0C, 0x1E, 3, 4, 5, 6, 7];
/// (code, data) of one option as RFC 5001 / 7830 / 7873 / 7871 / 7828 /
/// 7314 put it on the wire.
fn eo_wire(o: &EO) -> (u16, Vec<u8>) {
    match o {
        EO::Nsid(d) => (3, d.to_vec()),
        EO::Padding(n) => (12, vec![0; *n]),
        EO::Cookie => (10, CLIENT_COOKIE.to_vec()),
        // FAMILY 1, SOURCE PREFIX-LENGTH 24, SCOPE PREFIX-LENGTH 0, 3 octets of address
        EO::Subnet => (8, vec![0, 1, 24, 0, 192, 0, 2]),
        EO::KeepaliveEmpty => (11, vec![]),
        EO::ExpireEmpty => (9, vec![]),
        EO::Unknown(c, d) => (*c, d.to_vec()),
    }
}
/// The options the caller added, as a sorted list.
fn expected_options(eo: u8) -> Vec<(u16, Vec<u8>)> {
    let mut v: Vec<(u16, Vec<u8>)> = eopt(eo).opts.iter().map(eo_wire).collect();
    v.sort();
    v
}
/// Own reader of an option sequence (RFC 6891 6.1.2), in wire order.
fn read_options(rdata: &[u8]) -> Result<Vec<(u16, Vec<u8>)>, String> {
    let mut v = Vec::new();
    let mut p = 0;
    while p < rdata.len() {
        if p + 4 > rdata.len() {
            return Err(format!("option header at offset {p} overruns the {} octets of OPT RDATA", rdata.len()));
        }
        let code = u16::from_be_bytes([rdata[p], rdata[p + 1]]);
        let len = u16::from_be_bytes([rdata[p + 2], rdata[p + 3]]) as usize;
        if p + 4 + len > rdata.len() {
            return Err(format!("option {code} at offset {p}: length {len} overruns the {} octets of OPT RDATA", rdata.len()));
        }
        v.push((code, rdata[p + 4..p + 4 + len].to_vec()));
        p += 4 + len;
    }
    Ok(v)
}
/// Adds the options of a layout to a request through the ComposeRequest interface.
fn apply_eopts(req: &mut RequestMessage<Vec<u8>>, lay: &EOpt) -> Result<(), String> {
    if let Some(p) = lay.payload {
        req.set_udp_payload_size(p);
    }
    for o in lay.opts {
        let r = match o {
            EO::Nsid(d) => req.add_opt(&Nsid::from_octets(d.to_vec()).map_err(|_| "Nsid::from_octets refused".to_string())?),
            EO::Padding(n) => req.add_opt(&Padding::from_octets(vec![0u8; *n]).map_err(|_| "Padding::from_octets refused".to_string())?),
            EO::Cookie => req.add_opt(&Cookie::new(ClientCookie::from_octets(CLIENT_COOKIE), None)),
            EO::Subnet => req.add_opt(&ClientSubnet::new(24, 0, IpAddr::V4(Ipv4Addr::new(192, 0, 2, 0)))),
            EO::KeepaliveEmpty => req.add_opt(&TcpKeepalive::new(None)),
            EO::ExpireEmpty => req.add_opt(&Expire::new(None)),
            EO::Unknown(c, d) => req.add_opt(&UnknownOptData::new(OptionCode::from_int(*c), d.to_vec()).map_err(|_| "UnknownOptData::new refused".to_string())?),
        };
        r.map_err(|_| format!("add_opt refused {o:?}"))?;
    }
    Ok(())
}
/// What a request's EDNS layout must look like on the wire: a well-formed
/// option sequence that contains every option the caller added.
fn check_wire_options(p: &PMsg, eo: u8) -> Result<(), String> {
    let want = expected_options(eo);
    let mut got = match &p.opt_rdata {
        None => vec![],
        Some(r) => read_options(r).map_err(|e| format!("the OPT record of the request is not a sequence of options (RFC 6891 6.1.2): {e}"))?,
    };
    got.sort();
    let mut g = got.iter().peekable();
    for w in &want {
        while g.peek().is_some_and(|x| *x < w) {
            g.next();
        }
        if g.next() != Some(w) {
            return Err(format!("option code {} with {} octets of data was added by the caller but is not in the request on the wire (options there: {:?})", w.0, w.1.len(), got.iter().map(|(c, d)| (*c, d.len())).collect::<Vec<_>>()));
        }
    }
    Ok(())
}
/// The options of a message's OPT record as a sorted list (None: not a
/// well-formed option sequence).
fn sorted_options(p: &PMsg) -> Option<Vec<(u16, Vec<u8>)>> {
    let mut v = match &p.opt_rdata {
        None => vec![],
        Some(r) => read_options(r).ok()?,
    };
    v.sort();
    Some(v)
}

fn step_json(s: &Step) -> Value {
    json!({"adv_ms": s.adv_ms, "q": s.q, "flags": s.f, "ans": s.ans, "mode": s.mode, "eo": s.eo})
}
fn flags_text(f: u8) -> String {
    format!(
        "RD={} CD={} AD={} DO={}",
        f & RD != 0,
        f & CD != 0,
        f & AD != 0,
        f & DO != 0
    )
}
fn step_text(s: &Step) -> String {
    let how = match cons_of(s.mode) {
        None => ["", " (flags via header_mut)", " (flags via header_mut, OPT via set_udp_payload_size+add_opt)"][s.mode as usize].to_string(),
        Some(c) => format!(
            " (construction parameters, not necessarily the effective flags; base message: {}; route: {}; upstream transport: {}{})",
            ADDS[c.add as usize],
            ROUTES[c.route as usize],
            STYLES[c.style as usize],
            if s.eo == 0 {
                String::new()
            } else {
                format!("; EDNS: {}{}", eopt(s.eo).text, if s.eo & EO_ECHO != 0 { "; the upstream copies the request's options into its answer's OPT record" } else { "" })
            }
        ),
    };
    format!("+{}ms {} [{}]{} upstream-would-answer={}", s.adv_ms, q_text(s.q), flags_text(s.f), how, KINDS[s.ans as usize])
}

// ---------------------------------------------------------------- own wire writer

struct Rec {
    owner: Vec<u8>,
    rtype: u16,
    ttl: u32,
    rdata: Vec<u8>,
}

const ZONE: &[u8] = b"\x02ex\x00";

fn rd_a(net: u8, m: u8) -> Vec<u8> {
    if net == 0 {
        vec![192, 0, 2, m]
    } else {
        vec![198, 51, 100, m]
    }
}
fn rd_rrsig(covered: u16, m: u8, n: u8) -> Vec<u8> {
    let mut v = Vec::new();
    v.extend_from_slice(&covered.to_be_bytes());
    v.push(13);
    v.push(2);
    v.extend_from_slice(&3600u32.to_be_bytes());
    v.extend_from_slice(&0x7000_0000u32.to_be_bytes());
    v.extend_from_slice(&0x6000_0000u32.to_be_bytes());
    v.extend_from_slice(&4711u16.to_be_bytes());
    v.extend_from_slice(ZONE);
    v.extend_from_slice(&[0xAB, m, n, 1, 2, 3, 4, 5]);
    v
}
fn ns_name(m: u8) -> Vec<u8> {
    let mut v = vec![2, b'n', b'0' + m];
    v.extend_from_slice(ZONE);
    v
}
fn rd_soa(m: u8, minimum: u32) -> Vec<u8> {
    let mut v = Vec::new();
    v.extend_from_slice(b"\x02ns\x02ex\x00");
    v.extend_from_slice(b"\x01h\x02ex\x00");
    v.extend_from_slice(&(m as u32).to_be_bytes());
    for x in [3600u32, 600, 86400, minimum] {
        v.extend_from_slice(&x.to_be_bytes());
    }
    v
}
fn rd_nsec3(m: u8) -> Vec<u8> {
    // SHA-1, no opt-out, 0 iterations, no salt, 20 octet next hashed owner, bitmap {A}
    let mut v = vec![1, 0, 0, 0, 0, 20];
    v.extend_from_slice(&[m; 20]);
    v.extend_from_slice(&[0, 1, 0x40]);
    v
}
fn rd_nsec() -> Vec<u8> {
    let mut v = Vec::new();
    v.extend_from_slice(b"\x01z\x02ex\x00");
    v.extend_from_slice(&[0, 6, 0x40, 0, 0, 0, 0, 3]);
    v
}

/// The scripted upstream: (header flags without echo bits, sections) or
/// None for a transport failure. `f` are the flags of the query as the
/// upstream saw it, `m` makes every response of a history unique.
fn render(kind: u8, qname: &[u8], qtype: u16, f: u8, m: u8) -> Option<(u16, [Vec<Rec>; 3])> {
    let asks = f & (AD | DO) != 0;
    let dnssec = f & DO != 0;
    let lname: Vec<u8> = qname.iter().map(|b| b.to_ascii_lowercase()).collect();
    let ans = |ttl: u32, n: u8| -> Rec {
        if qtype == T_RRSIG {
            Rec { owner: lname.clone(), rtype: T_RRSIG, ttl, rdata: rd_rrsig(T_A, m, n) }
        } else {
            Rec { owner: lname.clone(), rtype: T_A, ttl, rdata: rd_a(n, m) }
        }
    };
    // a signature over the answer RRset (not when the answer is itself RRSIG)
    let sig = |ttl: u32| -> Vec<Rec> {
        if qtype == T_RRSIG {
            vec![]
        } else {
            vec![Rec { owner: lname.clone(), rtype: T_RRSIG, ttl, rdata: rd_rrsig(T_A, m, 9) }]
        }
    };
    let ns = |ttl: u32| Rec { owner: ZONE.to_vec(), rtype: T_NS, ttl, rdata: ns_name(m) };
    let glue = |ttl: u32| Rec { owner: ns_name(m), rtype: T_A, ttl, rdata: rd_a(1, m) };
    let soa = |ttl: u32| Rec { owner: ZONE.to_vec(), rtype: T_SOA, ttl, rdata: rd_soa(m, ttl) };
    let mut h: u16 = 0;
    let mut s: [Vec<Rec>; 3] = [vec![], vec![], vec![]];
    match kind {
        0 => {
            h |= H_AA;
            s[0].push(ans(10, 0));
        }
        1 => {
            s[0].push(ans(5, 0));
            s[0].push(ans(20, 1));
        }
        2 => {
            s[0].push(ans(20, 0));
            s[1].push(ns(5));
            s[2].push(glue(20));
        }
        3 => {
            s[0].push(ans(20, 0));
            s[1].push(ns(20));
            s[2].push(glue(5));
        }
        4 => s[0].push(ans(1_000_000, 0)),
        5 => s[0].push(ans(0, 0)),
        6 => {
            h |= H_AA;
            s[1].push(soa(7));
        }
        7 => s[1].push(soa(5000)),
        8 => {
            h |= 3 | H_AA;
            s[1].push(soa(7));
        }
        9 => {
            h |= 3;
            s[1].push(soa(5000));
        }
        10 => h |= 3,
        11 => {
            s[1].push(ns(10));
            s[2].push(glue(10));
        }
        12 => {
            s[1].push(ns(2_000_000));
            s[2].push(glue(2_000_000));
        }
        13 => h |= 2,
        14 => {
            h |= H_TC;
            s[0].push(ans(10, 0));
        }
        15 => return None,
        16 => {
            s[0].push(ans(10, 0));
            if dnssec {
                s[0].extend(sig(10));
            }
            if asks {
                h |= H_AD;
            }
        }
        17 => {
            s[0].push(ans(10, 0));
            s[0].extend(sig(10));
            h |= H_AD;
        }
        18 => {
            s[0].push(ans(20, 0));
            if dnssec {
                s[0].extend(sig(5));
            }
            if asks {
                h |= H_AD;
            }
        }
        19 => {
            s[1].push(soa(7));
            if dnssec {
                s[1].push(Rec { owner: ZONE.to_vec(), rtype: T_RRSIG, ttl: 7, rdata: rd_rrsig(T_SOA, m, 7) });
                s[1].push(Rec { owner: lname.clone(), rtype: T_NSEC, ttl: 7, rdata: rd_nsec() });
                s[1].push(Rec { owner: lname.clone(), rtype: T_RRSIG, ttl: 7, rdata: rd_rrsig(T_NSEC, m, 8) });
            }
            if asks {
                h |= H_AD;
            }
        }
        20 => {}
        21 => {
            h |= 5;
            s[1].push(soa(5000));
        }
        26 => {
            s[0].push(ans(10, 0));
            if dnssec {
                s[0].extend(sig(10));
            }
        }
        27 | 29 => {
            if kind == 29 {
                h |= 3;
            }
            s[1].push(soa(7));
            if dnssec {
                let n3: Vec<u8> = [&b"\x04h3h3"[..], ZONE].concat();
                s[1].push(Rec { owner: ZONE.to_vec(), rtype: T_RRSIG, ttl: 7, rdata: rd_rrsig(T_SOA, m, 7) });
                s[1].push(Rec { owner: n3.clone(), rtype: T_NSEC3, ttl: 7, rdata: rd_nsec3(m) });
                s[1].push(Rec { owner: n3, rtype: T_RRSIG, ttl: 7, rdata: rd_rrsig(T_NSEC3, m, 8) });
            }
        }
        28 => {
            h |= 3;
            s[1].push(soa(7));
            if dnssec {
                s[1].push(Rec { owner: ZONE.to_vec(), rtype: T_RRSIG, ttl: 7, rdata: rd_rrsig(T_SOA, m, 7) });
                s[1].push(Rec { owner: ZONE.to_vec(), rtype: T_NSEC, ttl: 7, rdata: rd_nsec() });
                s[1].push(Rec { owner: ZONE.to_vec(), rtype: T_RRSIG, ttl: 7, rdata: rd_rrsig(T_NSEC, m, 8) });
            }
            if asks {
                h |= H_AD;
            }
        }
        30 => {
            s[0].push(ans(10, 0));
            if asks {
                h |= H_AD;
            }
        }
        31 | 32 => {
            if kind == 32 {
                h |= 3;
            }
            s[1].push(soa(7));
            if asks {
                h |= H_AD;
            }
        }
        33 => {
            s[0].push(ans(10, 0));
            s[1].push(ns(10));
            s[2].push(glue(10));
            if dnssec {
                s[0].extend(sig(10));
                s[1].push(Rec { owner: ZONE.to_vec(), rtype: T_RRSIG, ttl: 10, rdata: rd_rrsig(T_NS, m, 6) });
                s[2].push(Rec { owner: ns_name(m), rtype: T_RRSIG, ttl: 10, rdata: rd_rrsig(T_A, m, 5) });
            }
        }
        34 => s[0].push(ans(10_000_000, 0)),
        35 => s[1].push(soa(100_000)),
        36 => {
            h |= 3;
            s[1].push(soa(100_000));
        }
        22 | 24 => {
            if kind == 24 {
                h |= 3;
            }
            s[1].push(ns(5000));
            s[1].push(soa(5000));
        }
        23 | 25 => {
            if kind == 25 {
                h |= 3;
            }
            s[1].push(soa(5000));
            s[1].push(ns(5000));
        }
        _ => unreachable!(),
    }
    Some((h, s))
}

fn build_message(id: u16, flags: u16, qs: &[(&[u8], u16, u16)], secs: &[Vec<Rec>; 3], opt_do: Option<bool>) -> Vec<u8> {
    build_message_opt(id, flags, qs, secs, opt_do, &[])
}

/// As build_message; the OPT record (if any) carries `opt_rdata`.
fn build_message_opt(id: u16, flags: u16, qs: &[(&[u8], u16, u16)], secs: &[Vec<Rec>; 3], opt_do: Option<bool>, opt_rdata: &[u8]) -> Vec<u8> {
    let mut v = Vec::new();
    v.extend_from_slice(&id.to_be_bytes());
    v.extend_from_slice(&flags.to_be_bytes());
    v.extend_from_slice(&(qs.len() as u16).to_be_bytes());
    v.extend_from_slice(&(secs[0].len() as u16).to_be_bytes());
    v.extend_from_slice(&(secs[1].len() as u16).to_be_bytes());
    v.extend_from_slice(&((secs[2].len() + opt_do.is_some() as usize) as u16).to_be_bytes());
    for (qname, qtype, qclass) in qs {
        v.extend_from_slice(qname);
        v.extend_from_slice(&qtype.to_be_bytes());
        v.extend_from_slice(&qclass.to_be_bytes());
    }
    for s in secs {
        for r in s {
            v.extend_from_slice(&r.owner);
            v.extend_from_slice(&r.rtype.to_be_bytes());
            v.extend_from_slice(&1u16.to_be_bytes());
            v.extend_from_slice(&r.ttl.to_be_bytes());
            v.extend_from_slice(&(r.rdata.len() as u16).to_be_bytes());
            v.extend_from_slice(&r.rdata);
        }
    }
    if let Some(d) = opt_do {
        v.push(0);
        v.extend_from_slice(&T_OPT.to_be_bytes());
        v.extend_from_slice(&1232u16.to_be_bytes());
        v.extend_from_slice(&(if d { 0x8000u32 } else { 0 }).to_be_bytes());
        v.extend_from_slice(&(opt_rdata.len() as u16).to_be_bytes());
        v.extend_from_slice(opt_rdata);
    }
    v
}

/// Builds the client's request; Err if the ComposeRequest accessors do not
/// read back what was set.
fn h_bits(f3: u8) -> u16 {
    let mut flags = 0;
    if f3 & RD != 0 {
        flags |= H_RD;
    }
    if f3 & AD != 0 {
        flags |= H_AD;
    }
    if f3 & CD != 0 {
        flags |= H_CD;
    }
    flags
}

/// A base message with one of the ADDS additional sections.
fn build_base(id: u16, flags: u16, qs: &[(&[u8], u16, u16)], add: u8, deco: u8) -> Vec<u8> {
    let mut v = build_message(id, flags, qs, &[vec![], vec![], vec![]], None);
    let rec = |v: &mut Vec<u8>| {
        v.extend_from_slice(b"\x01x\x02ex\x00");
        v.extend_from_slice(&T_A.to_be_bytes());
        v.extend_from_slice(&1u16.to_be_bytes());
        v.extend_from_slice(&60u32.to_be_bytes());
        v.extend_from_slice(&4u16.to_be_bytes());
        v.extend_from_slice(&[192, 0, 2, 99]);
    };
    let opt = |v: &mut Vec<u8>, d: bool| {
        // (payload size, TTL field besides DO, options) of the decoration
        let (payload, ttl, opts): (u16, u32, Vec<EO>) = match deco {
            0 => (4096, 0, vec![]),
            1 => (0xFFFF, 0xFF01_0000, vec![EO::Cookie, EO::Nsid(b"")]),
            2 => (0x8000, 0x0000_7FFF, vec![EO::Nsid(b"")]),
            _ => unreachable!(),
        };
        let mut rdata = Vec::new();
        for o in &opts {
            let (code, data) = eo_wire(o);
            rdata.extend_from_slice(&code.to_be_bytes());
            rdata.extend_from_slice(&(data.len() as u16).to_be_bytes());
            rdata.extend_from_slice(&data);
        }
        v.push(0);
        v.extend_from_slice(&T_OPT.to_be_bytes());
        v.extend_from_slice(&payload.to_be_bytes());
        v.extend_from_slice(&(ttl | if d { 0x8000u32 } else { 0 }).to_be_bytes());
        v.extend_from_slice(&(rdata.len() as u16).to_be_bytes());
        v.extend_from_slice(&rdata);
    };
    let n: u16 = match add {
        0 => 0,
        1 | 2 => {
            opt(&mut v, add == 2);
            1
        }
        3 => {
            rec(&mut v);
            1
        }
        4 | 5 => {
            rec(&mut v);
            opt(&mut v, add == 5);
            2
        }
        6 => {
            opt(&mut v, true);
            rec(&mut v);
            2
        }
        _ => unreachable!(),
    };
    v[10..12].copy_from_slice(&n.to_be_bytes());
    v
}

/// Builds a request along one construction. Nothing is read back here: what
/// the request effectively asks is read from the octets a transport sends.
fn build_request_cons(q: u8, f: u8, step: usize, c: Cons, eo: u8) -> Result<RequestMessage<Vec<u8>>, String> {
    let form = &FORMS[q as usize];
    let lay = eopt(eo);
    let f3 = f & (RD | CD | AD);
    let base_f3 = match c.route {
        0 | 2 => f3,
        1 | 3 => 0,
        _ => !f3 & (RD | CD | AD),
    };
    let bytes = build_base(0x1000 + step as u16, ((form.opcode as u16) << 11) | h_bits(base_f3), form.qs, c.add, lay.base);
    let msg = Message::from_octets(bytes).expect("harness request is a message");
    let mut req = RequestMessage::new(msg).map_err(|e| format!("RequestMessage::new refused {}: {e:?}", form.text))?;
    if lay.first {
        apply_eopts(&mut req, lay)?;
    }
    if c.route != 0 {
        let h = req.header_mut();
        h.set_rd(f & RD != 0);
        h.set_ad(f & AD != 0);
        h.set_cd(f & CD != 0);
        if f & DO != 0 || c.route >= 3 {
            req.set_dnssec_ok(f & DO != 0);
        }
    }
    if !lay.first {
        apply_eopts(&mut req, lay)?;
    }
    Ok(req)
}

/// The octets a transport of the given style puts on the wire for `req`
/// (dgram.rs: set_random_id, set_udp_payload_size, to_message; stream.rs:
/// set_id, append_message). The transport's ID differs from the caller's.
fn transport_wire(req: &RequestMessage<Vec<u8>>, style: u8) -> Result<Vec<u8>, String> {
    let mut r = req.clone();
    let id = r.header().id() ^ 0x5A5A;
    r.header_mut().set_id(id);
    match style {
        0 => {
            r.set_udp_payload_size(1232);
            r.to_message().map(|m| m.as_slice().to_vec()).map_err(|e| format!("to_message failed: {e:?}"))
        }
        1 => r.to_message().map(|m| m.as_slice().to_vec()).map_err(|e| format!("to_message failed: {e:?}")),
        _ => r.append_message(Vec::new()).map(|b| b.finish()).map_err(|e| format!("append_message failed: {e:?}")),
    }
}

/// RD/CD/AD/DO as the harness's own reader finds them in a message (the
/// whole additional section is scanned for the OPT record).
fn wire_flags(p: &PMsg) -> u8 {
    let mut f = 0u8;
    if p.flags & H_RD != 0 {
        f |= RD;
    }
    if p.flags & H_CD != 0 {
        f |= CD;
    }
    if p.flags & H_AD != 0 {
        f |= AD;
    }
    if p.opt_do == Some(true) {
        f |= DO;
    }
    f
}

fn build_request(q: u8, f: u8, step: usize, mode: u8, eo: u8) -> Result<RequestMessage<Vec<u8>>, String> {
    if let Some(c) = cons_of(mode) {
        return build_request_cons(q, f, step, c, eo);
    }
    let form = &FORMS[q as usize];
    let mut flags = (form.opcode as u16) << 11;
    if mode == 0 {
        if f & RD != 0 {
            flags |= H_RD;
        }
        if f & AD != 0 {
            flags |= H_AD;
        }
        if f & CD != 0 {
            flags |= H_CD;
        }
    }
    let bytes = build_message(0x1000 + step as u16, flags, form.qs, &[vec![], vec![], vec![]], None);
    let msg = Message::from_octets(bytes).expect("harness request is a message");
    let mut req = RequestMessage::new(msg).map_err(|e| format!("RequestMessage::new refused {}: {e:?}", form.text))?;
    if mode != 0 {
        let h = req.header_mut();
        h.set_rd(f & RD != 0);
        h.set_ad(f & AD != 0);
        h.set_cd(f & CD != 0);
    }
    if mode == 2 {
        req.set_udp_payload_size(1400);
        let pad = Padding::from_octets([0u8; 4]).expect("padding");
        req.add_opt(&pad).map_err(|_| "add_opt failed".to_string())?;
    }
    if f & DO != 0 {
        req.set_dnssec_ok(true);
    }
    let h = req.header();
    if h.rd() != (f & RD != 0) || h.ad() != (f & AD != 0) || h.cd() != (f & CD != 0) || req.dnssec_ok() != (f & DO != 0) {
        return Err("ComposeRequest::header()/dnssec_ok() do not read back the flags that were set".into());
    }
    Ok(req)
}

// ---------------------------------------------------------------- own wire reader (canonical form)

#[derive(Clone, Debug, PartialEq, Eq, PartialOrd, Ord)]
struct CRec {
    sec: u8,
    owner: Vec<u8>, // lower-cased uncompressed wire
    rtype: u16,
    class: u16,
    rdata: Vec<u8>, // names decompressed
    ttl: u32,
}
impl CRec {
    fn key(&self) -> (u8, &[u8], u16, u16, &[u8]) {
        (self.sec, &self.owner, self.rtype, self.class, &self.rdata)
    }
}

#[derive(Clone, Debug)]
struct PMsg {
    flags: u16,
    /// the whole question section, names lower-cased
    questions: Vec<(Vec<u8>, u16, u16)>,
    qtype: u16,
    qclass: u16,
    recs: Vec<CRec>, // sorted, OPT excluded
    opt_do: Option<bool>,
    /// RDATA of the (last) OPT record
    opt_rdata: Option<Vec<u8>>,
    /// number of OPT records, and whether an OPT record is preceded by
    /// another record of the additional section
    n_opt: usize,
    opt_not_first: bool,
}

fn lower_wire(labels: &[Vec<u8>]) -> Vec<u8> {
    let mut v = Vec::new();
    for l in labels {
        v.push(l.len() as u8);
        v.extend(l.iter().map(|b| b.to_ascii_lowercase()));
    }
    v.push(0);
    v
}

fn canon_rdata(msg: &[u8], rtype: u16, pos: usize, rdata: &[u8]) -> Result<Vec<u8>, String> {
    let mut ptrs = Vec::new();
    let end = pos + rdata.len();
    let mut out = Vec::new();
    let mut name_at = |p: usize, out: &mut Vec<u8>| -> Result<usize, String> {
        let (labels, after) = read_name(msg, p, &mut ptrs)?;
        out.extend_from_slice(&lower_wire(&labels));
        if after > end {
            return Err("name overruns rdata".into());
        }
        Ok(after)
    };
    match rtype {
        T_NS | T_CNAME => {
            let p = name_at(pos, &mut out)?;
            if p != end {
                return Err("trailing rdata".into());
            }
        }
        T_SOA => {
            let p = name_at(pos, &mut out)?;
            let p = name_at(p, &mut out)?;
            out.extend_from_slice(&msg[p..end]);
        }
        T_RRSIG => {
            if rdata.len() < 18 {
                return Err("short RRSIG".into());
            }
            out.extend_from_slice(&rdata[..18]);
            let p = name_at(pos + 18, &mut out)?;
            out.extend_from_slice(&msg[p..end]);
        }
        T_NSEC => {
            let p = name_at(pos, &mut out)?;
            out.extend_from_slice(&msg[p..end]);
        }
        _ => out.extend_from_slice(rdata),
    }
    Ok(out)
}

fn parse(bytes: &[u8]) -> Result<PMsg, String> {
    let raw = read_message(bytes)?;
    if raw.end != bytes.len() {
        return Err("trailing octets".into());
    }
    let mut recs = Vec::new();
    let mut opt_do = None;
    let mut opt_rdata = None;
    let (mut n_opt, mut opt_not_first) = (0usize, false);
    for s in 0..3 {
        for (i, r) in raw.sections[s].iter().enumerate() {
            if r.rtype == T_OPT {
                opt_do = Some(r.ttl & 0x8000 != 0);
                opt_rdata = Some(r.rdata.clone());
                n_opt += 1;
                opt_not_first |= s == 2 && i > 0;
                continue;
            }
            recs.push(CRec {
                sec: s as u8,
                owner: lower_wire(&r.owner),
                rtype: r.rtype,
                class: r.class,
                rdata: canon_rdata(bytes, r.rtype, r.rdata_pos, &r.rdata)?,
                ttl: r.ttl,
            });
        }
    }
    recs.sort();
    let (qtype, qclass) = match raw.questions.first() {
        Some(q) => (q.qtype, q.qclass),
        None => (0, 0),
    };
    let questions = raw.questions.iter().map(|q| (lower_wire(&q.qname), q.qtype, q.qclass)).collect();
    Ok(PMsg { flags: raw.flags, questions, qtype, qclass, recs, opt_do, opt_rdata, n_opt, opt_not_first })
}

// ---------------------------------------------------------------- scripted upstream

struct LogEntry {
    step: usize,
    t_ms: u64,
    ident: Ident,
    /// the flags the upstream found in the octets it received
    f: u8,
    /// the request had its OPT record behind another additional record
    opt_not_first: bool,
    /// options in the OPT record of the request as received, in wire order: (code, length)
    req_opts: Vec<(u16, usize)>,
    /// octets of options the upstream put into the OPT record of its answer
    resp_opt_len: usize,
    kind: u8,
    /// what the upstream returned: parsed message, or the error's Debug text
    res: Result<PMsg, String>,
    raw: Vec<u8>,
}

struct Shared {
    kind: u8,
    /// Some(style): the upstream is a transport of that style; None: the
    /// request is serialised as it is handed over
    style: Option<u8>,
    /// EDNS layout of the step being executed (request constructions)
    eo: u8,
    step: usize,
    now_ms: u64,
    log: Vec<LogEntry>,
    bad: Option<String>,
}

#[derive(Clone)]
struct Upstream(Arc<Mutex<Shared>>);

#[derive(Debug)]
struct Scripted(Result<Message<Bytes>, Error>);

impl GetResponse for Scripted {
    fn get_response(
        &mut self,
    ) -> Pin<Box<dyn Future<Output = Result<Message<Bytes>, Error>> + Send + Sync + '_>> {
        Box::pin(std::future::ready(self.0.clone()))
    }
}

impl SendRequest<RequestMessage<Vec<u8>>> for Upstream {
    fn send_request(&self, req: RequestMessage<Vec<u8>>) -> Box<dyn GetResponse + Send + Sync> {
        let mut sh = self.0.lock().unwrap();
        // what the upstream "receives" are the octets a transport sends
        let sent = match sh.style {
            None => req.to_vec().map_err(|e| format!("{e:?}")),
            Some(s) => transport_wire(&req, s),
        };
        let bytes = match sent {
            Ok(b) => b,
            Err(e) => {
                sh.bad = Some(format!("forwarded request does not compose: {e}"));
                return Box::new(Scripted(Err(Error::FormError)));
            }
        };
        let p = match parse(&bytes) {
            Ok(p) => p,
            Err(e) => {
                sh.bad = Some(format!("forwarded request unparseable: {e}"));
                return Box::new(Scripted(Err(Error::FormError)));
            }
        };
        if p.n_opt > 1 {
            sh.bad = Some(format!("forwarded request carries {} OPT records (RFC 6891 6.1.1: at most one)", p.n_opt));
        }
        match sh.style {
            None => {
                // the serialisation a real transport uses must say the same
                match req.append_message(Vec::new()).map(|b| b.finish()) {
                    Ok(alt) => match parse(&alt) {
                        Ok(a) if a.flags == p.flags && a.questions == p.questions && a.opt_do == p.opt_do && a.recs == p.recs => {}
                        other => sh.bad = Some(format!("append_message and to_vec disagree: {:?} vs {:?}", other.map(|a| (a.flags, a.questions, a.opt_do)), (p.flags, &p.questions, p.opt_do))),
                    },
                    Err(e) => sh.bad = Some(format!("forwarded request: append_message failed: {e:?}")),
                }
            }
            Some(s) => {
                // whichever transport carries the request, the upstream must be asked the same
                for s2 in (0..N_STYLE).filter(|s2| *s2 != s) {
                    match transport_wire(&req, s2).and_then(|b| parse(&b)) {
                        Ok(a) if a.flags == p.flags && a.questions == p.questions && wire_flags(&a) == wire_flags(&p) && a.recs == p.recs && sorted_options(&a) == sorted_options(&p) => {}
                        other => {
                            sh.bad = Some(format!(
                                "transports disagree on what is sent for one request: [{}] sends {:?}, [{}] sends {:?}",
                                STYLES[s2 as usize],
                                other.map(|a| (a.flags, a.questions, a.opt_do)),
                                STYLES[s as usize],
                                (p.flags, &p.questions, p.opt_do)
                            ))
                        }
                    }
                }
            }
        }
        if sh.style.is_some() {
            if let Err(e) = check_wire_options(&p, sh.eo) {
                sh.bad = Some(format!("forwarded request: {e}"));
            }
        }
        let req_opts: Vec<(u16, usize)> = p.opt_rdata.as_deref().and_then(|r| read_options(r).ok()).unwrap_or_default().iter().map(|(c, d)| (*c, d.len())).collect();
        // an upstream that copies the options it received into its answer
        let echo: Vec<u8> = if sh.eo & EO_ECHO != 0 { p.opt_rdata.clone().unwrap_or_default() } else { vec![] };
        let raw = read_message(&bytes).unwrap();
        let qwires: Vec<(Vec<u8>, u16, u16)> = raw.questions.iter().map(|q| (mc::wire::to_wire(&q.qname), q.qtype, q.qclass)).collect();
        let qrefs: Vec<(&[u8], u16, u16)> = qwires.iter().map(|(n, t, c)| (&n[..], *t, *c)).collect();
        // the records are about the first question (a.ex/A if there is none)
        let (qname_wire, qtype0): (Vec<u8>, u16) = match qwires.first() {
            Some((n, t, _)) => (n.clone(), *t),
            None => (A_LC.to_vec(), T_A),
        };
        let f = wire_flags(&p);
        let m = sh.step as u8 + 1;
        let kind = sh.kind;
        let (res, logged, rawout) = match render(kind, &qname_wire, qtype0, f, m) {
            None => {
                let e = Error::ConnectionClosed;
                let txt = format!("{e:?}");
                (Err(e), Err(txt), vec![])
            }
            Some((h, secs)) => {
                let flags = H_QR | H_RA | h | (p.flags & (H_RD | H_CD | 0x7800));
                let out = build_message_opt(raw.id, flags, &qrefs, &secs, p.opt_do, &echo);
                let parsed = parse(&out).expect("harness response parses");
                let msg = Message::from_octets(Bytes::from(out.clone())).expect("harness response is a message");
                (Ok(msg), Ok(parsed), out)
            }
        };
        let (step, t_ms) = (sh.step, sh.now_ms);
        let ident: Ident = (((p.flags >> 11) & 0xF) as u8, p.questions.clone());
        let resp_opt_len = if p.opt_do.is_some() { echo.len() } else { 0 };
        sh.log.push(LogEntry { step, t_ms, ident, f, opt_not_first: p.opt_not_first, req_opts, resp_opt_len, kind, res: logged, raw: rawout });
        Box::new(Scripted(res))
    }
}

// ---------------------------------------------------------------- executing one history on the real cache

struct StepObs {
    forwarded: bool,
    res: Result<Vec<u8>, String>,
    t_ms: u64,
    /// for request constructions: the flags this request carries on the
    /// wire, read by the harness from what a transport would send for it
    eff_f: Option<u8>,
}

struct Run {
    obs: Vec<StepObs>,
    log: Vec<LogEntry>,
    bad: Option<String>,
}

fn run_history(cfg_i: usize, steps: &[Step]) -> Result<Run, String> {
    guard(|| {
        let rt = tokio::runtime::Builder::new_current_thread()
            .enable_time()
            .start_paused(true)
            .build()
            .expect("runtime");
        let shared = Arc::new(Mutex::new(Shared { kind: 0, style: None, eo: 0, step: 0, now_ms: 0, log: Vec::new(), bad: None }));
        let sh2 = shared.clone();
        let obs = rt.block_on(async move {
            if CFGS[cfg_i].setup == Setup::New {
                // first entry point, upstream used directly
                let conn = cache::Connection::new(Upstream(sh2.clone()));
                drive(&conn, steps, &sh2).await
            } else {
                // second entry point, upstream behind Box (request.rs Box<T> impl)
                let conn = cache::Connection::with_config(Box::new(Upstream(sh2.clone())), make_cfg(cfg_i));
                drive(&conn, steps, &sh2).await
            }
        });
        drop(rt);
        let mut s = shared.lock().unwrap();
        Run { obs, log: std::mem::take(&mut s.log), bad: s.bad.take() }
    })
}

async fn drive<C: SendRequest<RequestMessage<Vec<u8>>>>(conn: &C, steps: &[Step], sh2: &Arc<Mutex<Shared>>) -> Vec<StepObs> {
    {
        {
            let mut obs = Vec::with_capacity(steps.len());
            let mut now = 0u64;
            for (i, st) in steps.iter().enumerate() {
                if st.adv_ms > 0 {
                    tokio::time::advance(Duration::from_millis(st.adv_ms)).await;
                }
                now += st.adv_ms;
                let before = {
                    let mut s = sh2.lock().unwrap();
                    s.kind = st.ans;
                    s.style = cons_of(st.mode).map(|c| c.style);
                    s.eo = st.eo;
                    s.step = i;
                    s.now_ms = now;
                    s.log.len()
                };
                let req = match build_request(st.q, st.f, i, st.mode, st.eo) {
                    Ok(r) => r,
                    Err(e) => {
                        sh2.lock().unwrap().bad = Some(e.clone());
                        obs.push(StepObs { forwarded: true, res: Err(e), t_ms: now, eff_f: None });
                        continue;
                    }
                };
                let eff_f = match cons_of(st.mode) {
                    None => None,
                    Some(c) => match transport_wire(&req, c.style).and_then(|b| parse(&b)) {
                        Ok(p) => {
                            if let Err(e) = check_wire_options(&p, st.eo) {
                                sh2.lock().unwrap().bad = Some(format!("request as a transport sends it: {e}"));
                            }
                            Some(wire_flags(&p))
                        }
                        Err(e) => {
                            sh2.lock().unwrap().bad = Some(format!("request does not serialise: {e}"));
                            obs.push(StepObs { forwarded: true, res: Err(e), t_ms: now, eff_f: None });
                            continue;
                        }
                    },
                };
                let mut pending = conn.send_request(req);
                let res = pending.get_response().await;
                drop(pending);
                let after = sh2.lock().unwrap().log.len();
                obs.push(StepObs {
                    forwarded: after > before,
                    res: match res {
                        Ok(m) => Ok(m.as_slice().to_vec()),
                        Err(e) => Err(format!("{e:?}")),
                    },
                    t_ms: now,
                    eff_f,
                });
            }
            obs
        }
    }
}

// ---------------------------------------------------------------- the reference

const CLASSES: [&str; 7] = ["positive", "nodata", "nxdomain", "delegation", "error-rcode", "transport-failure", "noerror-neither-answer-nor-soa-nor-ns"];

fn is_dnssec_type(t: u16) -> bool {
    t == T_RRSIG || t == T_NSEC || t == T_NSEC3
}

/// RFC 2308 classification of an upstream response.
fn ref_class(m: &PMsg) -> usize {
    match m.flags & 0xF {
        0 => {
            if m.recs.iter().any(|r| r.sec == 0 && r.rtype == m.qtype && r.class == m.qclass) {
                0
            } else if m.recs.iter().any(|r| r.sec == 1 && r.rtype == T_SOA) {
                1
            } else if m.recs.iter().any(|r| r.sec == 1 && r.rtype == T_NS) {
                3
            } else {
                6
            }
        }
        3 => 2,
        _ => 4,
    }
}

fn class_cap(cfg: &Cfg, class: usize) -> (u64, &'static str) {
    let mv = cfg.max_validity;
    let (c, name) = match class {
        0 | 6 => (mv, "max_validity"),
        1 => (cfg.nodata, "max_nodata_validity"),
        2 => (cfg.nxdomain, "max_nxdomain_validity"),
        3 => (cfg.delegation, "max_delegation_validity"),
        4 => (cfg.misc_error, "misc_error_duration"),
        _ => return (cfg.transport_failure, "transport_failure_duration"),
    };
    if mv < c {
        (mv, "max_validity")
    } else {
        (c, name)
    }
}

struct Probe<'a> {
    ident: &'a Ident,
    /// type of the first question (0 if none)
    qtype: u16,
    f: u8,
    now_ms: u64,
}

/// Outcome bits of an accepted cache hit.
const O_STRIPPED: u32 = 1 << 3;
const O_RD_FROM_RD1: u32 = 1 << 4;
const O_OTHER_FLAGS: u32 = 1 << 5;
const O_EXACT_BOUND: u32 = 1 << 6;
const O_AD_CLEARED: u32 = 1 << 7;
const O_AA_CLEARED: u32 = 1 << 8;
const O_TC: u32 = 1 << 9;
const O_SRC_EDNS_OPTIONS: u32 = 1 << 10;

struct Fail {
    stage: u8,
    sig: String,
    what: String,
}

fn fail(stage: u8, sig: impl Into<String>, what: impl Into<String>) -> Fail {
    Fail { stage, sig: sig.into(), what: what.into() }
}

/// Is `served` (returned without consulting the upstream) justified by the
/// earlier upstream response `e`?
fn check_candidate(cfg: &Cfg, e: &LogEntry, p: &Probe, served: &Result<PMsg, String>) -> Result<u32, Fail> {
    // 1. same question
    if e.ident != *p.ident {
        return Err(fail(1, "other-question", format!("only an upstream response for another question exists (step {})", e.step)));
    }
    let el_ms = p.now_ms - e.t_ms;
    let (fl, ce) = (el_ms / 1000, el_ms.div_ceil(1000));
    let mut out: u32 = 0;

    // 2. identity of content
    let mut stripped = false;
    let expect: Vec<&CRec>;
    match (&e.res, served) {
        (Err(a), Err(b)) => {
            if a != b {
                return Err(fail(2, "content|different-error", format!("served error {b}, upstream error was {a}")));
            }
            expect = vec![];
        }
        (Ok(_), Err(b)) => return Err(fail(2, "content|error-instead-of-message", format!("served error {b} but upstream had answered with a message"))),
        (Err(a), Ok(_)) => return Err(fail(2, "content|message-instead-of-error", format!("served a message but upstream had failed with {a}"))),
        (Ok(src), Ok(s)) => {
            if src.flags & 0xF != s.flags & 0xF {
                return Err(fail(2, "content|rcode-differs", format!("served rcode {} upstream rcode {}", s.flags & 0xF, src.flags & 0xF)));
            }
            let full: Vec<&CRec> = src.recs.iter().collect();
            let strip_all: Vec<&CRec> = src.recs.iter().filter(|r| !is_dnssec_type(r.rtype)).collect();
            let strip_unreq: Vec<&CRec> = src.recs.iter().filter(|r| !is_dnssec_type(r.rtype) || r.rtype == p.qtype).collect();
            let same = |a: &Vec<&CRec>| a.len() == s.recs.len() && a.iter().zip(&s.recs).all(|(x, y)| x.key() == y.key());
            if same(&full) {
                expect = full;
            } else if same(&strip_unreq) {
                stripped = true;
                expect = strip_unreq;
            } else if same(&strip_all) {
                stripped = true;
                expect = strip_all;
            } else {
                return Err(fail(2, "content|records-differ-from-upstream-response", format!("served records are neither the records of upstream response of step {} nor those minus RRSIG/NSEC/NSEC3", e.step)));
            }
        }
    }

    // 3. flag lattice (cache.rs module documentation)
    if (e.f ^ p.f) & CD != 0 {
        return Err(fail(3, "flags|cd-partition-crossed", format!("query CD={} served from response to CD={}", p.f & CD != 0, e.f & CD != 0)));
    }
    if p.f & RD != 0 && e.f & RD == 0 {
        return Err(fail(3, "flags|rd1-served-from-rd0", "query with RD set served from the response to a query with RD clear"));
    }
    if p.f & DO != 0 && e.f & DO == 0 {
        return Err(fail(3, "flags|do-served-from-nondo", "query with DO set served from the response to a query without DO"));
    }
    let p_asks = p.f & (AD | DO) != 0;
    let e_asks = e.f & (AD | DO) != 0;
    if p_asks && !e_asks {
        return Err(fail(3, "flags|ad-query-served-from-non-ad-response", "query with AD set served from the response to a query with neither AD nor DO"));
    }
    if stripped && !(e.f & DO != 0 && p.f & DO == 0) {
        return Err(fail(3, "content|dnssec-records-removed-without-do-downgrade", "DNSSEC records were removed although the query had the same DO state as the cached query"));
    }
    if e.f != p.f {
        out |= O_OTHER_FLAGS;
    }
    if p.f & RD == 0 && e.f & RD != 0 {
        out |= O_RD_FROM_RD1;
    }
    if stripped {
        out |= O_STRIPPED;
    }
    if e.resp_opt_len > 0 {
        out |= O_SRC_EDNS_OPTIONS;
    }

    // 4. no DNSSEC exposure
    if let (Ok(src), Ok(s)) = (&e.res, served) {
        if p.f & DO == 0 && e.f & DO != 0 {
            if let Some(r) = s.recs.iter().find(|r| is_dnssec_type(r.rtype) && r.rtype != p.qtype) {
                return Err(fail(4, "exposed|dnssec-records-to-non-do-query", format!("record of type {} served to a query without DO from a DO response", r.rtype)));
            }
        }
        let (sad, srcad) = (s.flags & H_AD != 0, src.flags & H_AD != 0);
        if sad && !p_asks && e_asks {
            return Err(fail(4, "exposed|ad-bit-to-query-without-ad-and-do", "AD set in a response served to a query with neither AD nor DO"));
        }
        if sad && !srcad {
            return Err(fail(4, "header|ad-set-but-upstream-had-it-clear", "AD set although the upstream response had AD clear"));
        }
        if !sad && srcad {
            if p_asks {
                return Err(fail(4, "header|ad-lost-for-asking-query", "AD cleared although the query asked for it and upstream had set it"));
            }
            out |= O_AD_CLEARED;
        }
    }

    // 5. freshness
    let class = match &e.res {
        Ok(src) => ref_class(src),
        Err(_) => 5,
    };
    out |= class as u32;
    if let Ok(src) = &e.res {
        if src.flags & H_TC != 0 {
            out |= O_TC;
            if !cfg.cache_truncated {
                return Err(fail(5, "truncated|served-from-cache-with-cache_truncated-off", "a truncated response was served from the cache although cache_truncated is off"));
            }
        }
    }
    let (cap, capname) = class_cap(cfg, class);
    let min_ttl = expect.iter().map(|r| r.ttl as u64).min();
    let (bound, which) = match min_ttl {
        Some(t) if t < cap => (t, "smallest-ttl"),
        _ => (cap, capname),
    };
    if el_ms > bound * 1000 {
        return Err(fail(
            5,
            format!("stale|class={}|limit={}", CLASSES[class], which),
            format!("served {} ms after the upstream response of step {}, but {} = {} s", el_ms, e.step, which, bound),
        ));
    }
    if el_ms == bound * 1000 {
        out |= O_EXACT_BOUND;
    }

    // 6. TTLs: original minus elapsed, never more
    if let Ok(s) = served {
        for (x, y) in expect.iter().zip(&s.recs) {
            let ok = [fl, ce].iter().any(|d| (x.ttl as u64).checked_sub(*d) == Some(y.ttl as u64));
            if !ok {
                let sig = if y.ttl > x.ttl {
                    "ttl|increased"
                } else if y.ttl == x.ttl {
                    "ttl|not-decremented"
                } else {
                    "ttl|wrong-amount"
                };
                return Err(fail(6, sig, format!("record type {} upstream TTL {} served with TTL {} after {} ms", x.rtype, x.ttl, y.ttl, el_ms)));
            }
        }
    }

    // 7. the rest of the message
    if let (Ok(src), Ok(s)) = (&e.res, served) {
        if s.flags & H_QR == 0 || s.flags & 0x7800 != src.flags & 0x7800 {
            return Err(fail(7, "header|qr-or-opcode", "QR/opcode differ from the upstream response"));
        }
        if (s.flags ^ src.flags) & H_TC != 0 {
            return Err(fail(7, "header|tc", "TC differs from the upstream response"));
        }
        if (s.flags ^ src.flags) & H_RA != 0 {
            return Err(fail(7, "header|ra", "RA differs from the upstream response"));
        }
        if (s.flags ^ src.flags) & H_CD != 0 {
            return Err(fail(7, "header|cd", "CD differs from the upstream response"));
        }
        if s.flags & H_AA != 0 && src.flags & H_AA == 0 {
            return Err(fail(7, "header|aa-set", "AA set although upstream had it clear"));
        }
        if s.flags & H_AA == 0 && src.flags & H_AA != 0 {
            out |= O_AA_CLEARED;
        }
        let srd = s.flags & H_RD != 0;
        if srd != (src.flags & H_RD != 0) && srd != (p.f & RD != 0) {
            return Err(fail(7, "header|rd", "RD is neither the upstream's nor the query's"));
        }
        if s.questions != p.ident.1 || ((s.flags >> 11) & 0xF) as u8 != p.ident.0 {
            return Err(fail(7, "question|not-the-query's", "the question section of the served response is not the query's question"));
        }
    }
    Ok(out)
}

enum Verdict {
    Forwarded,
    /// accepted cache hit: (outcome code, kind of the upstream answer used)
    Hit(u32, u8),
    Bad(String, String),
}

fn judge_step(cfg: &Cfg, steps: &[Step], run: &Run, i: usize) -> Verdict {
    let o = &run.obs[i];
    if o.forwarded {
        return Verdict::Forwarded;
    }
    let served: Result<PMsg, String> = match &o.res {
        Ok(b) => match parse(b) {
            Ok(p) => Ok(p),
            Err(e) => return Verdict::Bad("C20|cache|served|unparseable-message".into(), format!("response served from cache does not parse: {e}")),
        },
        Err(e) => Err(e.clone()),
    };
    let ident = form_ident(steps[i].q);
    let p = Probe { ident: &ident, qtype: ident.1.first().map(|q| q.1).unwrap_or(0), f: o.eff_f.unwrap_or(steps[i].f), now_ms: o.t_ms };
    let mut best: Option<Fail> = None;
    for e in run.log.iter().filter(|e| e.step < i) {
        match check_candidate(cfg, e, &p, &served) {
            Ok(code) => return Verdict::Hit(code, e.kind),
            Err(f) => {
                if best.as_ref().is_none_or(|b| f.stage >= b.stage) {
                    best = Some(f);
                }
            }
        }
    }
    match best {
        None => Verdict::Bad(
            "C20|cache|served|no-earlier-upstream-response".into(),
            "a response was produced without consulting the upstream although the upstream had not answered anything before".into(),
        ),
        Some(f) => Verdict::Bad(format!("C20|cache|served|{}", f.sig), f.what),
    }
}

// ---------------------------------------------------------------- statistics

struct KindCounts([u64; KINDS.len()]);
impl Default for KindCounts {
    fn default() -> Self {
        KindCounts([0; KINDS.len()])
    }
}

#[derive(Default)]
struct Local {
    histories: u64,
    steps: u64,
    nodes: u64,
    served: u64,
    forwarded: u64,
    nontrivial: u64,
    fills_forwarded: u64,
    exact_bound: u64,
    nx_nosoa_served: u64,
    evict_forward_seen: bool,
    evict_hit_seen: bool,
    /// request constructions: requests whose wire flags differ from the
    /// construction parameters; whose base OPT said DO=1 while the wire says
    /// DO=0; upstream saw DO=1 in an OPT record behind another record
    cons_eff_differs: u64,
    cons_base_do_absent_on_wire: u64,
    cons_do_behind_record: u64,
    /// EDNS option axis: requests the upstream received with at least one
    /// option; with DO=1 and a zero-length option as the last one; with DO=1
    /// and any option; probes whose last option has length zero that were
    /// served from the cache; with DO=1 among them
    eo_upstream_saw_options: u64,
    eo_upstream_saw_do_zero_last: u64,
    eo_upstream_saw_do_options: u64,
    eo_probe_zero_last_served: u64,
    eo_probe_do_zero_last_served: u64,
    outcomes: HashMap<u32, u64>,
    served_by_kind: KindCounts,
    by_adv: BTreeMap<u64, (u64, u64)>,
    by_cfg: [(u64, u64); CFGS.len()],
    by_shape: BTreeMap<&'static str, (u64, u64, u64)>,
}

impl Local {
    fn merge(&mut self, o: Local) {
        self.histories += o.histories;
        self.steps += o.steps;
        self.nodes += o.nodes;
        self.served += o.served;
        self.forwarded += o.forwarded;
        self.nontrivial += o.nontrivial;
        self.fills_forwarded += o.fills_forwarded;
        self.exact_bound += o.exact_bound;
        self.nx_nosoa_served += o.nx_nosoa_served;
        self.evict_forward_seen |= o.evict_forward_seen;
        self.evict_hit_seen |= o.evict_hit_seen;
        self.cons_eff_differs += o.cons_eff_differs;
        self.cons_base_do_absent_on_wire += o.cons_base_do_absent_on_wire;
        self.cons_do_behind_record += o.cons_do_behind_record;
        self.eo_upstream_saw_options += o.eo_upstream_saw_options;
        self.eo_upstream_saw_do_zero_last += o.eo_upstream_saw_do_zero_last;
        self.eo_upstream_saw_do_options += o.eo_upstream_saw_do_options;
        self.eo_probe_zero_last_served += o.eo_probe_zero_last_served;
        self.eo_probe_do_zero_last_served += o.eo_probe_do_zero_last_served;
        for (k, v) in o.outcomes {
            *self.outcomes.entry(k).or_insert(0) += v;
        }
        for i in 0..KINDS.len() {
            self.served_by_kind.0[i] += o.served_by_kind.0[i];
        }
        for (k, v) in o.by_adv {
            let e = self.by_adv.entry(k).or_insert((0, 0));
            e.0 += v.0;
            e.1 += v.1;
        }
        for i in 0..CFGS.len() {
            self.by_cfg[i].0 += o.by_cfg[i].0;
            self.by_cfg[i].1 += o.by_cfg[i].1;
        }
        for (k, v) in o.by_shape {
            let e = self.by_shape.entry(k).or_insert((0, 0, 0));
            e.0 += v.0;
            e.1 += v.1;
            e.2 += v.2;
        }
    }
}

fn outcome_text(code: u32) -> String {
    let mut s = format!("hit:{}", CLASSES[(code & 7) as usize]);
    for (bit, name) in [
        (O_OTHER_FLAGS, "from-other-flags"),
        (O_RD_FROM_RD1, "rd0-from-rd1"),
        (O_STRIPPED, "dnssec-stripped"),
        (O_AD_CLEARED, "ad-cleared"),
        (O_AA_CLEARED, "aa-cleared"),
        (O_TC, "truncated"),
        (O_SRC_EDNS_OPTIONS, "upstream-answer-had-edns-options"),
        (O_EXACT_BOUND, "at-exact-bound"),
    ] {
        if code & bit != 0 {
            s.push('+');
            s.push_str(name);
        }
    }
    s
}

fn case_json(cfg_i: usize, steps: &[Step]) -> Value {
    json!({"cfg": cfg_i, "cfg_name": CFGS[cfg_i].name, "steps": steps.iter().map(step_json).collect::<Vec<_>>(),
           "text": steps.iter().map(step_text).collect::<Vec<_>>()})
}

/// Execute one history on the real cache and evaluate the oracle on it.
fn eval_history(ctx: &Ctx, shape: &'static str, cfg_i: usize, steps: &[Step], loc: &mut Local, verbose: bool) {
    let cfg = &CFGS[cfg_i];
    loc.histories += 1;
    loc.steps += steps.len() as u64;
    let sh = loc.by_shape.entry(shape).or_insert((0, 0, 0));
    sh.0 += 1;
    let run = match run_history(cfg_i, steps) {
        Ok(r) => r,
        Err(msg) => {
            if verbose {
                println!("  PANIC: {msg}");
            }
            ctx.violation(
                &format!("C20|cache|panic|{}", panic_class(&msg)),
                &format!("the cache panicked: {msg}"),
                case_json(cfg_i, steps),
            );
            return;
        }
    };
    if let Some(b) = &run.bad {
        ctx.violation("C20|cache|forwarded-request-malformed", b, case_json(cfg_i, steps));
    }
    // moka runs its size policy after 64 logged reads OR 300 ms of real time:
    // with one cache entry, WHICH request is forwarded can depend on the
    // machine's load. The oracle does not care, but the hit/forward counters
    // of that configuration are kept out of the reproducible figures.
    let counted = cfg.setup != Setup::OneEntry;
    let mut any_served = false;
    for (i, st) in steps.iter().enumerate() {
        if let Some(c) = cons_of(st.mode) {
            if run.log.iter().any(|e| e.step == i && e.f & DO != 0 && e.opt_not_first) {
                loc.cons_do_behind_record += 1;
            }
            if let Some(ef) = run.obs[i].eff_f {
                if ef != st.f {
                    loc.cons_eff_differs += 1;
                }
                if [2, 5, 6].contains(&c.add) && ef & DO == 0 {
                    loc.cons_base_do_absent_on_wire += 1;
                }
            }
        }
    }
    for e in &run.log {
        if !e.req_opts.is_empty() {
            loc.eo_upstream_saw_options += 1;
            if e.f & DO != 0 {
                loc.eo_upstream_saw_do_options += 1;
                if e.req_opts.last().is_some_and(|o| o.1 == 0) {
                    loc.eo_upstream_saw_do_zero_last += 1;
                }
            }
        }
    }
    for i in 0..steps.len() {
        let v = judge_step(cfg, steps, &run, i);
        if i > 0 && matches!(v, Verdict::Hit(..)) && eopt(steps[i].eo).opts.last().is_some_and(|o| eo_wire(o).1.is_empty()) {
            loc.eo_probe_zero_last_served += 1;
            if run.obs[i].eff_f.is_some_and(|f| f & DO != 0) {
                loc.eo_probe_do_zero_last_served += 1;
            }
        }
        if !counted {
            match v {
                Verdict::Forwarded if i >= 4 => loc.evict_forward_seen = true,
                Verdict::Hit(..) => loc.evict_hit_seen = true,
                Verdict::Bad(sig, what) => {
                    ctx.violation(&sig, &format!("step {i} ({}): {what}", step_text(&steps[i])), case_json(cfg_i, steps));
                }
                _ => {}
            }
            continue;
        }
        if verbose {
            let o = &run.obs[i];
            println!("  step {i}: {}", step_text(&steps[i]));
            if let Some(ef) = o.eff_f {
                println!("    on the wire this request carries [{}]", flags_text(ef));
            }
            println!(
                "    t={} ms  {}  -> {}",
                o.t_ms,
                if o.forwarded { "FORWARDED to upstream" } else { "SERVED FROM CACHE" },
                match &o.res {
                    Ok(b) => format!("message {}", hex(b)),
                    Err(e) => format!("error {e}"),
                }
            );
            if let Some(e) = run.log.iter().find(|e| e.step == i) {
                println!("    upstream saw [{}] and returned {}", flags_text(e.f), if e.res.is_ok() { hex(&e.raw) } else { "transport error".into() });
            }
            match &v {
                Verdict::Forwarded => {}
                Verdict::Hit(c, k) => println!("    oracle: accepted, {} (source answer kind {})", outcome_text(*c), KINDS[*k as usize]),
                Verdict::Bad(s, w) => println!("    oracle: VIOLATION {s}: {w}"),
            }
        }
        let adv = loc.by_adv.entry(steps[i].adv_ms).or_insert((0, 0));
        match v {
            Verdict::Forwarded => {
                loc.forwarded += 1;
                if i == 0 {
                    loc.fills_forwarded += 1;
                } else {
                    adv.1 += 1;
                    loc.by_cfg[cfg_i].1 += 1;
                    loc.by_shape.get_mut(shape).unwrap().2 += 1;
                }
            }
            Verdict::Hit(code, kind) => {
                any_served = true;
                loc.served += 1;
                adv.0 += 1;
                loc.by_cfg[cfg_i].0 += 1;
                loc.by_shape.get_mut(shape).unwrap().1 += 1;
                *loc.outcomes.entry(code).or_insert(0) += 1;
                loc.served_by_kind.0[kind as usize] += 1;
                if code & O_EXACT_BOUND != 0 {
                    loc.exact_bound += 1;
                }
                if kind == K_NX_NOSOA {
                    loc.nx_nosoa_served += 1;
                }
            }
            Verdict::Bad(sig, what) => {
                any_served = true;
                loc.served += 1;
                adv.0 += 1;
                ctx.violation(&sig, &format!("step {i} ({}): {what}", step_text(&steps[i])), case_json(cfg_i, steps));
            }
        }
    }
    if any_served {
        loc.nontrivial += 1;
    }
}

// ---------------------------------------------------------------- main

fn main() {
    let ctx = Ctx::new("C20", "model_checking");

    if let Some(path) = ctx.replay.clone() {
        let text = std::fs::read_to_string(&path).expect("replay file");
        let v: Value = serde_json::from_str(&text).expect("replay json");
        let c = &v["case"];
        let cfg_i = c["cfg"].as_u64().unwrap_or(0) as usize;
        let steps: Vec<Step> = c["steps"]
            .as_array()
            .expect("steps")
            .iter()
            .map(|s| Step {
                adv_ms: s["adv_ms"].as_u64().unwrap(),
                q: s["q"].as_u64().unwrap() as u8,
                f: s["flags"].as_u64().unwrap() as u8,
                ans: s["ans"].as_u64().unwrap() as u8,
                mode: s["mode"].as_u64().unwrap_or(0) as u8,
                eo: s["eo"].as_u64().unwrap_or(0) as u8,
            })
            .collect();
        println!("replaying under config {} ({:?})", CFGS[cfg_i].name, CFGS[cfg_i]);
        let mut loc = Local::default();
        eval_history(&ctx, "replay", cfg_i, &steps, &mut loc, true);
        ctx.finish(
            json!({"states": steps.len() + 1, "transitions": steps.len(), "traces_validated_against_impl": steps.len(),
                   "evaluations": 1, "distinct_nontrivial": loc.nontrivial, "rule": "replay of one history", "samples": [case_json(cfg_i, &steps)], "exhaustive": false}),
            &["replay of a single history"],
        );
    }

    let quick = ctx.quick();
    let global = Mutex::new(Local::default());
    let stats = Stats::new();
    let wd = Watchdog::start(ctx.clone(), Duration::from_secs(300), |_| "C20|cache|hang".to_string());

    // ---- menus
    let fill_qs: [u8; 3] = [0, 1, 2];
    let nkinds = N_MAIN;
    let fills: Vec<Step> = fill_qs
        .iter()
        .flat_map(|&q| (0..16u8).flat_map(move |f| (0..nkinds).map(move |ans| Step { adv_ms: 0, q, f, ans, mode: 0, eo: 0 })))
        .collect();
    // clock advances (ms) in front of a probe; every configured bound and
    // every TTL of the answer menu has a value just below, at, and above it
    let mut adv1: Vec<u64> = [0u64, 1, 4, 5, 6, 7, 8, 10, 11, 30, 31, 60, 61, 70, 71, 80, 81, 90, 91, 100, 101, 3600, 3601, 604800, 604801]
        .iter()
        .map(|s| s * 1000)
        .collect();
    // sub-second positions: elapsed time is not a whole number of seconds
    adv1.extend([500u64, 10500]);
    if !quick {
        // more sub-second positions around the small bounds and three far points
        adv1.extend([20_000u64, 21_000, 999, 1001, 4999, 5001, 6999, 7001, 9500, 10001, 19999, 20001, 30001, 60001, 1_000_000_000, 1_000_001_000, 2_000_001_000]);
    }
    adv1.sort();
    let adv2: Vec<u64> = if quick { vec![0, 10000] } else { vec![0, 5000, 5500, 10000, 11000] };
    // first probe of fill·probe·probe
    let adv2a: Vec<u64> = if quick { vec![0, 5000, 11000] } else { adv2.clone() };
    // b.ex/A is the mirror image of a.ex/A: it is left out of the three-step shape
    // The quick tier also leaves out the long-TTL twins of answers whose
    // behaviour within the 21 s this shape spans is that of their short-TTL
    // sibling of the same class (they are all in fill·probe).
    const LONG_TTL_TWINS: [u8; 9] = [4, 7, 9, 12, 21, 22, 23, 24, 25];
    let fills2: Vec<Step> = fills.iter().filter(|f| f.q != 1 && !(quick && LONG_TTL_TWINS.contains(&f.ans))).copied().collect();
    // fill·probe: the quick tier leaves the mirror image b.ex/A out as well;
    // config default+cache_truncated differs from default only in how a TC
    // response is treated, so it is run over the TC fills only
    let fills1: Vec<Step> = fills.iter().filter(|f| !quick || f.q != 1).copied().collect();
    let cfgs1: Vec<usize> = vec![0, 1, 3];
    const K_TC: u8 = 14;
    // thorough leaves out default+cache_truncated here: it differs from default only for the TC answer, which distinct+cache_truncated covers
    let cfgs2: Vec<usize> = if quick { vec![0] } else { vec![0, 1, 3] };

    // ---- shape 1: fill · probe
    let mut items: Vec<(usize, Step)> = cfgs1.iter().flat_map(|&c| fills1.iter().map(move |f| (c, *f))).collect();
    items.extend(fills1.iter().filter(|f| f.ans == K_TC).map(|f| (2usize, *f)));
    let n_items1 = items.len();
    items.par_iter().for_each(|&(c, fill)| {
        wd.enter(|| json!({"shape": "fill-probe", "cfg": c, "fill": step_json(&fill)}));
        let mut loc = Local::default();
        loc.nodes += 1;
        for &a in &adv1 {
            for f in 0..16u8 {
                loc.nodes += 1;
                let h = [fill, Step { adv_ms: a, q: fill.q, f, ans: K_PROBE, mode: 0, eo: 0 }];
                eval_history(&ctx, "fill-probe", c, &h, &mut loc, false);
            }
        }
        wd.leave();
        global.lock().unwrap().merge(loc);
    });

    // ---- shape 2: fill · probe · probe
    let items: Vec<(usize, Step)> = cfgs2.iter().flat_map(|&c| fills2.iter().map(move |f| (c, *f))).collect();
    items.par_iter().for_each(|&(c, fill)| {
        wd.enter(|| json!({"shape": "fill-probe-probe", "cfg": c, "fill": step_json(&fill)}));
        let mut loc = Local::default();
        loc.nodes += 1;
        for &a1 in &adv2a {
            for f1 in 0..16u8 {
                loc.nodes += 1;
                for &a2 in &adv2 {
                    for f2 in 0..16u8 {
                        loc.nodes += 1;
                        let h = [fill, Step { adv_ms: a1, q: fill.q, f: f1, ans: K_PROBE, mode: 0, eo: 0 }, Step { adv_ms: a2, q: fill.q, f: f2, ans: K_PROBE, mode: 0, eo: 0 }];
                        eval_history(&ctx, "fill-probe-probe", c, &h, &mut loc, false);
                    }
                }
            }
        }
        wd.leave();
        global.lock().unwrap().merge(loc);
    });

    // ---- shape 3: fill · cross-probe (probe on every OTHER question,
    //      including the same name in another case, which IS the same question)
    //      and on every pass-through request form: class CH, two questions,
    //      no question, opcode STATUS. Fills come in all 8 forms; a form >= 4
    //      is also probed with itself (forms 0-3 with themselves is shape 1).
    let cfgs3: Vec<usize> = if quick { vec![0] } else { vec![0, 1, 2, 3] };
    let adv3: Vec<u64> = vec![0, 5000];
    let kinds3: Vec<u8> = if quick { vec![0, 6, K_TRANSPORT, 16, 26] } else { (0..N_MAIN).collect() };
    let fills3: Vec<Step> = (0..NQ as u8)
        .flat_map(|q| {
            let kinds3 = &kinds3;
            (0..16u8).flat_map(move |f| kinds3.iter().map(move |&ans| Step { adv_ms: 0, q, f, ans, mode: 0, eo: 0 }))
        })
        .collect();
    let items: Vec<(usize, Step)> = cfgs3.iter().flat_map(|&c| fills3.iter().map(move |f| (c, *f))).collect();
    items.par_iter().for_each(|&(c, fill)| {
        wd.enter(|| json!({"shape": "fill-cross-probe", "cfg": c, "fill": step_json(&fill)}));
        let mut loc = Local::default();
        loc.nodes += 1;
        for q in 0..NQ as u8 {
            if q == fill.q && q < 4 {
                continue;
            }
            for &a in &adv3 {
                for f in 0..16u8 {
                    loc.nodes += 1;
                    let h = [fill, Step { adv_ms: a, q, f, ans: K_PROBE, mode: 0, eo: 0 }];
                    eval_history(&ctx, "fill-cross-probe", c, &h, &mut loc, false);
                }
            }
        }
        wd.leave();
        global.lock().unwrap().merge(loc);
    });

    // ---- shape 4 (thorough): fill · fill' · probe · probe, fill' on the same qname
    let mut shape4_desc = json!(null);
    if !quick {
        // answers that differ in class, TTL structure, DNSSEC content, failure
        let kinds4: [u8; 3] = [1, 18, K_TRANSPORT];
        let qs4: [u8; 2] = [0, 2];
        let adv_f2: [u64; 2] = [0, 5000];
        let adv_p: [u64; 3] = [0, 5000, 11000];
        let adv_p2: [u64; 2] = [0, 6000];
        let cfg4 = 0usize;
        let fills4: Vec<Step> = qs4
            .iter()
            .flat_map(|&q| (0..16u8).flat_map(move |f| kinds4.into_iter().map(move |ans| Step { adv_ms: 0, q, f, ans, mode: 0, eo: 0 })))
            .collect();
        let fills4b: Vec<Step> = adv_f2
            .iter()
            .flat_map(|&a| fills4.iter().map(move |s| Step { adv_ms: a, ..*s }))
            .collect();
        shape4_desc = json!({"cfg": CFGS[cfg4].name, "fill": {"questions": ["a.ex/A", "a.ex/RRSIG"], "flags": 16, "answers": kinds4.iter().map(|k| KINDS[*k as usize]).collect::<Vec<_>>()},
            "fill2": {"advance_ms": adv_f2, "same menus as fill": true}, "probe1_advances_ms": adv_p, "probe2_advances_ms": adv_p2, "probe_flags": 16, "probes_on": "the question of the first fill"});
        let items: Vec<(Step, Step)> = fills4.iter().flat_map(|a| fills4b.iter().map(move |b| (*a, *b))).collect();
        items.par_iter().for_each(|&(f1, f2)| {
            wd.enter(|| json!({"shape": "fill-fill-probe-probe", "fill": step_json(&f1), "fill2": step_json(&f2)}));
            let mut loc = Local::default();
            loc.nodes += 1;
            for &a1 in &adv_p {
                for p1 in 0..16u8 {
                    loc.nodes += 1;
                    for &a2 in &adv_p2 {
                        for p2 in 0..16u8 {
                            loc.nodes += 1;
                            let h = [f1, f2, Step { adv_ms: a1, q: f1.q, f: p1, ans: K_PROBE, mode: 0, eo: 0 }, Step { adv_ms: a2, q: f1.q, f: p2, ans: K_PROBE, mode: 0, eo: 0 }];
                            eval_history(&ctx, "fill-fill-probe-probe", cfg4, &h, &mut loc, false);
                        }
                    }
                }
            }
            wd.leave();
            global.lock().unwrap().merge(loc);
        });
    }

    // ---- shape 5: out-of-range configuration requests. Every duration setter
    //      is given Duration::ZERO resp. Duration::MAX; the reference bounds
    //      are the documented minima resp. maxima. Answers and advances sit
    //      around exactly those limits.
    let s5: [(usize, Vec<u8>, Vec<u64>); 2] = [
        (CFG_ZERO, vec![4, 7, 9, 12, 13, K_TRANSPORT, 21], vec![0, 1, 2, 59, 60, 61]),
        (CFG_HUGE, vec![0, 34, 35, 36, 12, 13, K_TRANSPORT, 21], vec![0, 300, 301, 86_400, 86_401, 2_000_000, 2_000_001, 6_048_000, 6_048_001]),
    ];
    let items: Vec<(usize, Step, &Vec<u64>)> = s5
        .iter()
        .flat_map(|(c, kinds, advs)| [0u8, 2].into_iter().flat_map(move |q| (0..16u8).flat_map(move |f| kinds.iter().map(move |&ans| (*c, Step { adv_ms: 0, q, f, ans, mode: 0, eo: 0 }, advs)))))
        .collect();
    items.par_iter().for_each(|&(c, fill, advs)| {
        wd.enter(|| json!({"shape": "config-limits", "cfg": c, "fill": step_json(&fill)}));
        let mut loc = Local::default();
        loc.nodes += 1;
        for &a in advs {
            for f in 0..16u8 {
                loc.nodes += 1;
                let h = [fill, Step { adv_ms: a * 1000, q: fill.q, f, ans: K_PROBE, mode: 0, eo: 0 }];
                eval_history(&ctx, "config-limits", c, &h, &mut loc, false);
            }
        }
        wd.leave();
        global.lock().unwrap().merge(loc);
    });

    // ---- shape 6: how the client built the request. Flags in the message
    //      handed to RequestMessage::new (mode 0), set through header_mut()
    //      (mode 1), plus an OPT record made by set_udp_payload_size/add_opt
    //      (mode 2); all pairs of modes except (0,0), which is shape 1.
    let kinds6: [u8; 3] = [0, 16, 26];
    let items: Vec<Step> = (0..16u8).flat_map(|f| kinds6.into_iter().flat_map(move |ans| (0..3u8).map(move |mode| Step { adv_ms: 0, q: 0, f, ans, mode, eo: 0 }))).collect();
    items.par_iter().for_each(|&fill| {
        wd.enter(|| json!({"shape": "request-representation", "fill": step_json(&fill)}));
        let mut loc = Local::default();
        loc.nodes += 1;
        for mode in 0..3u8 {
            if fill.mode == 0 && mode == 0 {
                continue;
            }
            for &a in &adv3 {
                for f in 0..16u8 {
                    loc.nodes += 1;
                    let h = [fill, Step { adv_ms: a, q: 0, f, ans: K_PROBE, mode, eo: 0 }];
                    eval_history(&ctx, "request-representation", 0, &h, &mut loc, false);
                }
            }
        }
        wd.leave();
        global.lock().unwrap().merge(loc);
    });

    // ---- shape 8: how the request was built x which transport carries it.
    //      Base message handed to RequestMessage::new {no additional section,
    //      own OPT DO=0/DO=1, an A record in the additional section, both in
    //      either order} x route of the flags {base message only and no
    //      setter, setters over a clear base header, both, set_dnssec_ok
    //      called with false as well, setters overriding a contradicting base
    //      header} x transport {dgram, dgram without payload size, stream}.
    //      The scripted upstream answers what it finds in the octets such a
    //      transport sends (own reader, whole additional section scanned for
    //      OPT); the flags a later request "asks with" are read from its own
    //      transport octets the same way. The oracle is the one of every
    //      other shape, over these wire-level flags.
    let adds8: Vec<u8> = (0..N_ADD).collect();
    let routes8: Vec<u8> = if quick { vec![0, 1, 2, 3] } else { (0..N_ROUTE).collect() };
    // the CD partition is orthogonal to everything here: thorough only
    let f3s8: Vec<u8> = (0..8u8).filter(|f| !quick || f & CD == 0).collect();
    let kinds8: Vec<u8> = if quick { vec![16, 19] } else { vec![16, 19, 26] };
    let adv8: Vec<u64> = if quick { vec![1000] } else { vec![1000, 5000] };
    // (add, route, f): route 0 calls no setter, so DO is no parameter of it
    let cons8: Vec<(u8, u8, u8)> = adds8
        .iter()
        .flat_map(|&a| {
            let f3s8 = &f3s8;
            routes8.iter().flat_map(move |&r| {
                f3s8.iter().flat_map(move |&f3| (0..2u8).filter(move |d| r != 0 || *d == 0).map(move |d| (a, r, f3 | if d == 1 { DO } else { 0 })))
            })
        })
        .collect();
    let items: Vec<(u8, (u8, u8, u8), u8)> = (0..N_STYLE)
        .flat_map(|st| {
            let kinds8 = &kinds8;
            cons8.iter().flat_map(move |c| kinds8.iter().map(move |&k| (st, *c, k)))
        })
        .collect();
    items.par_iter().for_each(|&(style, (a, r, f), ans)| {
        let fill = Step { adv_ms: 0, q: 0, f, ans, mode: cons_mode(style, a, r), eo: 0 };
        wd.enter(|| json!({"shape": "request-construction", "fill": step_json(&fill)}));
        let mut loc = Local::default();
        loc.nodes += 1;
        for &(a2, r2, f2) in &cons8 {
            for &adv in &adv8 {
                loc.nodes += 1;
                let h = [fill, Step { adv_ms: adv, q: 0, f: f2, ans: K_PROBE, mode: cons_mode(style, a2, r2), eo: 0 }];
                eval_history(&ctx, "request-construction", 0, &h, &mut loc, false);
            }
        }
        wd.leave();
        global.lock().unwrap().merge(loc);
    });

    // ---- shape 9: EDNS options of the request. The request constructions of
    //      shape 8 (reduced menus of base message x flag route) x the EDNS
    //      layout of the request: options added through add_opt {none, one
    //      zero-length option, zero-length before / after a non-empty one,
    //      several zero-length ones, cookie, padding, client-subnet, an
    //      unknown code with and without data, two and five options},
    //      set_udp_payload_size by the caller (65535, 0x8000), options added
    //      before the flags, and a base message whose own OPT record has a
    //      non-zero version / extended-rcode / Z bits and options of its own.
    //      Layouts are paired (fill X, probe none), (fill none, probe X),
    //      (fill X, probe X); for a fill with options the upstream answers
    //      once without and once with the options copied into the OPT record
    //      of its answer. Oracle as in shape 8 (flags read by the harness's
    //      reader from the transport's octets; the OPT RDATA is not
    //      interpreted for that), plus: what a transport sends is a
    //      well-formed option sequence containing every option the caller added.
    let eos9: Vec<u8> = if quick { vec![0, 1, 3, 4, 5, 8, 9, 10, 12, 18] } else { (0..EOPTS.len() as u8).collect() };
    // (base message, route): setters with DO only when set; set_dnssec_ok always called; no setter over a base OPT with DO=1; A record + base OPT DO=1 with setters
    let ar9: [(u8, u8); 4] = [(0, 1), (0, 3), (2, 0), (5, 1)];
    let f3s9: Vec<u8> = if quick { vec![RD, RD | AD] } else { vec![0, RD, AD, RD | AD] };
    let kinds9: Vec<u8> = if quick { vec![16] } else { vec![16, 19, 33] };
    let adv9: Vec<u64> = if quick { vec![1000] } else { vec![1000, 5000] };
    let cons9: Vec<(u8, u8, u8)> = ar9
        .iter()
        .flat_map(|&(a, r)| {
            let f3s9 = &f3s9;
            f3s9.iter().flat_map(move |&f3| (0..2u8).filter(move |d| r != 0 || *d == 0).map(move |d| (a, r, f3 | if d == 1 { DO } else { 0 })))
        })
        .collect();
    // (fill layout incl. echo bit, probe layout)
    let mut eo_pairs: Vec<(u8, u8)> = eos9.iter().map(|&x| (0u8, x)).collect();
    for &x in eos9.iter().filter(|x| **x != 0) {
        for echo in [0, EO_ECHO] {
            eo_pairs.push((x | echo, 0));
            eo_pairs.push((x | echo, x));
        }
    }
    let items: Vec<(u8, (u8, u8), (u8, u8, u8), u8)> = (0..N_STYLE)
        .flat_map(|st| {
            let (kinds9, cons9) = (&kinds9, &cons9);
            eo_pairs.iter().flat_map(move |ep| cons9.iter().flat_map(move |c| kinds9.iter().map(move |&k| (st, *ep, *c, k))))
        })
        .collect();
    let n_items9 = items.len();
    items.par_iter().for_each(|&(style, (eo1, eo2), (a, r, f), ans)| {
        let fill = Step { adv_ms: 0, q: 0, f, ans, mode: cons_mode(style, a, r), eo: eo1 };
        wd.enter(|| json!({"shape": "request-edns-options", "fill": step_json(&fill), "probe_eo": eo2}));
        let mut loc = Local::default();
        loc.nodes += 1;
        for &(a2, r2, f2) in &cons9 {
            for &adv in &adv9 {
                loc.nodes += 1;
                let h = [fill, Step { adv_ms: adv, q: 0, f: f2, ans: K_PROBE, mode: cons_mode(style, a2, r2), eo: eo2 }];
                eval_history(&ctx, "request-edns-options", 0, &h, &mut loc, false);
            }
        }
        wd.leave();
        global.lock().unwrap().merge(loc);
    });

    // ---- shape 7: a cache of ONE entry (set_max_cache_entries(0), minimum 1
    //      applies). fill a.ex, fill b.ex, then 40 rounds of (probe a.ex,
    //      probe b.ex): moka applies its size policy after 64 logged reads,
    //      so entries are evicted in the middle of the history. Whatever is
    //      evicted when, every response served from the cache must still be
    //      justified. The whole history spans 3 s, less than any TTL used, so
    //      a forward after the first round can only come from eviction.
    const ROUNDS: usize = 40;
    let kinds7: [u8; 3] = [0, 18, K_TRANSPORT];
    let items: Vec<(u8, u8)> = (0..16u8).flat_map(|f| kinds7.into_iter().map(move |k| (f, k))).collect();
    items.par_iter().for_each(|&(f1, k)| {
        wd.enter(|| json!({"shape": "one-entry-eviction", "fill_flags": f1, "fill_answer": k}));
        let mut loc = Local::default();
        loc.nodes += 1;
        for p in 0..16u8 {
            let mut h = vec![Step { adv_ms: 0, q: 0, f: f1, ans: k, mode: 0, eo: 0 }, Step { adv_ms: 0, q: 1, f: f1, ans: 1, mode: 0, eo: 0 }];
            for r in 0..ROUNDS {
                let adv = if r % 10 == 9 && r < 30 { 1000 } else { 0 };
                h.push(Step { adv_ms: adv, q: 0, f: p, ans: K_PROBE, mode: 0, eo: 0 });
                h.push(Step { adv_ms: 0, q: 1, f: p, ans: K_PROBE, mode: 0, eo: 0 });
            }
            loc.nodes += h.len() as u64 - 1;
            eval_history(&ctx, "one-entry-eviction", CFG_ONE_ENTRY, &h, &mut loc, false);
        }
        wd.leave();
        global.lock().unwrap().merge(loc);
    });

    // ---- samples: shortest and deepest histories, executed and written out
    let mut sample_hist: Vec<(usize, Vec<Step>)> = vec![
        (0, vec![Step { adv_ms: 0, q: 0, f: RD, ans: 0, mode: 0, eo: 0 }, Step { adv_ms: 10000, q: 0, f: RD, ans: 0, mode: 0, eo: 0 }]),
        (0, vec![Step { adv_ms: 0, q: 0, f: RD, ans: 0, mode: 0, eo: 0 }, Step { adv_ms: 11000, q: 0, f: RD, ans: 0, mode: 0, eo: 0 }]),
        (1, vec![Step { adv_ms: 0, q: 0, f: RD | DO, ans: 18, mode: 0, eo: 0 }, Step { adv_ms: 4000, q: 0, f: 0, ans: 0, mode: 0, eo: 0 }]),
        (3, vec![Step { adv_ms: 0, q: 2, f: RD | AD, ans: 9, mode: 0, eo: 0 }, Step { adv_ms: 5000, q: 2, f: 0, ans: 0, mode: 0, eo: 0 }, Step { adv_ms: 11000, q: 2, f: RD, ans: 0, mode: 0, eo: 0 }]),
        (0, vec![Step { adv_ms: 0, q: 0, f: RD | DO, ans: 19, mode: 0, eo: 0 }, Step { adv_ms: 5000, q: 0, f: CD, ans: 0, mode: 0, eo: 0 }, Step { adv_ms: 0, q: 0, f: 0, ans: 0, mode: 0, eo: 0 }]),
        (0, vec![Step { adv_ms: 0, q: 0, f: RD, ans: 22, mode: 0, eo: 0 }, Step { adv_ms: 3_601_000, q: 0, f: RD, ans: 0, mode: 0, eo: 0 }]),
        (0, vec![Step { adv_ms: 0, q: 0, f: RD | DO, ans: 33, mode: 0, eo: 0 }, Step { adv_ms: 1000, q: 0, f: RD, ans: 0, mode: 0, eo: 0 }]),
        (0, vec![Step { adv_ms: 0, q: 0, f: RD | DO | CD, ans: 29, mode: 0, eo: 0 }, Step { adv_ms: 1000, q: 0, f: RD | CD | AD, ans: 0, mode: 0, eo: 0 }]),
        (0, vec![Step { adv_ms: 0, q: 0, f: RD, ans: 0, mode: 0, eo: 0 }, Step { adv_ms: 1000, q: 4, f: RD, ans: 0, mode: 0, eo: 0 }]),
        (0, vec![Step { adv_ms: 0, q: 5, f: RD, ans: 0, mode: 0, eo: 0 }, Step { adv_ms: 1000, q: 5, f: RD, ans: 0, mode: 0, eo: 0 }]),
        (CFG_HUGE, vec![Step { adv_ms: 0, q: 0, f: RD, ans: 35, mode: 1, eo: 0 }, Step { adv_ms: 86_401_000, q: 0, f: RD, ans: 0, mode: 2, eo: 0 }]),
    ];
    // a forwarded query (own OPT DO=1 in the base message, nothing set) then a DO query; DO behind an additional record then a plain query
    sample_hist.push((0, vec![Step { adv_ms: 0, q: 0, f: RD, ans: 16, mode: cons_mode(2, 2, 0), eo: 0 }, Step { adv_ms: 1000, q: 0, f: RD | DO, ans: 0, mode: cons_mode(2, 0, 1), eo: 0 }]));
    sample_hist.push((0, vec![Step { adv_ms: 0, q: 0, f: RD | DO, ans: 16, mode: cons_mode(0, 3, 1), eo: 0 }, Step { adv_ms: 1000, q: 0, f: RD, ans: 0, mode: cons_mode(0, 0, 0), eo: 0 }]));
    // a DO query whose OPT record ends in a zero-length option, then a plain query; and the other way round
    sample_hist.push((0, vec![Step { adv_ms: 0, q: 0, f: RD | DO, ans: 16, mode: cons_mode(0, 0, 1), eo: 1 | EO_ECHO }, Step { adv_ms: 1000, q: 0, f: RD, ans: 0, mode: cons_mode(0, 0, 1), eo: 0 }]));
    sample_hist.push((0, vec![Step { adv_ms: 0, q: 0, f: RD, ans: 16, mode: cons_mode(2, 0, 1), eo: 0 }, Step { adv_ms: 1000, q: 0, f: RD | DO, ans: 0, mode: cons_mode(2, 0, 1), eo: 4 }]));
    if !quick {
        sample_hist.push((0, vec![Step { adv_ms: 0, q: 0, f: RD | DO, ans: 18, mode: 0, eo: 0 }, Step { adv_ms: 5000, q: 0, f: RD, ans: 1, mode: 0, eo: 0 }, Step { adv_ms: 0, q: 0, f: 0, ans: 0, mode: 0, eo: 0 }, Step { adv_ms: 10000, q: 0, f: AD, ans: 0, mode: 0, eo: 0 }]));
    }
    for (c, h) in &sample_hist {
        let cfg = &CFGS[*c];
        let outcome: Vec<Value> = match run_history(*c, h) {
            Err(p) => vec![json!({"panic": p})],
            Ok(run) => (0..h.len())
                .map(|i| {
                    let o = &run.obs[i];
                    let verdict = match judge_step(cfg, h, &run, i) {
                        Verdict::Forwarded => "forwarded".to_string(),
                        Verdict::Hit(code, _) => outcome_text(code),
                        Verdict::Bad(s, _) => format!("VIOLATION {s}"),
                    };
                    json!({"t_ms": o.t_ms, "forwarded": o.forwarded, "verdict": verdict,
                           "response": match &o.res { Ok(b) => hex(b), Err(e) => format!("error {e}") }})
                })
                .collect(),
        };
        stats.sample(20, || json!({"cfg": cfg.name, "history": h.iter().map(step_text).collect::<Vec<_>>(), "observed": outcome}));
    }

    let g = global.into_inner().unwrap();
    if g.served == 0 {
        ctx.violation("C20|machinery|vacuous", "no probe at all was served from the cache", json!({}));
    }
    if g.by_shape.get("request-construction").is_none_or(|v| v.1 == 0) || g.cons_do_behind_record == 0 {
        ctx.violation(
            "C20|machinery|vacuous",
            "shape request-construction: nothing was served from the cache, or the upstream never saw DO=1 in an OPT record behind another additional record",
            json!({}),
        );
    }
    if g.by_shape.get("request-edns-options").is_none_or(|v| v.1 == 0) || g.eo_upstream_saw_do_zero_last == 0 || g.eo_probe_do_zero_last_served == 0 || !g.outcomes.keys().any(|k| k & O_SRC_EDNS_OPTIONS != 0) {
        ctx.violation(
            "C20|machinery|vacuous",
            "shape request-edns-options: nothing was served from the cache, or the upstream never received DO=1 in an OPT record ending in a zero-length option, or no DO=1 probe with such an OPT record was served from the cache, or no answer carrying EDNS options was served from the cache",
            json!({}),
        );
    }
    let mut outcomes: BTreeMap<String, u64> = BTreeMap::new();
    for (k, v) in &g.outcomes {
        outcomes.insert(outcome_text(*k), *v);
    }
    let served_by_kind: BTreeMap<&str, u64> = KINDS.iter().enumerate().map(|(i, k)| (*k, g.served_by_kind.0[i])).collect();
    let by_adv: BTreeMap<String, Value> = g.by_adv.iter().map(|(k, v)| (format!("{k:>13} ms"), json!({"served_from_cache": v.0, "forwarded": v.1}))).collect();
    let by_cfg: BTreeMap<&str, Value> = CFGS.iter().enumerate().map(|(i, c)| (c.name, json!({"served_from_cache": g.by_cfg[i].0, "forwarded": g.by_cfg[i].1}))).collect();
    let by_shape: BTreeMap<&str, Value> = g.by_shape.iter().map(|(k, v)| (*k, json!({"histories": v.0, "probes_served_from_cache": v.1, "probes_forwarded": v.2}))).collect();

    ctx.finish(
        json!({
            "states": g.nodes,
            "transitions": g.steps,
            "traces_validated_against_impl": g.steps,
            "evaluations": g.histories,
            "distinct_nontrivial": g.nontrivial,
            "rule": "histories are pairwise distinct by construction (odometer over the product of the menus of each shape, per configuration); non-trivial = at least one step was answered without consulting the upstream (served from cache). states = nodes of the per-shape history trees (a node is the cache reached by one history prefix under one configuration; prefixes shared between shapes are counted once per shape); transitions = requests executed on the real cache::Connection",
            "exhaustive": true,
            "bound_completed": format!("{}: fill·probe (({} configs x {} fills + config default+cache_truncated x the TC fills = {} (config, fill) pairs) x {} advances x 16 flags), fill·probe·probe ({} configs x {} fills x {} advances x 16 flags x {} advances x 16 flags), fill·cross-probe ({} configs x {} fills in all 8 request forms x the other forms, and the form itself for the 4 pass-through forms, x {} advances x 16 flags), config-limits (zero-requested and huge-requested, see menus.config_limits), request-representation (default config, a.ex/A, 3 answers x 16 x 16 flags x 8 mode pairs x 2 advances), request-construction ({} transports x ({} constructions x {} answers) fills x {} constructions x {} advances), request-edns-options ({} (transport, fill layout, echo, probe layout, fill construction, answer) items out of {} EDNS layouts x {} constructions x {} answers, each x {} probe constructions x {} advances), one-entry-eviction (768 histories of 82 requests){}",
                if quick { "quick" } else { "thorough" }, cfgs1.len(), fills1.len(), n_items1, adv1.len(), cfgs2.len(), fills2.len(), adv2a.len(), adv2.len(), cfgs3.len(), fills3.len(), adv3.len(), N_STYLE, cons8.len(), kinds8.len(), cons8.len(), adv8.len(), n_items9, eos9.len(), cons9.len(), kinds9.len(), cons9.len(), adv9.len(),
                if quick { "" } else { ", fill·fill'·probe·probe (default config, reduced menus, see menus.shape4)" }),
            "menus": {
                "questions_fill": ["a.ex/A", "b.ex/A", "a.ex/RRSIG"],
                "request_forms_cross_probe": FORMS.iter().map(|f| f.text).collect::<Vec<_>>(),
                "answers_cross_probe": kinds3.iter().map(|k| KINDS[*k as usize]).collect::<Vec<_>>(),
                "config_limits": s5.iter().map(|(c, k, a)| json!({"config": CFGS[*c].name, "questions": ["a.ex/A", "a.ex/RRSIG"], "flags": 16, "answers": k.iter().map(|k| KINDS[*k as usize]).collect::<Vec<_>>(), "probe_advances_s": a, "probe_flags": 16})).collect::<Vec<_>>(),
                "request_modes": ["flags in the message given to RequestMessage::new", "flags via header_mut()", "flags via header_mut() + set_udp_payload_size + add_opt(Padding)"],
                "request_construction": {
                    "base_message_additional_section": ADDS[..].iter().enumerate().filter(|(i, _)| adds8.contains(&(*i as u8))).map(|(_, t)| *t).collect::<Vec<_>>(),
                    "flag_routes": routes8.iter().map(|r| ROUTES[*r as usize]).collect::<Vec<_>>(),
                    "flag_parameters": format!("{} RD/CD/AD combinations x DO (DO is no parameter of the no-setter route)", f3s8.len()),
                    "constructions": cons8.len(),
                    "upstream_transports": STYLES.to_vec(),
                    "answers": kinds8.iter().map(|k| KINDS[*k as usize]).collect::<Vec<_>>(),
                    "probe_advances_ms": adv8,
                    "question": "a.ex/A", "config": "default",
                    "oracle_flags": "RD/CD/AD/DO read by the harness's reader from the octets the transport sends, for the upstream's view of a fill and for a later request alike; all transports must send the same flags for one request; at most one OPT record",
                },
                "request_edns_options": {
                    "layouts": eos9.iter().map(|e| eopt(*e).text).collect::<Vec<_>>(),
                    "layout_pairs": "(fill X, probe none), (fill none, probe X), (fill X, probe X); for X != none the upstream answers once with an OPT record without options and once with the request's options copied into it",
                    "base_message_and_route": ar9.iter().map(|(a, r)| format!("{} / {}", ADDS[*a as usize], ROUTES[*r as usize])).collect::<Vec<_>>(),
                    "flag_parameters": format!("{:?} (RD/CD/AD bits) x DO (DO is no parameter of the no-setter route)", f3s9),
                    "constructions": cons9.len(),
                    "upstream_transports": STYLES.to_vec(),
                    "answers": kinds9.iter().map(|k| KINDS[*k as usize]).collect::<Vec<_>>(),
                    "probe_advances_ms": adv9,
                    "question": "a.ex/A", "config": "default",
                    "oracle": "as request_construction (DO is bit 15 of the TTL field of the OPT record found anywhere in the additional section; the OPT RDATA is not interpreted for that); in addition the OPT RDATA a transport sends must be a well-formed RFC 6891 option sequence that contains every option the caller added (order and further options free), identical as a set for all transports",
                },
                "one_entry_eviction": {"fill": "a.ex/A x 16 flags x {pos-ttl10-aa, signed-pos20-rrsig5, transport-error}, then b.ex/A same flags pos-mixed", "rounds": ROUNDS, "probe_flags": 16},
                "flags": "all 16 of RD x CD x AD x DO",
                "upstream_answers": KINDS.to_vec(),
                "fills": fills.len(),
                "fills_fill_probe": fills1.len(),
                "fills_fill_probe_probe": fills2.len(),
                "advances_ms_fill_probe": adv1,
                "advances_ms_fill_probe_probe": [adv2a.clone(), adv2.clone()],
                "configs": CFGS.iter().map(|c| format!("{c:?}")).collect::<Vec<_>>(),
                "shape4": shape4_desc,
            },
            "probes_served_from_cache": g.served,
            "requests_forwarded_to_upstream": g.forwarded,
            "of_which_fills": g.fills_forwarded,
            "served_at_exactly_the_bound_accepted": g.exact_bound,
            "observation_nxdomain_without_soa_served_from_cache": g.nx_nosoa_served,
            "one_entry_eviction_observed": {"a_request_was_forwarded_although_its_entry_was_cached_and_fresh": g.evict_forward_seen, "a_request_was_still_served_from_cache": g.evict_hit_seen},
            "request_construction_observed": {
                "requests_whose_wire_flags_differ_from_the_construction_parameters": g.cons_eff_differs,
                "requests_whose_base_OPT_said_DO_but_the_wire_does_not": g.cons_base_do_absent_on_wire,
                "fills_where_upstream_saw_DO_in_an_OPT_behind_another_additional_record": g.cons_do_behind_record,
            },
            "request_edns_options_observed": {
                "requests_received_by_the_upstream_with_at_least_one_option": g.eo_upstream_saw_options,
                "of_which_with_DO": g.eo_upstream_saw_do_options,
                "of_which_with_DO_and_a_zero_length_option_last": g.eo_upstream_saw_do_zero_last,
                "probes_ending_in_a_zero_length_option_served_from_cache": g.eo_probe_zero_last_served,
                "of_those_probes_with_DO": g.eo_probe_do_zero_last_served,
            },
            "distinct_oracle_outcomes": outcomes.len() + 1,
            "oracle_outcomes": outcomes,
            "served_from_cache_by_source_answer_kind": served_by_kind,
            "by_probe_advance": by_adv,
            "by_config": by_cfg,
            "by_shape": by_shape,
            "samples": stats.samples(),
        }),
        &[
            "cache.rs measures time with tokio::time::Instant; the paused tokio clock advanced by tokio::time::advance is the only clock the cache's validity logic reads",
            "moka::future::Cache 0.12 is built with a capacity only (no TTL/TTI, no background threads); except under configuration one-cache-entry at most 9 of 1000 entries are used, so size eviction never runs and moka's own real-time bookkeeping cannot change what get() returns. Under one-cache-entry eviction happens when moka's housekeeping runs (64 logged reads or 300 ms real time): the oracle is evaluated on every step there too, but that configuration's hit/forward counters are deliberately not part of the reproducible figures (only two booleans are reported)",
            "out-of-range values given to the Config setters are limited to the ranges stated in the setters' documentation; those limits are the reference for configurations zero-requested and huge-requested",
            "request forms the cache passes through (class CH, more than one question, no question, opcode other than QUERY) are held to the same rule: whatever is answered without asking the upstream must be an earlier upstream response for the same opcode and the same whole question section",
            "tokio current-thread FIFO scheduling; every request is awaited to completion before the next (no concurrent requests on one cache)",
            "menus as stated under coverage.menus; bound is on history shape, each shape enumerated completely",
            "a response served when elapsed time EQUALS the bound (TTL reaches 0) is accepted: the property says 'once ... has elapsed' and implementations differ at the instant itself; counted in served_at_exactly_the_bound_accepted",
            "TTL after ageing may be original minus floor or ceil of elapsed seconds",
            "shape request-construction: the scripted upstream stands for a transport; what it 'receives' is produced the way dgram.rs (header_mut().set_id, optional set_udp_payload_size, to_message()) and stream.rs (header_mut().set_id, append_message()) produce the octets they send, with an ID different from the caller's; the flags of a request are what the harness's own reader finds in those octets",
            "shape request-edns-options: EDNS options are hop-by-hop and no part of the cache key the property names (question, RD/CD/AD/DO); a request is served from an entry filled by a request with other options as long as the flags are compatible",
            "message ID and OPT records of served responses are not compared (hop-by-hop); record order within a section is not compared",
            "AA may be cleared and RD may be the query's in served responses (documented by cache.rs); an upstream that itself sends RRSIG/AD to a query that did not ask (answer kind signed-raw) is passed through for queries with the same DO/AD state and that is accepted",
            "NXDOMAIN without SOA being cached (RFC 2308 section 5 SHOULD NOT, and the module comment) is outside the property text; it is counted as an observation only",
        ],
    );
}
