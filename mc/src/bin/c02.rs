//! C02 — built messages parse back to exactly what was pushed.
//!
//! seqx: every builder operation sequence to depth D over target x
//! compressor configurations on the real builders (no state merging: the
//! compressors' private tables depend on the history, so every history is
//! executed), with an independent wire reader as oracle after every step.
use bytes::BytesMut;
use domain::base::iana::{Class, Rtype};
use domain::base::message_builder::{
    AdditionalBuilder, AnswerBuilder, AuthorityBuilder, HashCompressor, MessageBuilder, QuestionBuilder, RecordSectionBuilder, StaticCompressor, StreamTarget, TreeCompressor,
};
use domain::base::name::Name;
use domain::base::wire::Composer;
use domain::base::{Message, Question, Record, Ttl};
use domain::base::rdata::UnknownRecordData;
use domain::rdata::{AllRecordData, Mx, Ns, Soa, Srv, Txt, A};
use mc::wire::{lower, read_message, read_name, to_wire};
use mc::*;
use octseq::{FreezeBuilder, Truncate};
use rayon::prelude::*;
use serde_json::{json, Value};
use std::sync::atomic::{AtomicU64, Ordering as AO};
use std::sync::Arc;

/// How a section change is carried out: 0 = the builder's own method (answer(), ...), 1 = back to the
/// MessageBuilder with builder() and forward from there, 2 = through the From conversions.
static ROUTE: std::sync::atomic::AtomicU8 = std::sync::atomic::AtomicU8::new(0);
/// How the builder is started: 0 = fresh, 1 = start_answer(request, NXDOMAIN), 2 = start_error(request, SERVFAIL)
static INIT: std::sync::atomic::AtomicU8 = std::sync::atomic::AtomicU8::new(0);
/// How a record is pushed: 0 = push(record), 1 = push_ref(&record) where available (answer section)
static PUSH_REF: std::sync::atomic::AtomicBool = std::sync::atomic::AtomicBool::new(false);

trait Tgt: Composer + Clone {}
impl<T: Composer + Clone> Tgt for T {}

/// into_message() needs a freezable target (stream targets are not)
fn into_msg<T: Composer + Clone + FreezeBuilder<Octets: AsRef<[u8]>>>(b: &B<T>) -> Option<Vec<u8>> {
    Some(match b.clone() {
        B::Q(x) => x.into_message().as_slice().to_vec(),
        B::An(x) => x.into_message().as_slice().to_vec(),
        B::Ns(x) => x.into_message().as_slice().to_vec(),
        B::Ar(x) => x.into_message().as_slice().to_vec(),
    })
}

type N = Name<Vec<u8>>;
type Rd = AllRecordData<Vec<u8>, N>;

fn name(labels: &[&[u8]]) -> N {
    let mut v = Vec::new();
    for l in labels {
        v.push(l.len() as u8);
        v.extend_from_slice(l);
    }
    v.push(0);
    Name::from_octets(v).unwrap()
}

#[derive(Clone)]
struct RSpec {
    label: &'static str,
    owner: Vec<Vec<u8>>,
    rtype: u16,
    ttl: u32,
    /// uncompressed RDATA with names lower-cased
    rdata_norm: Vec<u8>,
    rec: Record<N, Rd>,
}

fn labels(l: &[&[u8]]) -> Vec<Vec<u8>> {
    l.iter().map(|x| x.to_vec()).collect()
}
fn wire_lc(l: &[&[u8]]) -> Vec<u8> {
    to_wire(&l.iter().map(|x| lower(x)).collect::<Vec<_>>())
}

fn specs() -> Vec<RSpec> {
    let a: &[&[u8]] = &[b"a"];
    let ba: &[&[u8]] = &[b"b", b"a"];
    let ba_uc: &[&[u8]] = &[b"B", b"A"];
    let cba: &[&[u8]] = &[b"c", b"b", b"a"];
    let l63 = vec![b'x'; 63];
    let l61 = vec![b'x'; 61];
    let long: Vec<&[u8]> = vec![&l63, &l63, &l63, &l61];
    let mk = |label, owner: &[&[u8]], ttl: u32, data: Rd, rdata_norm: Vec<u8>| RSpec {
        label,
        owner: labels(owner),
        rtype: {
            use domain::base::rdata::RecordData;
            data.rtype().to_int()
        },
        ttl,
        rdata_norm,
        rec: Record::new(name(owner), Class::IN, Ttl::from_secs(ttl), data),
    };
    let mut v = Vec::new();
    v.push(mk("A a.", a, 1, Rd::A(A::from_octets(192, 0, 2, 1)), vec![192, 0, 2, 1]));
    v.push(mk("NS b.a. -> c.b.a.", ba, 2, Rd::Ns(Ns::new(name(cba))), wire_lc(cba)));
    let mut mx = vec![0, 10];
    mx.extend(wire_lc(a));
    v.push(mk("MX B.A. -> a.", ba_uc, 3, Rd::Mx(Mx::new(10, name(a))), mx));
    let mut soa = wire_lc(ba);
    soa.extend(wire_lc(cba));
    soa.extend_from_slice(&[0, 0, 0, 1, 0, 0, 0, 2, 0, 0, 0, 3, 0, 0, 0, 4, 0, 0, 0, 5]);
    v.push(mk(
        "SOA a. (b.a., c.b.a.)",
        a,
        4,
        Rd::Soa(Soa::new(name(ba), name(cba), 1.into(), Ttl::from_secs(2), Ttl::from_secs(3), Ttl::from_secs(4), Ttl::from_secs(5))),
        soa,
    ));
    let mut srv = vec![0, 1, 0, 2, 0, 80];
    srv.extend(wire_lc(ba));
    v.push(mk("SRV c.b.a. -> b.a.", cba, 5, Rd::Srv(Srv::new(1, 2, 80, name(ba))), srv));
    let txt_body = vec![b't'; 200];
    let mut txt = vec![200u8];
    txt.extend_from_slice(&txt_body);
    v.push(mk("TXT a. 200", a, 6, Rd::Txt(Txt::build_from_slice(&txt_body).unwrap()), txt));
    for (lab, owner, size, rt) in [("PAD16000 c.b.a.", cba, 16000usize, 65280u16), ("PAD48000 b.a.", ba, 48000, 65281), ("PAD400 a.", a, 400, 65282)] {
        let body = vec![0xEE; size];
        v.push(mk(lab, owner, 7, Rd::Unknown(UnknownRecordData::from_octets(Rtype::from_int(rt), body.clone()).unwrap()), body));
    }
    v.push(mk("A <255-octet name>", &long, 8, Rd::A(A::from_octets(10, 0, 0, 1)), vec![10, 0, 0, 1]));
    let mut nsl = wire_lc(&long);
    let _ = &mut nsl;
    v.push(mk("NS a. -> <255-octet name>", a, 9, Rd::Ns(Ns::new(name(&long))), nsl));
    // Label-PREFIX relation (the leading labels of one name are all labels of
    // another: a. / a.a. / a.a.a.), next to the label-suffix relation the names
    // above have. A trie keyed by leading labels (TreeCompressor) keeps such
    // names in one branch, a suffix-keyed table does not: both need a menu
    // in which a later, longer name sits below an earlier, surviving one.
    let aa: &[&[u8]] = &[b"a", b"a"];
    let aaa: &[&[u8]] = &[b"a", b"a", b"a"];
    v.push(mk("NS a.a. -> a.a.a.", aa, 10, Rd::Ns(Ns::new(name(aaa))), wire_lc(aaa)));
    let mut mx2 = vec![0, 20];
    mx2.extend(wire_lc(aa));
    v.push(mk("MX a. -> a.a.", a, 11, Rd::Mx(Mx::new(20, name(aa))), mx2));
    v
}

#[derive(Clone, Copy, Debug, PartialEq)]
enum Op {
    Q(usize),
    R(usize),
    Opt,
    /// OPT with extended rcode BADCOOKIE (23: low nibble 7 in the header, 1 in the OPT TTL), version 1, two options
    Opt2,
    /// pad record sized so that the message ends exactly at this offset
    PadTo(usize),
    Goto(usize),
    Rewind,
    LimPlus(usize),
    LimHere,
    Clr,
    // --- the ROUTE by which an operation reaches the message (the same items, the same model) ---
    /// record sp[.0] pushed by code that is generic over the record section and knows nothing of it but
    /// the `RecordSectionBuilder` trait; handed over as .1: 1 = Record by value, 2 = &Record,
    /// 3 = the class-less tuple (owner, ttl, data) (class IN is implied)
    RVia(usize, u8),
    /// question .0 handed over as .1: 1 = &Question, 2 = (name, type, class), 3 = (name, type)
    /// (Op::Q hands over a Question by value)
    QForm(usize, u8),
    /// push limit of (current length + .0) set on the underlying message builder reached through
    /// .1: 1 = DerefMut of the section builder, 2 = AsMut<MessageBuilder> (Op::LimPlus uses as_builder_mut())
    LimVia(usize, u8),
}

#[derive(Clone, Debug, PartialEq, Eq, Hash)]
enum Item {
    R(usize),
    Opt,
    Opt2,
    Pad(usize),
}

#[derive(Clone, Default)]
struct Model {
    stage: usize, // 0 question, 1 an, 2 ns, 3 ar
    questions: Vec<usize>,
    sections: [Vec<Item>; 3],
    limit: Option<usize>,
    /// expected header after start_answer/start_error: (id, rd, rcode) - None for a fresh builder
    header: Option<(u16, bool, u8)>,
    /// low rcode bits the header must show (set_rcode of an OPT builder is a header change that stays)
    rcode: u8,
}

enum B<T> {
    Q(QuestionBuilder<T>),
    An(AnswerBuilder<T>),
    Ns(AuthorityBuilder<T>),
    Ar(AdditionalBuilder<T>),
}
impl<T: Clone> Clone for B<T> {
    fn clone(&self) -> Self {
        match self {
            B::Q(b) => B::Q(b.clone()),
            B::An(b) => B::An(b.clone()),
            B::Ns(b) => B::Ns(b.clone()),
            B::Ar(b) => B::Ar(b.clone()),
        }
    }
}
impl<T: Composer> B<T> {
    /// the underlying message builder through DerefMut (via 1) or AsMut<MessageBuilder> (otherwise)
    fn mb_via(&mut self, via: u8) -> &mut MessageBuilder<T> {
        use std::ops::DerefMut;
        match (self, via) {
            (B::Q(b), 1) => b.deref_mut(),
            (B::An(b), 1) => b.deref_mut(),
            (B::Ns(b), 1) => b.deref_mut(),
            (B::Ar(b), 1) => b.deref_mut(),
            (B::Q(b), _) => AsMut::<MessageBuilder<T>>::as_mut(b),
            (B::An(b), _) => AsMut::<MessageBuilder<T>>::as_mut(b),
            (B::Ns(b), _) => AsMut::<MessageBuilder<T>>::as_mut(b),
            (B::Ar(b), _) => AsMut::<MessageBuilder<T>>::as_mut(b),
        }
    }
    /// the header counts as MessageBuilder::counts() shows them through Deref of the section builder
    fn counts_deref(&self) -> [usize; 4] {
        let c = match self {
            B::Q(b) => b.counts(),
            B::An(b) => b.counts(),
            B::Ns(b) => b.counts(),
            B::Ar(b) => b.counts(),
        };
        [c.qdcount() as usize, c.ancount() as usize, c.nscount() as usize, c.arcount() as usize]
    }
    /// the message octets through AsRef<[u8]> of the section builder
    fn slice_asref(&self) -> &[u8] {
        match self {
            B::Q(b) => AsRef::<[u8]>::as_ref(b),
            B::An(b) => AsRef::<[u8]>::as_ref(b),
            B::Ns(b) => AsRef::<[u8]>::as_ref(b),
            B::Ar(b) => AsRef::<[u8]>::as_ref(b),
        }
    }
    fn mb(&mut self) -> &mut MessageBuilder<T> {
        match self {
            B::Q(b) => b.as_builder_mut(),
            B::An(b) => b.as_builder_mut(),
            B::Ns(b) => b.as_builder_mut(),
            B::Ar(b) => b.as_builder_mut(),
        }
    }
    fn slice(&self) -> &[u8] {
        match self {
            B::Q(b) => b.as_slice(),
            B::An(b) => b.as_slice(),
            B::Ns(b) => b.as_slice(),
            B::Ar(b) => b.as_slice(),
        }
    }
    fn target(&self) -> &T {
        match self {
            B::Q(b) => b.as_builder().as_target(),
            B::An(b) => b.as_builder().as_target(),
            B::Ns(b) => b.as_builder().as_target(),
            B::Ar(b) => b.as_builder().as_target(),
        }
    }
}

const QS: [(&[&[u8]], u16); 2] = [(&[b"a"], 1), (&[b"b", b"a"], 15)];

struct Cfg<T> {
    name: &'static str,
    make: fn() -> T,
    /// (stream slice incl. shim) if this is a stream target
    stream: Option<fn(&T) -> Vec<u8>>,
    /// the message octets held by a (finished) target
    view: fn(&T) -> Vec<u8>,
    /// the octets into_message() hands out, where the target supports it
    into_msg: fn(&B<T>) -> Option<Vec<u8>>,
    compressing: bool,
}

/// Apply one operation; returns (new builder, Some(ok) for pushes).
fn pad_record(len: usize) -> Record<N, Rd> {
    Record::new(name(&[b"a"]), Class::IN, Ttl::from_secs(7), Rd::Unknown(UnknownRecordData::from_octets(Rtype::from_int(65283), vec![0xEE; len]).unwrap()))
}

/// Code generic over the record section: all it knows of `S` is the trait (as response-assembling
/// helpers and the validator's message rebuilding are written).
fn push_through_trait<T: Composer, S: RecordSectionBuilder<T>>(section: &mut S, rec: &Record<N, Rd>, form: u8) -> bool {
    match form {
        1 => section.push(rec.clone()),
        2 => section.push(rec),
        _ => section.push((rec.owner().clone(), rec.ttl(), rec.data().clone())),
    }
    .is_ok()
}

fn push_any<T: Tgt>(b: B<T>, rec: Record<N, Rd>) -> (B<T>, Option<bool>) {
    match b {
        B::An(mut x) => {
            let r = x.push(rec).is_ok();
            (B::An(x), Some(r))
        }
        B::Ns(mut x) => {
            let r = x.push(rec).is_ok();
            (B::Ns(x), Some(r))
        }
        B::Ar(mut x) => {
            let r = x.push(rec).is_ok();
            (B::Ar(x), Some(r))
        }
        other => (other, None),
    }
}

/// Returns (builder, push result, pad length used).
fn apply_pad<T: Tgt>(b: B<T>, target: usize) -> (B<T>, Option<bool>, usize) {
    let cur = b.slice().len();
    // measure the overhead of an empty pad on a clone (the owner may or may not get compressed)
    let (probe, ok) = push_any(b.clone(), pad_record(0));
    let overhead = probe.slice().len().saturating_sub(cur);
    if ok != Some(true) || cur + overhead > target || target - cur - overhead > 65000 {
        return (b, None, 0);
    }
    let len = target - cur - overhead;
    let (nb, r) = push_any(b, pad_record(len));
    (nb, r, len)
}

fn apply<T: Tgt>(b: B<T>, op: Op, sp: &[RSpec]) -> (B<T>, Option<bool>) {
    match op {
        Op::PadTo(_) => unreachable!("handled by apply_pad"),
        Op::Q(i) => match b {
            B::Q(mut q) => {
                let r = q.push(Question::new(name(QS[i].0), Rtype::from_int(QS[i].1), Class::IN)).is_ok();
                (B::Q(q), Some(r))
            }
            other => (other, None),
        },
        Op::QForm(i, form) => match b {
            B::Q(mut q) => {
                let (n, t) = (name(QS[i].0), Rtype::from_int(QS[i].1));
                let r = match form {
                    1 => q.push(&Question::new(n, t, Class::IN)),
                    2 => q.push((n, t, Class::IN)),
                    _ => q.push((n, t)),
                }
                .is_ok();
                (B::Q(q), Some(r))
            }
            other => (other, None),
        },
        Op::RVia(i, form) => match b {
            B::An(mut x) => {
                let r = push_through_trait::<T, _>(&mut x, &sp[i].rec, form);
                (B::An(x), Some(r))
            }
            B::Ns(mut x) => {
                let r = push_through_trait::<T, _>(&mut x, &sp[i].rec, form);
                (B::Ns(x), Some(r))
            }
            B::Ar(mut x) => {
                let r = push_through_trait::<T, _>(&mut x, &sp[i].rec, form);
                (B::Ar(x), Some(r))
            }
            other => (other, None),
        },
        Op::LimVia(k, via) => {
            let mut b = b;
            let l = b.slice().len() + k;
            b.mb_via(via).set_push_limit(l);
            (b, None)
        }
        Op::R(i) => match b {
            B::An(mut x) => {
                let r = if PUSH_REF.load(AO::Relaxed) { x.push_ref(&sp[i].rec).is_ok() } else { x.push(sp[i].rec.clone()).is_ok() };
                (B::An(x), Some(r))
            }
            B::Ns(mut x) => {
                let r = x.push(sp[i].rec.clone()).is_ok();
                (B::Ns(x), Some(r))
            }
            B::Ar(mut x) => {
                let r = x.push(sp[i].rec.clone()).is_ok();
                (B::Ar(x), Some(r))
            }
            other => (other, None),
        },
        Op::Opt => match b {
            B::Ar(mut x) => {
                let r = x
                    .opt(|o| {
                        o.set_udp_payload_size(1232);
                        o.set_dnssec_ok(true);
                        o.push_raw_option(domain::base::iana::OptionCode::from_int(65001), 4, |t| t.append_slice(&[1, 2, 3, 4]))
                    })
                    .is_ok();
                (B::Ar(x), Some(r))
            }
            other => (other, None),
        },
        Op::Opt2 => match b {
            B::Ar(mut x) => {
                let r = x
                    .opt(|o| {
                        o.set_udp_payload_size(4096);
                        o.set_version(1);
                        o.set_rcode(domain::base::iana::OptRcode::BADCOOKIE);
                        o.push_raw_option(domain::base::iana::OptionCode::from_int(65001), 2, |t| t.append_slice(&[9, 8]))?;
                        o.push_raw_option(domain::base::iana::OptionCode::from_int(65002), 0, |_| Ok(()))
                    })
                    .is_ok();
                (B::Ar(x), Some(r))
            }
            other => (other, None),
        },
        Op::Goto(st) if ROUTE.load(AO::Relaxed) == 1 => {
            // back to the message builder, forward from there
            let mb = match b {
                B::Q(x) => x.builder(),
                B::An(x) => x.builder(),
                B::Ns(x) => x.builder(),
                B::Ar(x) => x.builder(),
            };
            (
                match st {
                    0 => B::Q(mb.question()),
                    1 => B::An(mb.answer()),
                    2 => B::Ns(mb.authority()),
                    _ => B::Ar(mb.additional()),
                },
                None,
            )
        }
        Op::Goto(st) if ROUTE.load(AO::Relaxed) == 2 => (
            // the From conversions between the builder types
            match (b, st) {
                (B::Q(x), 0) => B::Q(x),
                (B::Q(x), 1) => B::An(x.into()),
                (B::Q(x), 2) => B::Ns(x.into()),
                (B::Q(x), _) => B::Ar(x.into()),
                (B::An(x), 0) => B::Q(x.into()),
                (B::An(x), 1) => B::An(x),
                (B::An(x), 2) => B::Ns(x.into()),
                (B::An(x), _) => B::Ar(x.into()),
                (B::Ns(x), 0) => B::Q(x.into()),
                (B::Ns(x), 1) => B::An(x.into()),
                (B::Ns(x), 2) => B::Ns(x),
                (B::Ns(x), _) => B::Ar(x.into()),
                (B::Ar(x), 0) => B::Q(x.into()),
                (B::Ar(x), 1) => B::An(x.into()),
                (B::Ar(x), 2) => B::Ns(x.into()),
                (B::Ar(x), _) => B::Ar(x),
            },
            None,
        ),
        Op::Goto(st) => (
            match (b, st) {
                (B::Q(x), 0) => B::Q(x.question()),
                (B::Q(x), 1) => B::An(x.answer()),
                (B::Q(x), 2) => B::Ns(x.authority()),
                (B::Q(x), _) => B::Ar(x.additional()),
                (B::An(x), 0) => B::Q(x.question()),
                (B::An(x), 1) => B::An(x.answer()),
                (B::An(x), 2) => B::Ns(x.authority()),
                (B::An(x), _) => B::Ar(x.additional()),
                (B::Ns(x), 0) => B::Q(x.question()),
                (B::Ns(x), 1) => B::An(x.answer()),
                (B::Ns(x), 2) => B::Ns(x.authority()),
                (B::Ns(x), _) => B::Ar(x.additional()),
                (B::Ar(x), 0) => B::Q(x.question()),
                (B::Ar(x), 1) => B::An(x.answer()),
                (B::Ar(x), 2) => B::Ns(x.authority()),
                (B::Ar(x), _) => B::Ar(x.additional()),
            },
            None,
        ),
        Op::Rewind => (
            match b {
                B::Q(mut x) => {
                    x.rewind();
                    B::Q(x)
                }
                B::An(mut x) => {
                    x.rewind();
                    B::An(x)
                }
                B::Ns(mut x) => {
                    x.rewind();
                    B::Ns(x)
                }
                B::Ar(mut x) => {
                    x.rewind();
                    B::Ar(x)
                }
            },
            None,
        ),
        Op::LimPlus(k) => {
            let mut b = b;
            let l = b.slice().len() + k;
            b.mb().set_push_limit(l);
            (b, None)
        }
        Op::LimHere => {
            let mut b = b;
            let l = b.slice().len();
            b.mb().set_push_limit(l);
            (b, None)
        }
        Op::Clr => {
            let mut b = b;
            b.mb().clear_push_limit();
            (b, None)
        }
    }
}

fn enabled(m: &Model, op: Op) -> bool {
    match op {
        Op::Q(_) | Op::QForm(..) => m.stage == 0,
        Op::R(_) | Op::RVia(..) => m.stage >= 1,
        Op::Opt | Op::Opt2 => m.stage == 3 && !m.sections[2].contains(&Item::Opt) && !m.sections[2].contains(&Item::Opt2),
        Op::PadTo(_) => m.stage >= 1,
        Op::Goto(st) => st != m.stage,
        Op::Rewind => true,
        Op::LimPlus(_) | Op::LimHere | Op::LimVia(..) => true,
        Op::Clr => m.limit.is_some(),
    }
}

/// Independent normalisation of RDATA as found in the message.
fn norm_rdata(msg: &[u8], rtype: u16, pos: usize, rdata: &[u8]) -> Result<Vec<u8>, String> {
    norm_rdata_ex(msg, rtype, pos, rdata, false)
}

/// `received`: the message came over the wire (a hand-built source), where a compressed SRV target is
/// tolerated by readers; what the builder writes must never compress it.
fn norm_rdata_ex(msg: &[u8], rtype: u16, pos: usize, rdata: &[u8], received: bool) -> Result<Vec<u8>, String> {
    let mut p = Vec::new();
    let nm = |at: usize, p: &mut Vec<(usize, usize)>| -> Result<(Vec<u8>, usize), String> {
        let (l, after) = read_name(msg, at, p)?;
        Ok((to_wire(&l.iter().map(|x| lower(x)).collect::<Vec<_>>()), after))
    };
    let end = pos + rdata.len();
    match rtype {
        2 | 5 | 12 => {
            let (n, after) = nm(pos, &mut p)?;
            if after != end {
                return Err("NS/CNAME/PTR rdata has trailing octets".into());
            }
            Ok(n)
        }
        15 => {
            let (n, after) = nm(pos + 2, &mut p)?;
            if after != end {
                return Err("MX rdata length".into());
            }
            let mut v = rdata[..2].to_vec();
            v.extend(n);
            Ok(v)
        }
        6 => {
            let (n1, a1) = nm(pos, &mut p)?;
            let (n2, a2) = nm(a1, &mut p)?;
            if a2 + 20 != end {
                return Err("SOA rdata length".into());
            }
            let mut v = n1;
            v.extend(n2);
            v.extend_from_slice(&msg[a2..end]);
            Ok(v)
        }
        33 => {
            let (n, after) = nm(pos + 6, &mut p)?;
            if after != end {
                return Err("SRV rdata length".into());
            }
            if !p.is_empty() && !received {
                return Err("SRV target is compressed (RFC 2782 forbids)".into());
            }
            let mut v = rdata[..6].to_vec();
            v.extend(n);
            Ok(v)
        }
        _ => Ok(rdata.to_vec()),
    }
}

fn check_state<T: Tgt>(cfg: &Cfg<T>, b: &B<T>, m: &Model, sp: &[RSpec]) -> Result<(), (String, String)> {
    let octets = b.slice();
    let raw = read_message(octets).map_err(|e| ("unparseable".to_string(), format!("independent reader fails: {e}")))?;
    if raw.end != octets.len() {
        return Err(("trailing-octets".into(), format!("{} octets after the last counted record", octets.len() - raw.end)));
    }
    let want_counts = [m.questions.len(), m.sections[0].len(), m.sections[1].len(), m.sections[2].len()];
    let got_counts: Vec<usize> = raw.counts.iter().map(|c| *c as usize).collect();
    if got_counts != want_counts {
        return Err(("header-counts".into(), format!("header counts {:?}, successful pushes {:?}", got_counts, want_counts)));
    }
    // the same counts and octets seen through the other views the section builders offer
    if b.counts_deref() != want_counts {
        return Err(("header-counts-through-deref".into(), format!("counts() through Deref of the section builder shows {:?}, successful pushes {:?}", b.counts_deref(), want_counts)));
    }
    if b.slice_asref() != octets {
        return Err(("as_ref-differs".into(), "AsRef<[u8]> of the section builder shows other octets than as_slice()".into()));
    }
    for (i, q) in raw.questions.iter().enumerate() {
        let (l, t) = QS[m.questions[i]];
        if !mc::wire::labels_eq_ci(&q.qname, &labels(l)) || q.qtype != t || q.qclass != 1 {
            return Err(("question-mismatch".into(), format!("question {i} reads back as {:?}/{}", q.qname, q.qtype)));
        }
    }
    for s in 0..3 {
        for (i, r) in raw.sections[s].iter().enumerate() {
            match &m.sections[s][i] {
                Item::Opt => {
                    if r.rtype != 41 || !r.owner.is_empty() || r.class != 1232 || r.rdata != [0xFD, 0xE9, 0, 4, 1, 2, 3, 4] || r.ttl != 0x0000_8000 {
                        return Err(("opt-mismatch".into(), format!("OPT reads back as type {} class {} ttl {:#x} rdata {}", r.rtype, r.class, r.ttl, hex(&r.rdata))));
                    }
                }
                Item::Opt2 => {
                    if r.rtype != 41 || !r.owner.is_empty() || r.class != 4096 || r.ttl != 0x0101_0000 || r.rdata != [0xFD, 0xE9, 0, 2, 9, 8, 0xFD, 0xEA, 0, 0] {
                        return Err(("opt-mismatch".into(), format!("OPT (BADCOOKIE, version 1, two options) reads back as type {} class {} ttl {:#x} rdata {}", r.rtype, r.class, r.ttl, hex(&r.rdata))));
                    }
                }
                Item::Pad(len) => {
                    if r.owner != labels(&[b"a"]) && !mc::wire::labels_eq_ci(&r.owner, &labels(&[b"a"])) || r.rtype != 65283 || r.ttl != 7 || r.rdata.len() != *len || r.rdata.iter().any(|x| *x != 0xEE) {
                        return Err(("pad-mismatch".into(), format!("section {s} record {i} (pad of {len}) reads back as type {} len {}", r.rtype, r.rdata.len())));
                    }
                }
                Item::R(k) => {
                    let spc = &sp[*k];
                    if !mc::wire::labels_eq_ci(&r.owner, &spc.owner) {
                        return Err(("owner-mismatch".into(), format!("section {s} record {i} ({}) owner reads back as {:?}", spc.label, r.owner.iter().map(|l| String::from_utf8_lossy(l).to_string()).collect::<Vec<_>>())));
                    }
                    if r.rtype != spc.rtype || r.class != 1 || r.ttl != spc.ttl {
                        return Err(("fixed-fields-mismatch".into(), format!("section {s} record {i} ({}) type/class/ttl {}/{}/{}", spc.label, r.rtype, r.class, r.ttl)));
                    }
                    let n = norm_rdata(octets, r.rtype, r.rdata_pos, &r.rdata).map_err(|e| ("rdata-unreadable".to_string(), format!("section {s} record {i} ({}): {e}", spc.label)))?;
                    if n != spc.rdata_norm {
                        return Err(("rdata-mismatch".into(), format!("section {s} record {i} ({}) RDATA reads back differently", spc.label)));
                    }
                }
            }
        }
    }
    // header: what start_answer/start_error copied from the request, and the low rcode bits
    {
        let flags = u16::from_be_bytes([octets[2], octets[3]]);
        let id = u16::from_be_bytes([octets[0], octets[1]]);
        if (flags & 0xF) as u8 != m.rcode {
            return Err(("header-rcode".into(), format!("header rcode bits {} expected {}", flags & 0xF, m.rcode)));
        }
        if let Some((want_id, rd, _)) = m.header {
            if id != want_id || flags & 0x8000 == 0 || (flags & 0x0100 != 0) != rd || flags & 0x7800 != 0 {
                return Err(("header-of-response".into(), format!("response header id {id:#x} flags {flags:#06x}: expected id {want_id:#x}, QR set, RD {rd}, opcode QUERY")));
            }
        }
    }
    // every way of ending the build hands out the same octets (each costs a copy of the message:
    // done for messages up to 4 KiB, i.e. everywhere but in the long-pad states)
    if octets.len() <= 4096 {
        let fin: T = match b.clone() {
            B::Q(x) => x.finish(),
            B::An(x) => x.finish(),
            B::Ns(x) => x.finish(),
            B::Ar(x) => x.finish(),
        };
        if (cfg.view)(&fin) != octets {
            return Err(("finish-differs".into(), "finish() hands out other octets than as_slice() showed".into()));
        }
        if let Some(msg_octets) = (cfg.into_msg)(b) {
            if msg_octets != octets {
                return Err(("into_message-differs".into(), "into_message() hands out other octets than as_slice() showed".into()));
            }
        }
        let view: Vec<u8> = match b {
            B::Q(x) => x.as_message().as_slice().to_vec(),
            B::An(x) => x.as_message().as_slice().to_vec(),
            B::Ns(x) => x.as_message().as_slice().to_vec(),
            B::Ar(x) => x.as_message().as_slice().to_vec(),
        };
        if view != octets {
            return Err(("as_message-differs".into(), "as_message() shows other octets than as_slice()".into()));
        }
    }
    // every pointer targets an offset expressible in 14 bits that lies before it
    for (at, tgt) in &raw.pointers {
        if *tgt >= 0x4000 || tgt >= at {
            return Err(("bad-pointer".into(), format!("pointer at {at} -> {tgt}")));
        }
    }
    // the library's own reader agrees on the record count and can parse all data
    let lm = Message::from_octets(octets).map_err(|_| ("lib-short".to_string(), "Message::from_octets fails".to_string()))?;
    let mut n = 0;
    for item in lm.iter() {
        let (r, _) = item.map_err(|e| ("lib-reader-fails".to_string(), format!("Message::iter: {e}")))?;
        r.to_any_record::<AllRecordData<_, domain::base::name::ParsedName<_>>>().map_err(|e| ("lib-reader-fails".to_string(), format!("to_any_record: {e}")))?;
        n += 1;
    }
    if n != want_counts[1] + want_counts[2] + want_counts[3] {
        return Err(("lib-reader-count".into(), "Message::iter yields a different number of records".into()));
    }
    if let Some(f) = cfg.stream {
        let s = f(b.target());
        if s.len() < 2 || usize::from(u16::from_be_bytes([s[0], s[1]])) != s.len() - 2 || &s[2..] != octets {
            return Err(("stream-shim".into(), format!("length prefix {:?} but message is {} octets", &s[..2.min(s.len())], octets.len())));
        }
    }
    Ok(())
}

struct Shared<'a> {
    ctx: &'a Ctx,
    stats: &'a Stats,
    sp: &'a [RSpec],
    ops: &'a [Op],
    transitions: AtomicU64,
    pushes_ok: AtomicU64,
    pushes_err: AtomicU64,
}

fn dfs<T: Tgt>(sh: &Shared, cfg: &Cfg<T>, b: &B<T>, m: &Model, hist: &mut Vec<Op>, depth: usize) {
    if depth == 0 {
        return;
    }
    for &op in sh.ops {
        if !enabled(m, op) {
            continue;
        }
        hist.push(op);
        sh.transitions.fetch_add(1, AO::Relaxed);
        let before = b.slice().to_vec();
        let mut pad_len = 0usize;
        let r = guard(|| match op {
            Op::PadTo(t) => {
                let (nb, res, len) = apply_pad(b.clone(), t);
                pad_len = len;
                (nb, res)
            }
            _ => apply(b.clone(), op, sh.sp),
        });
        let case = |h: &Vec<Op>| json!({"config": cfg.name, "ops": h.iter().map(|o| format!("{:?}", o)).collect::<Vec<_>>()});
        match r {
            Err(p) => {
                sh.ctx.violation(&format!("C02|{}|panic|{}", comp_of(cfg.name), panic_class(&p)), &p, case(hist));
            }
            Ok((nb, res)) => {
                let mut nm = m.clone();
                let mut tainted = false;
                match (op, res) {
                    (Op::Q(i), Some(true)) | (Op::QForm(i, _), Some(true)) => nm.questions.push(i),
                    (Op::R(i), Some(true)) | (Op::RVia(i, _), Some(true)) => nm.sections[m.stage - 1].push(Item::R(i)),
                    (Op::Opt, Some(true)) => nm.sections[2].push(Item::Opt),
                    (Op::Opt2, Some(true)) => {
                        nm.sections[2].push(Item::Opt2);
                        nm.rcode = 7;
                    }
                    (Op::PadTo(_), Some(true)) => nm.sections[m.stage - 1].push(Item::Pad(pad_len)),
                    (Op::PadTo(_), None) => {
                        // target not reachable from here: not an operation
                        hist.pop();
                        continue;
                    }
                    (_, Some(false)) => {
                        sh.pushes_err.fetch_add(1, AO::Relaxed);
                        // a failed push must leave octets (and thereby counts) exactly as they were
                        if nb.slice() != &before[..] {
                            tainted = sh.ctx.violation(
                                &format!("C02|{}|failed-push-changed-message|{:?}", comp_of(cfg.name), op_kind(op)),
                                &format!("failed {:?} left {} octets (before: {}), or different content", op, nb.slice().len(), before.len()),
                                case(hist),
                            );
                            tainted = true || tainted;
                        }
                    }
                    (Op::Goto(st), _) if ROUTE.load(AO::Relaxed) == 1 => {
                        // documented: builder() drops all questions and records
                        nm.questions.clear();
                        for s in 0..3 {
                            nm.sections[s].clear();
                        }
                        nm.stage = st;
                    }
                    (Op::Goto(st), _) => {
                        // going back drops all later sections; the section entered keeps its content
                        if st < nm.stage {
                            for s in st..3 {
                                nm.sections[s].clear();
                            }
                        }
                        nm.stage = st;
                    }
                    (Op::Rewind, _) => {
                        if m.stage == 0 {
                            nm.questions.clear();
                        } else {
                            nm.sections[m.stage - 1].clear();
                        }
                    }
                    (Op::LimPlus(k), _) | (Op::LimVia(k, _), _) => nm.limit = Some(before.len() + k),
                    (Op::LimHere, _) => nm.limit = Some(before.len()),
                    (Op::Clr, _) => nm.limit = None,
                    _ => {}
                }
                if res == Some(true) {
                    sh.pushes_ok.fetch_add(1, AO::Relaxed);
                    // the push limit is an upper bound on the message size
                    if let Some(l) = m.limit {
                        if nb.slice().len() > l {
                            sh.ctx.violation(&format!("C02|{}|push-limit-exceeded", comp_of(cfg.name)), &format!("push succeeded: {} octets with push limit {}", nb.slice().len(), l), case(hist));
                        }
                    }
                    if nb.slice().len() > 65535 {
                        // Outside the property's domain ("up to the 65535-octet
                        // limit"): a plain Vec target has no size limit of its
                        // own. Not explored further. A stream target must refuse.
                        if cfg.stream.is_some() {
                            sh.ctx.violation(&format!("C02|{}|stream-target-over-65535", comp_of(cfg.name)), "push on a stream target succeeded beyond 65535 octets", case(hist));
                        }
                        sh.stats.count("beyond-65535-not-explored");
                        hist.pop();
                        continue;
                    }
                }
                if !tainted {
                    let chk = guard(|| check_state(cfg, &nb, &nm, sh.sp));
                    match chk {
                        Ok(Ok(())) => {
                            sh.stats.distinct(fnv(nb.slice()) ^ (nm.stage as u64) << 60 ^ nm.limit.unwrap_or(0) as u64);
                            dfs(sh, cfg, &nb, &nm, hist, depth - 1);
                        }
                        Ok(Err((class, why))) => {
                            let big = if nb.slice().len() >= 0x4000 { ">=0x4000" } else { "<0x4000" };
                            sh.ctx.violation(&format!("C02|{}|{}|message-size{}{}", comp_of(cfg.name), class, big, route_class(op)), &why, case(hist));
                        }
                        Err(p) => {
                            sh.ctx.violation(&format!("C02|{}|oracle-panic|{}", comp_of(cfg.name), panic_class(&p)), &p, case(hist));
                        }
                    }
                }
            }
        }
        hist.pop();
    }
}

/// Signature suffix naming the route of the operation after which the state is wrong (empty for the
/// inherent methods, so that the signatures of the other passes stay as they are).
fn route_class(op: Op) -> &'static str {
    match op {
        Op::RVia(..) => "|record-through-section-trait",
        Op::QForm(..) => "|question-by-ref-or-tuple",
        Op::LimVia(..) => "|limit-through-deref-or-as_mut",
        _ => "",
    }
}

fn op_kind(op: Op) -> &'static str {
    match op {
        Op::Q(_) => "question",
        Op::R(_) => "record",
        Op::QForm(..) => "question-by-ref-or-tuple",
        Op::RVia(..) => "record-through-section-trait",
        Op::Opt | Op::Opt2 => "opt",
        Op::PadTo(_) => "pad",
        _ => "other",
    }
}

fn comp_of(cfg: &str) -> &str {
    cfg.split('/').next().unwrap_or(cfg)
}

/// The request that start_answer/start_error answer: ID 0x5A5A, RD set, question QS[0].
fn request_message() -> Message<Vec<u8>> {
    let mut b = MessageBuilder::new_vec();
    b.header_mut().set_id(0x5A5A);
    b.header_mut().set_rd(true);
    let mut q = b.question();
    q.push(Question::new(name(QS[0].0), Rtype::from_int(QS[0].1), Class::IN)).unwrap();
    q.into_message()
}

fn init_builder<T: Tgt>(cfg: &Cfg<T>) -> B<T> {
    let mb = MessageBuilder::from_target((cfg.make)()).ok().expect("harness: target");
    match INIT.load(AO::Relaxed) {
        0 => B::Q(mb.question()),
        1 => B::An(mb.start_answer(&request_message(), domain::base::iana::Rcode::NXDOMAIN).ok().expect("harness: start_answer")),
        _ => B::An(mb.start_error(&request_message(), domain::base::iana::Rcode::SERVFAIL)),
    }
}

fn init_model() -> Model {
    match INIT.load(AO::Relaxed) {
        0 => Model::default(),
        k => Model { stage: 1, questions: vec![0], header: Some((0x5A5A, true, 0)), rcode: if k == 1 { 3 } else { 2 }, ..Model::default() },
    }
}

fn run_cfg<T: Tgt + Send + Sync>(sh: &Shared, cfg: &Cfg<T>, depth: usize, start: Option<Vec<Op>>) {
    let init = || init_builder(cfg);
    if let Some(h) = start {
        // replay a single history step by step
        let mut b = init();
        let mut m = init_model();
        for (i, op) in h.iter().enumerate() {
            let sh1 = Shared { ops: std::slice::from_ref(op), ..shared_clone(sh) };
            let mut hist: Vec<Op> = h[..i].to_vec();
            dfs(&sh1, cfg, &b, &m, &mut hist, 1);
            // advance
            let before = b.slice().len();
            let (nb, res) = match op {
                Op::PadTo(t) => {
                    let (nb, res, len) = apply_pad(b, *t);
                    if res == Some(true) {
                        m.sections[m.stage - 1].push(Item::Pad(len));
                    }
                    (nb, res)
                }
                _ => {
                    let (nb, res) = apply(b, *op, sh.sp);
                    advance_model(&mut m, *op, res, before);
                    (nb, res)
                }
            };
            b = nb;
            println!("  after {:?}: {} octets, result {:?}", op, b.slice().len(), res);
        }
        return;
    }
    let b0 = init();
    let m0 = init_model();
    // parallelise over the first two operations
    let firsts: Vec<Op> = sh.ops.iter().cloned().filter(|o| enabled(&m0, *o) && !matches!(o, Op::PadTo(_))).collect();
    firsts.par_iter().for_each(|&o1| {
        let sh1 = Shared { ops: std::slice::from_ref(&o1), ..shared_clone(sh) };
        // execute o1 with checking via a depth-1 dfs, then continue manually
        let mut hist = vec![];
        dfs(&sh1, cfg, &b0, &m0, &mut hist, 1);
        let before = b0.slice().len();
        if let Ok((b1, res)) = guard(|| apply(b0.clone(), o1, sh.sp)) {
            let mut m1 = m0.clone();
            advance_model(&mut m1, o1, res, before);
            if check_state(cfg, &b1, &m1, sh.sp).is_ok() {
                let seconds: Vec<Op> = sh.ops.iter().cloned().filter(|o| enabled(&m1, *o) && !matches!(o, Op::PadTo(_))).collect();
                seconds.par_iter().for_each(|&o2| {
                    let sh2 = Shared { ops: std::slice::from_ref(&o2), ..shared_clone(sh) };
                    let mut hist = vec![o1];
                    dfs(&sh2, cfg, &b1, &m1, &mut hist, 1);
                    let before = b1.slice().len();
                    if let Ok((b2, res)) = guard(|| apply(b1.clone(), o2, sh.sp)) {
                        let mut m2 = m1.clone();
                        advance_model(&mut m2, o2, res, before);
                        let unchanged_ok = res != Some(false) || b2.slice().len() == before;
                        if unchanged_ok && check_state(cfg, &b2, &m2, sh.sp).is_ok() {
                            let mut hist = vec![o1, o2];
                            dfs(sh, cfg, &b2, &m2, &mut hist, depth - 2);
                        }
                    }
                });
            }
        }
    });
}

fn shared_clone<'a>(sh: &Shared<'a>) -> Shared<'a> {
    Shared { ctx: sh.ctx, stats: sh.stats, sp: sh.sp, ops: sh.ops, transitions: AtomicU64::new(0), pushes_ok: AtomicU64::new(0), pushes_err: AtomicU64::new(0) }
}

fn advance_model(m: &mut Model, op: Op, res: Option<bool>, before_len: usize) {
    match (op, res) {
        (Op::PadTo(_), _) => unreachable!("PadTo is never a prefix operation"),
        (Op::Q(i), Some(true)) | (Op::QForm(i, _), Some(true)) => m.questions.push(i),
        (Op::R(i), Some(true)) | (Op::RVia(i, _), Some(true)) => m.sections[m.stage - 1].push(Item::R(i)),
        (Op::Opt, Some(true)) => m.sections[2].push(Item::Opt),
        (Op::Opt2, Some(true)) => {
            m.sections[2].push(Item::Opt2);
            m.rcode = 7;
        }
        (Op::Goto(st), _) if ROUTE.load(AO::Relaxed) == 1 => {
            m.questions.clear();
            for s in 0..3 {
                m.sections[s].clear();
            }
            m.stage = st;
        }
        (Op::Goto(st), _) => {
            if st < m.stage {
                for s in st..3 {
                    m.sections[s].clear();
                }
            }
            m.stage = st;
        }
        (Op::Rewind, _) => {
            if m.stage == 0 {
                m.questions.clear();
            } else {
                m.sections[m.stage - 1].clear();
            }
        }
        (Op::LimPlus(k), _) | (Op::LimVia(k, _), _) => m.limit = Some(before_len + k),
        (Op::LimHere, _) => m.limit = Some(before_len),
        (Op::Clr, _) => m.limit = None,
        _ => {}
    }
}

fn parse_op(s: &str) -> Op {
    let num = |s: &str| s.trim_end_matches(')').split('(').nth(1).unwrap().parse::<usize>().unwrap();
    let two = |s: &str| {
        let inner = s.trim_end_matches(')').split('(').nth(1).unwrap().to_string();
        let mut it = inner.split(',').map(|x| x.trim().parse::<usize>().unwrap());
        (it.next().unwrap(), it.next().unwrap() as u8)
    };
    if s.starts_with("RVia(") {
        let (a, b) = two(s);
        Op::RVia(a, b)
    } else if s.starts_with("QForm(") {
        let (a, b) = two(s);
        Op::QForm(a, b)
    } else if s.starts_with("LimVia(") {
        let (a, b) = two(s);
        Op::LimVia(a, b)
    } else if s.starts_with("Q(") {
        Op::Q(num(s))
    } else if s.starts_with("R(") {
        Op::R(num(s))
    } else if s.starts_with("PadTo(") {
        Op::PadTo(num(s))
    } else if s.starts_with("Goto(") {
        Op::Goto(num(s))
    } else if s.starts_with("LimPlus(") {
        Op::LimPlus(num(s))
    } else {
        match s {
            "Opt" => Op::Opt,
        "Opt2" => Op::Opt2,
            "Rewind" => Op::Rewind,
            "LimHere" => Op::LimHere,
            "Clr" => Op::Clr,
            _ => panic!("bad op {s}"),
        }
    }
}

macro_rules! cfgs {
    ($e:ident) => {{
        go(&$e, &Cfg { name: "none/Vec", make: || Vec::<u8>::new(), into_msg: |b| into_msg(b), view: |t| AsRef::<[u8]>::as_ref(t).to_vec(), stream: None, compressing: false });
        go(&$e, &Cfg { name: "static/Vec", make: || StaticCompressor::new(Vec::<u8>::new()), into_msg: |b| into_msg(b), view: |t| AsRef::<[u8]>::as_ref(t.as_target()).to_vec(), stream: None, compressing: true });
        go(&$e, &Cfg { name: "tree/Vec", make: || TreeCompressor::new(Vec::<u8>::new()), into_msg: |b| into_msg(b), view: |t| AsRef::<[u8]>::as_ref(t.as_target()).to_vec(), stream: None, compressing: true });
        go(&$e, &Cfg { name: "hash/Vec", make: || HashCompressor::new(Vec::<u8>::new()), into_msg: |b| into_msg(b), view: |t| AsRef::<[u8]>::as_ref(t.as_target()).to_vec(), stream: None, compressing: true });
        go(&$e, &Cfg { name: "none/Stream<Vec>", make: || StreamTarget::new_vec(), into_msg: |_| None, view: |t| t.as_dgram_slice().to_vec(), stream: Some(|t| t.as_stream_slice().to_vec()), compressing: false });
        go(&$e, &Cfg { name: "static/Stream<Vec>", make: || StaticCompressor::new(StreamTarget::new_vec()), into_msg: |_| None, view: |t| t.as_target().as_dgram_slice().to_vec(), stream: Some(|t| t.as_target().as_stream_slice().to_vec()), compressing: true });
        go(&$e, &Cfg { name: "tree/Stream<Vec>", make: || TreeCompressor::new(StreamTarget::new_vec()), into_msg: |_| None, view: |t| t.as_target().as_dgram_slice().to_vec(), stream: Some(|t| t.as_target().as_stream_slice().to_vec()), compressing: true });
        go(&$e, &Cfg { name: "hash/Stream<Vec>", make: || HashCompressor::new(StreamTarget::new_vec()), into_msg: |_| None, view: |t| t.as_target().as_dgram_slice().to_vec(), stream: Some(|t| t.as_target().as_stream_slice().to_vec()), compressing: true });
        go(&$e, &Cfg { name: "none/BytesMut", make: || BytesMut::new(), into_msg: |b| into_msg(b), view: |t| AsRef::<[u8]>::as_ref(t).to_vec(), stream: None, compressing: false });
        go(&$e, &Cfg { name: "tree/BytesMut", make: || TreeCompressor::new(BytesMut::new()), into_msg: |b| into_msg(b), view: |t| AsRef::<[u8]>::as_ref(t.as_target()).to_vec(), stream: None, compressing: true });
        go(&$e, &Cfg { name: "hash/Stream<BytesMut>", make: || HashCompressor::new(StreamTarget::new_bytes()), into_msg: |_| None, view: |t| t.as_target().as_dgram_slice().to_vec(), stream: Some(|t| t.as_target().as_stream_slice().to_vec()), compressing: true });
        go(&$e, &Cfg { name: "none/Array<100>", make: || octseq::Array::<100>::new(), into_msg: |b| into_msg(b), view: |t| AsRef::<[u8]>::as_ref(t).to_vec(), stream: None, compressing: false });
        go(&$e, &Cfg { name: "static/Array<100>", make: || StaticCompressor::new(octseq::Array::<100>::new()), into_msg: |b| into_msg(b), view: |t| AsRef::<[u8]>::as_ref(t.as_target()).to_vec(), stream: None, compressing: true });
        go(&$e, &Cfg { name: "tree/Array<600>", make: || TreeCompressor::new(octseq::Array::<600>::new()), into_msg: |b| into_msg(b), view: |t| AsRef::<[u8]>::as_ref(t.as_target()).to_vec(), stream: None, compressing: true });
        go(&$e, &Cfg { name: "hash/Array<600>", make: || HashCompressor::new(octseq::Array::<600>::new()), into_msg: |b| into_msg(b), view: |t| AsRef::<[u8]>::as_ref(t.as_target()).to_vec(), stream: None, compressing: true });
        go(&$e, &Cfg { name: "static/Stream<Array<600>>", make: || StaticCompressor::new(StreamTarget::new(octseq::Array::<600>::new()).unwrap()), into_msg: |_| None, view: |t| t.as_target().as_dgram_slice().to_vec(), stream: Some(|t| t.as_target().as_stream_slice().to_vec()), compressing: true });
    }};
}

// ---------------------------------------------------------------------------
// Part V: records of EVERY type. For every value of the shared generator's
// compact menu (all record types; mc::rgen gives the library value together
// with an independent reference RDATA and the position of every embedded
// name) in three contexts on every target x compressor configuration.
// ---------------------------------------------------------------------------

/// Compare the RDATA at `pos..pos+len` of `msg` with the reference: literal
/// octets must be identical, names (possibly compressed) must read back as
/// the same labels.
fn rdata_reads_back(msg: &[u8], pos: usize, len: usize, v: &mc::rgen::Value) -> Result<(), String> {
    let mut cursor = pos;
    let mut ri = 0usize;
    let mut names = v.names.clone();
    names.sort();
    let mut ptrs = Vec::new();
    for (off, nlen) in names {
        let lit = &v.wire[ri..off];
        if msg.get(cursor..cursor + lit.len()) != Some(lit) {
            return Err(format!("octets {}..{} of the RDATA differ from what was pushed", ri, off));
        }
        cursor += lit.len();
        let (got, after) = read_name(msg, cursor, &mut ptrs).map_err(|e| format!("name at RDATA offset {off}: {e}"))?;
        let (want, _) = read_name(&v.wire[off..off + nlen], 0, &mut Vec::new()).map_err(|e| format!("reference name: {e}"))?;
        if !mc::wire::labels_eq_ci(&got, &want) {
            return Err(format!("name at RDATA offset {off} reads back as a different name"));
        }
        cursor = after;
        ri = off + nlen;
    }
    let lit = &v.wire[ri..];
    if msg.get(cursor..cursor + lit.len()) != Some(lit) {
        return Err(format!("octets {}.. of the RDATA differ from what was pushed", ri));
    }
    cursor += lit.len();
    if cursor != pos + len {
        return Err(format!("RDLENGTH {} but the data pushed occupies {} octets", len, cursor - pos));
    }
    Ok(())
}

/// The WRAPPER through which the record data of a value reaches the builder. Each is its own
/// `ComposeRecordData` implementation (own `rdlen`, own `compose_rdata`) in front of the same data:
/// the `AllRecordData` enum, the `ZoneRecordData` enum (what zone trees, zone files and XFR hand
/// out; for the types it has), the concrete type inside the enum, `UnknownRecordData` over the
/// reference RDATA (the opaque RFC 3597 route), and a `&`-reference to each (the blanket impl).
#[derive(Clone, Copy, Debug, PartialEq)]
enum Wrap {
    All,
    AllRef,
    Zone,
    ZoneRef,
    Concrete,
    ConcreteRef,
    Opaque,
    OpaqueRef,
}
const WRAPS: [Wrap; 8] = [Wrap::All, Wrap::AllRef, Wrap::Zone, Wrap::ZoneRef, Wrap::Concrete, Wrap::ConcreteRef, Wrap::Opaque, Wrap::OpaqueRef];
impl Wrap {
    fn label(self) -> &'static str {
        match self {
            Wrap::All => "AllRecordData",
            Wrap::AllRef => "ref-AllRecordData",
            Wrap::Zone => "ZoneRecordData",
            Wrap::ZoneRef => "ref-ZoneRecordData",
            Wrap::Concrete => "concrete-type",
            Wrap::ConcreteRef => "ref-concrete-type",
            Wrap::Opaque => "UnknownRecordData",
            Wrap::OpaqueRef => "ref-UnknownRecordData",
        }
    }
}

/// The value's data taken out of the enum and pushed with its own type (by value or by reference).
/// Err(b): the variant is not in the list below (a variant added to the library later).
fn push_concrete<T: Tgt>(b: B<T>, owner: N, class: Class, ttl: Ttl, data: &Rd, by_ref: bool) -> Result<(B<T>, Option<bool>), B<T>> {
    macro_rules! arms {
        ($($v:ident),*) => {
            match data {
                $( Rd::$v(x) => Ok(if by_ref { push_gen(b, Record::new(owner, class, ttl, x)) } else { push_gen(b, Record::new(owner, class, ttl, x.clone())) }), )*
                #[allow(unreachable_patterns)]
                _ => Err(b),
            }
        };
    }
    arms!(
        A, Cname, Hinfo, Mb, Md, Mf, Mg, Minfo, Mr, Mx, Ns, Ptr, Soa, Txt, Null, Aaaa, Caa, Cdnskey, Cds, Dname, Dnskey, Rrsig, Nsec, Ds, Ipseckey, Naptr, Nsec3, Nsec3param, Openpgpkey, Rp, Srv, Sshfp,
        Svcb, Https, Tlsa, Tsig, Zonemd, Opt, Unknown
    )
}

/// Err(b): this value cannot be handed over through this wrapper (not a zone type, ...).
fn push_wrapped<T: Tgt>(b: B<T>, owner: N, class: Class, ttl: Ttl, v: &mc::rgen::Value, wrap: Wrap) -> Result<(B<T>, Option<bool>), B<T>> {
    match wrap {
        Wrap::All => Ok(push_any(b, Record::new(owner, class, ttl, v.data.clone()))),
        Wrap::AllRef => Ok(push_gen(b, Record::new(owner, class, ttl, &v.data))),
        Wrap::Zone | Wrap::ZoneRef => {
            let z: Result<mc::rgen::ZRd, Rd> = v.data.clone().into();
            match z {
                Ok(z) if wrap == Wrap::Zone => Ok(push_gen(b, Record::new(owner, class, ttl, z))),
                Ok(z) => Ok(push_gen(b, Record::new(owner, class, ttl, &z))),
                Err(_) => Err(b),
            }
        }
        Wrap::Concrete => push_concrete(b, owner, class, ttl, &v.data, false),
        Wrap::ConcreteRef => push_concrete(b, owner, class, ttl, &v.data, true),
        Wrap::Opaque | Wrap::OpaqueRef => match UnknownRecordData::from_octets(Rtype::from_int(v.rtype), v.wire.clone()) {
            Ok(u) if wrap == Wrap::Opaque => Ok(push_gen(b, Record::new(owner, class, ttl, u))),
            Ok(u) => Ok(push_gen(b, Record::new(owner, class, ttl, &u))),
            Err(_) => Err(b),
        },
    }
}

fn part_values<T: Tgt + Send + Sync>(env: &Env, cfg: &Cfg<T>, vals: &[mc::rgen::Value]) {
    let sp = env.sh.sp;
    let ctx = env.sh.ctx;
    let per_wrap: Vec<AtomicU64> = WRAPS.iter().map(|_| AtomicU64::new(0)).collect();
    vals.par_iter().enumerate().for_each(|(vi, v)| {
        // contexts 3..=8: the same value pushed through each form a record can be handed over in
        // ((name, class, ttl, data) tuples with Ttl or u32, class-less tuples, &Record, Record) with
        // boundary TTLs and a class other than IN; every 4th value only
        for context in 0..if vi % 4 == 0 { 9usize } else { 3usize } {
          // the wrapper dimension: every wrapper in the three contexts in which names get compressed
          // (contexts 3..=8 vary the FORM of the record around the AllRecordData value)
          for (wi, &wrap) in WRAPS.iter().enumerate() {
            if context >= 3 && wrap != Wrap::All {
                continue;
            }
            // (class, ttl) the value's record is expected to read back with
            let (want_class, want_ttl): (u16, u32) = match context {
                3 => (3, 0x8000_0000),
                4 => (4, 0xFFFF_FFFF),
                5 => (1, 0x7FFF_FFFF),
                6 => (1, 0x8000_0001),
                7 => (254, 0xFFFF_FFFE),
                8 => (255, 0x8000_0000),
                _ => (1, 77),
            };
            // Ok(false): the value cannot be handed over through this wrapper
            let res = guard(|| -> Result<bool, (String, String)> {
                let mut b: B<T> = B::Q(MessageBuilder::from_target((cfg.make)()).map_err(|_| ("from_target".to_string(), "from_target failed".to_string()))?.question());
                // (what we expect to read back in the answer section)
                enum Exp<'a> {
                    Spec(usize),
                    Val(&'a mc::rgen::Value),
                }
                let mut exp: Vec<Exp> = Vec::new();
                let mut nq = 0;
                if context != 2 {
                    let (nb, _) = apply(b, Op::Q(0), sp);
                    b = nb;
                    nq = 1;
                }
                let (nb, _) = apply(b, Op::Goto(1), sp);
                b = nb;
                let mut plan: Vec<Option<usize>> = Vec::new(); // Some(spec) or None = the value
                if context == 1 {
                    plan.push(Some(1)); // NS b.a. -> c.b.a.: names to compress against
                }
                plan.push(None);
                if context == 2 {
                    plan.push(None); // the same value again: compress against itself
                }
                plan.push(Some(0)); // sentinel: A a.
                for it in plan {
                    let before = b.slice().to_vec();
                    let owner = name(&[b"o", b"b", b"a"]);
                    let (nb, r) = match (it, context) {
                        (Some(k), _) => push_any(b, sp[k].rec.clone()),
                        (None, 3) => push_gen(b, (owner, Class::from_int(want_class), Ttl::from_secs(want_ttl), v.data.clone())),
                        (None, 4) => push_gen(b, (owner, Class::from_int(want_class), want_ttl, v.data.clone())),
                        (None, 5) => push_gen(b, (owner, Ttl::from_secs(want_ttl), v.data.clone())),
                        (None, 6) => push_gen(b, (owner, want_ttl, v.data.clone())),
                        (None, 7) => push_gen(b, &Record::new(owner, Class::from_int(want_class), Ttl::from_secs(want_ttl), v.data.clone())),
                        (None, _) => match push_wrapped(b, owner, Class::from_int(want_class), Ttl::from_secs(want_ttl), v, wrap) {
                            Ok(x) => x,
                            Err(_) => return Ok(false),
                        },
                    };
                    b = nb;
                    match r {
                        Some(true) => exp.push(match it {
                            Some(k) => Exp::Spec(k),
                            None => Exp::Val(v),
                        }),
                        Some(false) => {
                            if b.slice() != &before[..] {
                                return Err(("failed-push-changed-message".into(), "a refused push changed the message octets".into()));
                            }
                        }
                        None => return Err(("harness".into(), "push outside a record section".into())),
                    }
                }
                env.sh.transitions.fetch_add(1, AO::Relaxed);
                let octets = b.slice();
                let raw = read_message(octets).map_err(|e| ("unparseable".to_string(), format!("independent reader fails: {e}")))?;
                if raw.end != octets.len() {
                    return Err(("trailing-octets".into(), format!("{} octets after the last counted record", octets.len() - raw.end)));
                }
                if raw.counts.iter().map(|c| *c as usize).collect::<Vec<_>>() != vec![nq, exp.len(), 0, 0] {
                    return Err(("header-counts".into(), format!("header counts {:?}, successful pushes [{nq}, {}, 0, 0]", raw.counts, exp.len())));
                }
                for (i, (r, e)) in raw.sections[0].iter().zip(&exp).enumerate() {
                    match e {
                        Exp::Spec(k) => {
                            let spc = &sp[*k];
                            let n = norm_rdata(octets, r.rtype, r.rdata_pos, &r.rdata).map_err(|e| ("rdata-unreadable".to_string(), format!("record {i} ({}): {e}", spc.label)))?;
                            if !mc::wire::labels_eq_ci(&r.owner, &spc.owner) || r.rtype != spc.rtype || r.class != 1 || r.ttl != spc.ttl || n != spc.rdata_norm {
                                return Err(("neighbour-record-mismatch".into(), format!("record {i} ({}) next to the value reads back differently", spc.label)));
                            }
                        }
                        Exp::Val(v) => {
                            if !mc::wire::labels_eq_ci(&r.owner, &labels(&[b"o", b"b", b"a"])) || r.rtype != v.rtype || r.class != want_class || r.ttl != want_ttl {
                                return Err(("fixed-fields-mismatch".into(), format!("record {i}: owner/type/class/ttl read back as {:?}/{}/{}/{}, pushed with class {want_class} ttl {want_ttl}", r.owner, r.rtype, r.class, r.ttl)));
                            }
                            rdata_reads_back(octets, r.rdata_pos, r.rdata.len(), v).map_err(|e| ("rdata-mismatch".to_string(), format!("record {i}: {e}")))?;
                            // opaque data is written as it is: not one octet of it is the builder's to change
                            if matches!(wrap, Wrap::Opaque | Wrap::OpaqueRef) && r.rdata != v.wire {
                                return Err(("opaque-rdata-changed".into(), format!("record {i}: data pushed as UnknownRecordData reads back as other octets")));
                            }
                        }
                    }
                }
                for (at, tgt) in &raw.pointers {
                    if *tgt >= 0x4000 || tgt >= at {
                        return Err(("bad-pointer".into(), format!("pointer at {at} -> {tgt}")));
                    }
                }
                let lm = Message::from_octets(octets).map_err(|_| ("lib-short".to_string(), "Message::from_octets fails".to_string()))?;
                for item in lm.iter() {
                    let (r, _) = item.map_err(|e| ("lib-reader-fails".to_string(), format!("Message::iter: {e}")))?;
                    r.to_any_record::<AllRecordData<_, domain::base::name::ParsedName<_>>>().map_err(|e| ("lib-reader-fails".to_string(), format!("to_any_record: {e}")))?;
                }
                if let Some(f) = cfg.stream {
                    let s = f(b.target());
                    if s.len() < 2 || usize::from(u16::from_be_bytes([s[0], s[1]])) != s.len() - 2 || &s[2..] != octets {
                        return Err(("stream-shim".into(), "length prefix differs from the message length".into()));
                    }
                }
                Ok(true)
            });
            if let Ok(Ok(false)) = res {
                continue;
            }
            env.stats.eval();
            per_wrap[wi].fetch_add(1, AO::Relaxed);
            if wrap != Wrap::All {
                env.stats.distinct(fnv(format!("V|{}|{}|{context}|{}|{}", cfg.name, wrap.label(), v.mnemonic, v.index).as_bytes()));
            }
            let case = || json!({"config": cfg.name, "part": "every-type", "context": context, "pushed_as": wrap.label(), "value": v.desc, "rtype": v.rtype});
            // (the wrapper is part of the class; the signatures of the AllRecordData route stay as they were)
            let via = if wrap == Wrap::All { String::new() } else { format!("|pushed-as-{}", wrap.label()) };
            match res {
                Ok(Ok(_)) => {}
                Ok(Err((kind, what))) => {
                    // what the library's own typed reader makes of a well-formed record does not depend on the compressor
                    let sig = if kind == "lib-reader-fails" {
                        // the stage that failed, not the wording of its error
                        let class: String = what.split(':').next().unwrap_or("").to_string();
                        format!("C02|every-type|lib-reader-fails|{}|{}", v.mnemonic, class)
                    } else {
                        format!("C02|{}|every-type|{}|{}{via}", comp_of(cfg.name), kind, v.mnemonic)
                    };
                    ctx.violation(&sig, &format!("{what} [{} pushed as {} in context {context} on {}]", v.desc, wrap.label(), cfg.name), case());
                }
                Err(p) => {
                    ctx.violation(&format!("C02|{}|every-type|panic|{}{via}", comp_of(cfg.name), panic_class(&p)), &p, case());
                }
            }
          }
        }
    });
    env.stats.count_n(&format!("{}.every_type_cases", cfg.name), per_wrap.iter().map(|c| c.load(AO::Relaxed)).sum());
    for (w, c) in WRAPS.iter().zip(&per_wrap) {
        env.stats.count_n(&format!("every_type.pushed_as.{}", w.label()), c.load(AO::Relaxed));
    }
}


// ---------------------------------------------------------------------------
// Part P: records and questions taken from ANOTHER message (ParsedName owners
// and ParsedName inside the record data, as Message::copy_records, proxies
// and the XFR/zone code hand them to the builder). The source messages are
// laid out by hand with every layering of compression the parser accepts:
// bare pointer to a flat name, labels + pointer, bare pointer to a compressed
// name, pointer to a pointer cell, label + pointer to a pointer cell, names in
// record data reached through two and three levels. What the builder writes
// must read back (independent reader) as exactly the names and data the
// independent reader finds in the source.
// ---------------------------------------------------------------------------

struct Asm {
    b: Vec<u8>,
    marks: std::collections::BTreeMap<&'static str, usize>,
}
impl Asm {
    fn new(an: u16, ar: u16) -> Asm {
        let mut b = vec![0x12, 0x34, 0x84, 0x00, 0, 1];
        b.extend(an.to_be_bytes());
        b.extend([0, 0]);
        b.extend(ar.to_be_bytes());
        Asm { b, marks: Default::default() }
    }
    fn mark(&mut self, m: &'static str) -> &mut Self {
        self.marks.insert(m, self.b.len());
        self
    }
    fn l(&mut self, l: &[u8]) -> &mut Self {
        self.b.push(l.len() as u8);
        self.b.extend_from_slice(l);
        self
    }
    fn root(&mut self) -> &mut Self {
        self.b.push(0);
        self
    }
    fn ptr(&mut self, m: &'static str) -> &mut Self {
        let t = self.marks[m] as u16 | 0xC000;
        self.b.extend(t.to_be_bytes());
        self
    }
    fn fixed(&mut self, rtype: u16, ttl: u32) -> &mut Self {
        self.b.extend(rtype.to_be_bytes());
        self.b.extend([0, 1]);
        self.b.extend(ttl.to_be_bytes());
        self
    }
    fn rdata(&mut self, f: impl FnOnce(&mut Asm)) -> &mut Self {
        let at = self.b.len();
        self.b.extend([0, 0]);
        f(self);
        let len = (self.b.len() - at - 2) as u16;
        self.b[at..at + 2].copy_from_slice(&len.to_be_bytes());
        self
    }
    fn raw(&mut self, o: &[u8]) -> &mut Self {
        self.b.extend_from_slice(o);
        self
    }
}

fn parsed_sources() -> Vec<(&'static str, Vec<u8>)> {
    let mut out = Vec::new();
    // chain: every answer reaches its names through one more level than the one before
    let mut a = Asm::new(5, 2);
    a.mark("q").l(b"www").mark("ex").l(b"Example").l(b"com").root().raw(&[0, 1, 0, 1]);
    a.ptr("q").fixed(5, 60).rdata(|a| {
        a.mark("n1").l(b"ns").ptr("ex");
    });
    a.mark("o2").ptr("n1").fixed(5, 61).rdata(|a| {
        a.mark("n2").l(b"a").ptr("n1");
    });
    a.mark("o3").ptr("n2").fixed(15, 62).rdata(|a| {
        a.raw(&[0, 10]).mark("n3").ptr("n1");
    });
    a.l(b"mx").ptr("o2").fixed(2, 63).rdata(|a| {
        a.ptr("o3");
    });
    a.ptr("n3").fixed(16, 64).rdata(|a| {
        a.raw(&[2, b'h', b'i']);
    });
    a.l(b"s").ptr("ex").fixed(6, 65).rdata(|a| {
        a.ptr("n2").l(b"h").ptr("o3").raw(&[0, 0, 0, 1, 0, 0, 0, 2, 0, 0, 0, 3, 0, 0, 0, 4, 0, 0, 0, 5]);
    });
    a.ptr("ex").fixed(33, 66).rdata(|a| {
        a.raw(&[0, 1, 0, 2, 0, 3]).l(b"t").ptr("q");
    });
    out.push(("pointer-chain", a.b.clone()));
    // flat: the same records without any compression (control)
    let mut f = Asm::new(2, 0);
    f.l(b"www").l(b"Example").l(b"com").root().raw(&[0, 1, 0, 1]);
    f.l(b"www").l(b"example").l(b"com").root().fixed(5, 60).rdata(|a| {
        a.l(b"ns").l(b"example").l(b"COM").root();
    });
    f.l(b"ns").l(b"example").l(b"com").root().fixed(15, 61).rdata(|a| {
        a.raw(&[0, 5]).l(b"a").l(b"ns").l(b"example").l(b"com").root();
    });
    out.push(("flat", f.b.clone()));
    // long suffix: a 3-label question name, owners that are a pointer into its middle and to its end
    let mut g = Asm::new(3, 1);
    g.mark("q").l(b"a").mark("m").l(b"b").mark("e").l(b"c").root().raw(&[0, 1, 0, 1]);
    g.mark("p1").ptr("m").fixed(2, 70).rdata(|a| {
        a.mark("r1").l(b"x").ptr("e");
    });
    g.mark("p2").l(b"y").ptr("p1").fixed(2, 71).rdata(|a| {
        a.mark("r2").ptr("r1");
    });
    g.ptr("p2").fixed(15, 72).rdata(|a| {
        a.raw(&[0, 1]).l(b"z").ptr("r2");
    });
    g.ptr("r2").fixed(5, 73).rdata(|a| {
        a.ptr("p2");
    });
    out.push(("pointer-into-middle", g.b.clone()));
    out
}

fn push_gen<T: Tgt, R: domain::base::record::ComposeRecord>(b: B<T>, rec: R) -> (B<T>, Option<bool>) {
    match b {
        B::An(mut x) => {
            let r = x.push(rec).is_ok();
            (B::An(x), Some(r))
        }
        B::Ns(mut x) => {
            let r = x.push(rec).is_ok();
            (B::Ns(x), Some(r))
        }
        B::Ar(mut x) => {
            let r = x.push(rec).is_ok();
            (B::Ar(x), Some(r))
        }
        other => (other, None),
    }
}

fn part_parsed<T: Tgt + Send + Sync>(env: &Env, cfg: &Cfg<T>) {
    use domain::base::name::ParsedName;
    let sp = env.sh.sp;
    let ctx = env.sh.ctx;
    for (sname, src) in parsed_sources() {
        let raw_src = read_message(&src).expect("MACHINERY: source message of part P does not parse with the independent reader");
        assert_eq!(raw_src.end, src.len(), "MACHINERY: source message of part P has trailing octets");
        let flat: Vec<&mc::wire::RawRecord> = raw_src.sections.iter().flatten().collect();
        // contexts: 0 = question + all records in order; 1+k = sentinel NS, then record k alone; 100+k = record k twice;
        // 200 = Message::copy_records of the whole source
        let mut contexts: Vec<usize> = vec![0, 200];
        for k in 0..flat.len() {
            contexts.push(1 + k);
            contexts.push(100 + k);
        }
        for context in contexts {
            let res = guard(|| -> Result<(), (String, String)> {
                let lm = Message::from_octets(&src[..]).map_err(|_| ("harness".to_string(), "source too short".to_string()))?;
                let mut recs = Vec::new();
                for item in lm.iter() {
                    let (r, _) = item.map_err(|e| ("source-unreadable".to_string(), format!("Message::iter on the source: {e}")))?;
                    let r = r.to_any_record::<AllRecordData<_, ParsedName<_>>>().map_err(|e| ("source-unreadable".to_string(), format!("to_any_record on the source: {e}")))?;
                    recs.push(r);
                }
                if recs.len() != flat.len() {
                    return Err(("source-unreadable".into(), format!("library reads {} records from the source, independent reader {}", recs.len(), flat.len())));
                }
                let mut b: B<T> = B::Q(MessageBuilder::from_target((cfg.make)()).map_err(|_| ("from_target".to_string(), "from_target failed".to_string()))?.question());
                // expected records of the answer section: index into `flat` or the sentinel spec
                let mut exp: Vec<Result<usize, usize>> = Vec::new();
                let mut nq = 0usize;
                let mut failed = false;
                if context == 0 {
                    let q = lm.first_question().ok_or(("source-unreadable".to_string(), "no question".to_string()))?;
                    if let B::Q(mut x) = b {
                        if x.push(q).is_ok() {
                            nq = 1;
                        }
                        b = B::Q(x);
                    }
                }
                if context == 200 {
                    let target = match b {
                        B::Q(x) => x.answer(),
                        _ => unreachable!(),
                    };
                    let before = target.as_slice().to_vec();
                    match lm.copy_records(target, |r| r.into_any_record::<AllRecordData<_, ParsedName<_>>>().ok()) {
                        Ok(ar) => {
                            b = B::Ar(ar);
                            exp = (0..flat.len()).map(Ok).collect();
                        }
                        Err(_) => {
                            // the target ran out of room (bounded arrays): nothing more to compare
                            let _ = before;
                            return Ok(());
                        }
                    }
                } else {
                    let (nb, _) = apply(b, Op::Goto(1), sp);
                    b = nb;
                    let mut plan: Vec<Result<usize, usize>> = Vec::new();
                    if context == 0 {
                        plan.extend((0..flat.len()).map(Ok));
                    } else if context < 100 {
                        plan.push(Err(1)); // NS b.a. -> c.b.a.
                        plan.push(Ok(context - 1));
                    } else {
                        plan.push(Ok(context - 100));
                        plan.push(Ok(context - 100));
                    }
                    plan.push(Err(0)); // sentinel A a.
                    for (n, it) in plan.into_iter().enumerate() {
                        let before = b.slice().to_vec();
                        let (nb, r) = match it {
                            Ok(k) => {
                                if n % 2 == 1 {
                                    push_gen(b, &recs[k])
                                } else {
                                    push_gen(b, recs[k].clone())
                                }
                            }
                            Err(k) => push_any(b, sp[k].rec.clone()),
                        };
                        b = nb;
                        match r {
                            Some(true) => exp.push(it),
                            Some(false) => {
                                failed = true;
                                if b.slice() != &before[..] {
                                    return Err(("failed-push-changed-message".into(), "a refused push changed the message octets".into()));
                                }
                            }
                            None => return Err(("harness".into(), "push outside a record section".into())),
                        }
                    }
                }
                let _ = failed;
                env.sh.transitions.fetch_add(1, AO::Relaxed);
                let octets = b.slice();
                let raw = read_message(octets).map_err(|e| ("unparseable".to_string(), format!("independent reader fails: {e}")))?;
                if raw.end != octets.len() {
                    return Err(("trailing-octets".into(), format!("{} octets after the last counted record", octets.len() - raw.end)));
                }
                let got: Vec<&mc::wire::RawRecord> = raw.sections.iter().flatten().collect();
                if raw.counts[0] as usize != nq || got.len() != exp.len() {
                    return Err(("header-counts".into(), format!("header counts {:?}, successful pushes: {nq} question(s), {} record(s)", raw.counts, exp.len())));
                }
                if nq == 1 && (!mc::wire::labels_eq_ci(&raw.questions[0].qname, &raw_src.questions[0].qname) || raw.questions[0].qtype != raw_src.questions[0].qtype) {
                    return Err(("question-mismatch".into(), "the copied question reads back differently".into()));
                }
                for (i, (r, e)) in got.iter().zip(&exp).enumerate() {
                    match e {
                        Err(k) => {
                            let spc = &sp[*k];
                            let n = norm_rdata(octets, r.rtype, r.rdata_pos, &r.rdata).map_err(|e| ("rdata-unreadable".to_string(), format!("record {i} ({}): {e}", spc.label)))?;
                            if !mc::wire::labels_eq_ci(&r.owner, &spc.owner) || r.rtype != spc.rtype || r.class != 1 || r.ttl != spc.ttl || n != spc.rdata_norm {
                                return Err(("neighbour-record-mismatch".into(), format!("record {i} ({}) next to the copied record reads back differently", spc.label)));
                            }
                        }
                        Ok(k) => {
                            let s = flat[*k];
                            if !mc::wire::labels_eq_ci(&r.owner, &s.owner) {
                                return Err(("owner-mismatch".into(), format!("record {i} (source record {k}): owner reads back as {:?}, the source has {:?}", r.owner.iter().map(|l| String::from_utf8_lossy(l).to_string()).collect::<Vec<_>>(), s.owner.iter().map(|l| String::from_utf8_lossy(l).to_string()).collect::<Vec<_>>())));
                            }
                            if r.rtype != s.rtype || r.class != s.class || r.ttl != s.ttl {
                                return Err(("fixed-fields-mismatch".into(), format!("record {i} (source record {k}): type/class/ttl {}/{}/{} for {}/{}/{}", r.rtype, r.class, r.ttl, s.rtype, s.class, s.ttl)));
                            }
                            let want = norm_rdata_ex(&src, s.rtype, s.rdata_pos, &s.rdata, true).map_err(|e| ("harness".to_string(), format!("source rdata: {e}")))?;
                            let have = norm_rdata(octets, r.rtype, r.rdata_pos, &r.rdata).map_err(|e| ("rdata-unreadable".to_string(), format!("record {i} (source record {k}): {e}")))?;
                            if want != have {
                                return Err(("rdata-mismatch".into(), format!("record {i} (source record {k}, type {}): record data reads back differently from the source", s.rtype)));
                            }
                        }
                    }
                }
                for (at, tgt) in &raw.pointers {
                    if *tgt >= 0x4000 || tgt >= at {
                        return Err(("bad-pointer".into(), format!("pointer at {at} -> {tgt}")));
                    }
                }
                if !cfg.compressing && !raw.pointers.is_empty() {
                    return Err(("pointer-without-compressor".into(), format!("{} compression pointer(s) in a message built on a target that does not compress", raw.pointers.len())));
                }
                let out = Message::from_octets(octets).map_err(|_| ("lib-short".to_string(), "Message::from_octets fails".to_string()))?;
                for item in out.iter() {
                    let (r, _) = item.map_err(|e| ("lib-reader-fails".to_string(), format!("Message::iter: {e}")))?;
                    r.to_any_record::<AllRecordData<_, ParsedName<_>>>().map_err(|e| ("lib-reader-fails".to_string(), format!("to_any_record: {e}")))?;
                }
                if let Some(f) = cfg.stream {
                    let s = f(b.target());
                    if s.len() < 2 || usize::from(u16::from_be_bytes([s[0], s[1]])) != s.len() - 2 || &s[2..] != octets {
                        return Err(("stream-shim".into(), "length prefix differs from the message length".into()));
                    }
                }
                Ok(())
            });
            env.stats.eval();
            env.stats.distinct(fnv(format!("P|{}|{sname}|{context}", cfg.name).as_bytes()));
            let case = || json!({"config": cfg.name, "part": "parsed-source", "source": sname, "context": context, "source_octets": hex(&src)});
            match res {
                Ok(Ok(())) => {}
                Ok(Err((kind, what))) => {
                    let shape = if context == 200 { "copy_records" } else if context == 0 { "all-in-order" } else if context < 100 { "alone-after-sentinel" } else { "twice" };
                    let sig = if kind == "lib-reader-fails" || kind == "source-unreadable" {
                        format!("C02|parsed-source|{kind}|{sname}")
                    } else {
                        format!("C02|{}|parsed-source|{kind}|{sname}|{shape}", comp_of(cfg.name))
                    };
                    ctx.violation(&sig, &format!("{what} [source {sname}, context {context} on {}]", cfg.name), case());
                }
                Err(p) => {
                    ctx.violation(&format!("C02|{}|parsed-source|panic|{}", comp_of(cfg.name), panic_class(&p)), &p, case());
                }
            }
        }
    }
}


// ---------------------------------------------------------------------------
// Part O: the OPT record of another message copied with OptBuilder::clone_from
// (what proxies and the EDNS server middleware do). The OPT record's fixed
// fields carry the UDP size (CLASS) and extended RCODE / version / flags (TTL):
// every octet of them is data, top bits included.
// ---------------------------------------------------------------------------
fn part_opt_clone<T: Tgt + Send + Sync>(env: &Env, cfg: &Cfg<T>) {
    let ctx = env.sh.ctx;
    let sp = env.sh.sp;
    let sizes: [u16; 4] = [0, 512, 0x8000, 0xFFFF];
    let ttls: [u32; 7] = [0, 0x0000_8000, 0x0100_0000, 0x7FFF_FFFF, 0x8000_0000, 0xABCD_8001, 0xFFFF_FFFF];
    let optsets: [&[u8]; 3] = [&[], &[0, 3, 0, 2, b'a', b'b'], &[0xFD, 0xE9, 0, 0, 0, 12, 0, 3, 9, 9, 9]];
    for size in sizes {
        for ttl in ttls {
            for (oi, opts) in optsets.iter().enumerate() {
                let mut src = vec![0, 1, 0x80, 0, 0, 0, 0, 0, 0, 0, 0, 1, 0, 0, 41];
                src.extend(size.to_be_bytes());
                src.extend(ttl.to_be_bytes());
                src.extend((opts.len() as u16).to_be_bytes());
                src.extend_from_slice(opts);
                let res = guard(|| -> Result<(), (String, String)> {
                    let lm = Message::from_octets(&src[..]).map_err(|_| ("harness".to_string(), "source too short".to_string()))?;
                    let optrec = lm.opt().ok_or(("source-unreadable".to_string(), "Message::opt() does not find the OPT record of the source".to_string()))?;
                    let b: B<T> = B::Q(MessageBuilder::from_target((cfg.make)()).map_err(|_| ("from_target".to_string(), "from_target failed".to_string()))?.question());
                    let (b, _) = apply(b, Op::Q(0), sp);
                    let (b, _) = apply(b, Op::Goto(3), sp);
                    let before = b.slice().to_vec();
                    let (b, ok) = match b {
                        B::Ar(mut x) => {
                            let r = x.opt(|o| o.clone_from(&optrec)).is_ok();
                            (B::Ar(x), r)
                        }
                        other => (other, false),
                    };
                    env.sh.transitions.fetch_add(1, AO::Relaxed);
                    let octets = b.slice();
                    if !ok {
                        if octets != &before[..] {
                            return Err(("failed-push-changed-message".into(), "a refused OPT changed the message octets".into()));
                        }
                        return Ok(());
                    }
                    let raw = read_message(octets).map_err(|e| ("unparseable".to_string(), format!("independent reader fails: {e}")))?;
                    if raw.end != octets.len() || raw.counts != [1, 0, 0, 1] {
                        return Err(("header-counts".into(), format!("counts {:?}, end {} of {}", raw.counts, raw.end, octets.len())));
                    }
                    let r = &raw.sections[2][0];
                    if !r.owner.is_empty() || r.rtype != 41 || r.class != size || r.ttl != ttl || r.rdata != *opts {
                        return Err(("opt-fields-mismatch".into(), format!("OPT copied with clone_from reads back as class(udp size) {} ttl(ext-rcode/version/flags) {:#010x} rdata {}, the source has {} {:#010x} {}", r.class, r.ttl, hex(&r.rdata), size, ttl, hex(opts))));
                    }
                    if let Some(f) = cfg.stream {
                        let s = f(b.target());
                        if s.len() < 2 || usize::from(u16::from_be_bytes([s[0], s[1]])) != s.len() - 2 || &s[2..] != octets {
                            return Err(("stream-shim".into(), "length prefix differs from the message length".into()));
                        }
                    }
                    Ok(())
                });
                env.stats.eval();
                env.stats.distinct(fnv(format!("O|{}|{size}|{ttl}|{oi}", cfg.name).as_bytes()));
                let case = || json!({"config": cfg.name, "part": "opt-clone_from", "source_octets": hex(&src)});
                match res {
                    Ok(Ok(())) => {}
                    Ok(Err((kind, what))) => {
                        ctx.violation(&format!("C02|opt-clone_from|{kind}"), &format!("{what} [on {}]", cfg.name), case());
                    }
                    Err(p) => {
                        ctx.violation(&format!("C02|opt-clone_from|panic|{}", panic_class(&p)), &p, case());
                    }
                }
            }
        }
    }
}

// ---------------------------------------------------------------------------
// Part H: the OPT record's fixed fields as a state machine of their own. Inside
// one opt() closure every SEQUENCE of header-setter operations (and option
// pushes) up to a length bound; each field (UDP size, extended rcode with its
// low four bits in the message header, version, DO) must read back as what the
// LAST operation on that field set, fields no operation touched as an OPT built
// by an empty closure shows them (the defaults are taken from there, not
// assumed), the remaining flag bits as in that baseline, the options exactly
// the ones pushed, in order. The getters of the OptBuilder are compared with
// the same model after every single operation.
// ---------------------------------------------------------------------------
#[derive(Clone, Copy, Debug, PartialEq)]
enum HOp {
    Udp(u16),
    /// the 12-bit extended rcode
    Rcode(u16),
    Version(u8),
    Do(bool),
    /// one option (code 65001) whose data names its position among the pushes
    Push,
}

fn hop_menu() -> Vec<HOp> {
    vec![
        HOp::Udp(512),
        HOp::Udp(1232),
        HOp::Udp(65535),
        HOp::Rcode(0),
        HOp::Rcode(1),
        HOp::Rcode(16),
        HOp::Rcode(23),
        HOp::Rcode(4095),
        HOp::Version(0),
        HOp::Version(1),
        HOp::Version(255),
        HOp::Do(true),
        HOp::Do(false),
        HOp::Push,
    ]
}

#[derive(Clone, Debug, PartialEq)]
struct OptFields {
    udp: u16,
    /// upper eight bits of the rcode (first octet of the TTL field)
    ext: u8,
    version: u8,
    dnssec_ok: bool,
    /// the flag bits other than DO
    z: u16,
    /// low four bits of the rcode (message header)
    low: u8,
    options: Vec<u8>,
}
impl OptFields {
    fn apply(&mut self, op: HOp) {
        match op {
            HOp::Udp(v) => self.udp = v,
            HOp::Rcode(v) => {
                self.ext = (v >> 4) as u8;
                self.low = (v & 0xF) as u8;
            }
            HOp::Version(v) => self.version = v,
            HOp::Do(v) => self.dnssec_ok = v,
            HOp::Push => {
                let k = (self.options.len() / 6) as u8;
                self.options.extend_from_slice(&[0xFD, 0xE9, 0, 2, k, 0xA5]);
            }
        }
    }
    /// first field that differs: (field, expected, observed)
    fn diff(&self, got: &OptFields) -> Option<(&'static str, String, String)> {
        if self.udp != got.udp {
            return Some(("udp-payload-size", self.udp.to_string(), got.udp.to_string()));
        }
        if self.ext != got.ext {
            return Some(("extended-rcode", self.ext.to_string(), got.ext.to_string()));
        }
        if self.version != got.version {
            return Some(("version", self.version.to_string(), got.version.to_string()));
        }
        if self.dnssec_ok != got.dnssec_ok {
            return Some(("dnssec-ok", self.dnssec_ok.to_string(), got.dnssec_ok.to_string()));
        }
        if self.z != got.z {
            return Some(("other-flag-bits", format!("{:#06x}", self.z), format!("{:#06x}", got.z)));
        }
        if self.low != got.low {
            return Some(("header-rcode-bits", self.low.to_string(), got.low.to_string()));
        }
        if self.options != got.options {
            return Some(("options", hex(&self.options), hex(&got.options)));
        }
        None
    }
}

/// What the getters of the OptBuilder show (udp, 12-bit rcode, version, DO).
type Getters = (u16, u16, u8, bool);

struct OptBuilt {
    /// the fields the independent reader finds (None: opt() refused, octets checked to be unchanged)
    read: Option<OptFields>,
    /// getters before the first and after every operation
    getters: Vec<Getters>,
    /// the same fields through Message::opt() / OptRecord / Message::opt_rcode()
    lib: Option<(OptFields, u16)>,
}

/// Build `question a. | OPT built by the sequence | sentinel A record` with the header rcode preset to
/// `init_rcode` and read it back.
fn opt_build_and_read<T: Tgt>(cfg: &Cfg<T>, sp: &[RSpec], init_rcode: u8, seq: &[HOp]) -> Result<OptBuilt, (String, String)> {
    use domain::base::iana::{OptRcode, OptionCode, Rcode};
    use domain::base::opt::UnknownOptData;
    let mut mb = MessageBuilder::from_target((cfg.make)()).map_err(|_| ("from_target".to_string(), "from_target failed".to_string()))?;
    mb.header_mut().set_id(0x1D1D);
    mb.header_mut().set_rd(true);
    mb.header_mut().set_rcode(Rcode::checked_from_int(init_rcode).expect("harness: rcode"));
    let mut q = mb.question();
    q.push(Question::new(name(QS[0].0), Rtype::from_int(QS[0].1), Class::IN)).map_err(|_| ("harness".to_string(), "question refused".to_string()))?;
    let mut ar = q.additional();
    let before = ar.as_slice().to_vec();
    let mut getters: Vec<Getters> = Vec::new();
    let ok = ar
        .opt(|o| {
            let mut pushes = 0u8;
            getters.push((o.udp_payload_size(), o.rcode().to_int(), o.version(), o.dnssec_ok()));
            for op in seq {
                match *op {
                    HOp::Udp(v) => o.set_udp_payload_size(v),
                    HOp::Rcode(v) => o.set_rcode(OptRcode::masked_from_int(v)),
                    HOp::Version(v) => o.set_version(v),
                    HOp::Do(v) => o.set_dnssec_ok(v),
                    HOp::Push => {
                        let k = pushes;
                        pushes += 1;
                        o.push_raw_option(OptionCode::from_int(65001), 2, |t| t.append_slice(&[k, 0xA5]))?
                    }
                }
                getters.push((o.udp_payload_size(), o.rcode().to_int(), o.version(), o.dnssec_ok()));
            }
            Ok(())
        })
        .is_ok();
    if !ok {
        if ar.as_slice() != &before[..] {
            return Err(("failed-push-changed-message".into(), "a refused OPT changed the message octets".into()));
        }
        return Ok(OptBuilt { read: None, getters, lib: None });
    }
    let after_opt = ar.as_slice().len();
    let sentinel = ar.push(sp[0].rec.clone()).is_ok();
    if !sentinel && ar.as_slice().len() != after_opt {
        return Err(("failed-push-changed-message".into(), "a refused record after the OPT changed the message length".into()));
    }
    let b: B<T> = B::Ar(ar);
    let octets = b.slice();
    let raw = read_message(octets).map_err(|e| ("unparseable".to_string(), format!("independent reader fails: {e}")))?;
    if raw.end != octets.len() || raw.counts != [1, 0, 0, 1 + sentinel as u16] {
        return Err(("header-counts".into(), format!("counts {:?}, end {} of {}: one question, the OPT{} pushed", raw.counts, raw.end, octets.len(), if sentinel { " and one record" } else { "" })));
    }
    let flags = u16::from_be_bytes([octets[2], octets[3]]);
    if octets[0..2] != [0x1D, 0x1D] || flags & 0xFFF0 != 0x0100 {
        return Err(("header-other-fields".into(), format!("building an OPT changed header fields other than the rcode: id {:02x}{:02x} flags {flags:#06x}", octets[0], octets[1])));
    }
    if raw.questions.len() != 1 || !mc::wire::labels_eq_ci(&raw.questions[0].qname, &labels(QS[0].0)) {
        return Err(("question-mismatch".into(), "the question before the OPT reads back differently".into()));
    }
    let r = &raw.sections[2][0];
    if r.rtype != 41 || !r.owner.is_empty() {
        return Err(("opt-not-an-opt".into(), format!("the OPT reads back with type {} and an owner of {} label(s)", r.rtype, r.owner.len())));
    }
    if sentinel {
        let s = &raw.sections[2][1];
        if !mc::wire::labels_eq_ci(&s.owner, &sp[0].owner) || s.rtype != sp[0].rtype || s.class != 1 || s.ttl != sp[0].ttl || s.rdata != sp[0].rdata_norm {
            return Err(("neighbour-record-mismatch".into(), "the record after the OPT reads back differently".into()));
        }
    }
    let read = OptFields { udp: r.class, ext: (r.ttl >> 24) as u8, version: (r.ttl >> 16) as u8, dnssec_ok: r.ttl & 0x8000 != 0, z: (r.ttl & 0x7FFF) as u16, low: (flags & 0xF) as u8, options: r.rdata.clone() };
    if let Some(f) = cfg.stream {
        let s = f(b.target());
        if s.len() < 2 || usize::from(u16::from_be_bytes([s[0], s[1]])) != s.len() - 2 || &s[2..] != octets {
            return Err(("stream-shim".into(), "length prefix differs from the message length".into()));
        }
    }
    // the library's reader
    let lm = Message::from_octets(octets).map_err(|_| ("lib-short".to_string(), "Message::from_octets fails".to_string()))?;
    let lib = match lm.opt() {
        None => None,
        Some(rec) => {
            let rc = rec.rcode(lm.header()).to_int();
            let mut options = Vec::new();
            for o in rec.opt().iter::<UnknownOptData<_>>() {
                let o = o.map_err(|_| ("lib-reader-fails".to_string(), "option iteration".to_string()))?;
                options.extend_from_slice(&o.code().to_int().to_be_bytes());
                options.extend_from_slice(&(o.as_slice().len() as u16).to_be_bytes());
                options.extend_from_slice(o.as_slice());
            }
            // (OptRecord offers no view of the flag bits other than DO: taken as read above)
            Some((OptFields { udp: rec.udp_payload_size(), ext: (rc >> 4) as u8, version: rec.version(), dnssec_ok: rec.dnssec_ok(), z: read.z, low: (rc & 0xF) as u8, options }, lm.opt_rcode().to_int()))
        }
    };
    Ok(OptBuilt { read: Some(read), getters, lib })
}

/// All sequences over `menu` of length 0..=max, shortest first.
fn hop_sequences(menu: &[HOp], max: usize) -> Vec<Vec<HOp>> {
    let mut out: Vec<Vec<HOp>> = vec![vec![]];
    let mut from = 0;
    for _ in 0..max {
        let to = out.len();
        for i in from..to {
            for op in menu {
                let mut s = out[i].clone();
                s.push(*op);
                out.push(s);
            }
        }
        from = to;
    }
    out
}

fn part_opt_header<T: Tgt + Send + Sync>(env: &Env, cfg: &Cfg<T>, every_cfg: bool) {
    let ctx = env.sh.ctx;
    let sp = env.sh.sp;
    // The fixed fields do not pass through the compressor: in the quick tier one configuration per
    // compressor and per kind of target, all of them in the thorough tier.
    if ctx.quick() && !every_cfg && !["none/Vec", "static/Stream<Vec>", "tree/BytesMut", "hash/Array<600>"].contains(&cfg.name) {
        return;
    }
    let menu = hop_menu();
    let seqs = hop_sequences(&menu, if ctx.quick() { 3 } else { 4 });
    let cases = AtomicU64::new(0);
    for init_rcode in [0u8, 3] {
        let report = |kind: &str, field: &str, what: String, seq: &[HOp]| {
            let sig = if field.is_empty() { format!("C02|opt-header-ops|{kind}") } else { format!("C02|opt-header-ops|{kind}|{field}") };
            ctx.violation(&sig, &format!("{what} [on {}, header rcode preset to {init_rcode}]", cfg.name), json!({"config": cfg.name, "part": "opt-header-ops", "header_rcode_before": init_rcode, "opt_ops": seq.iter().map(|o| format!("{:?}", o)).collect::<Vec<_>>()}));
        };
        // the baseline: what an OPT built without touching anything shows
        let base = match guard(|| opt_build_and_read(cfg, sp, init_rcode, &[])) {
            Ok(Ok(OptBuilt { read: Some(f), .. })) => f,
            Ok(Ok(_)) => continue, // no room for an OPT on this target
            Ok(Err((kind, what))) => {
                report(&kind, "", what, &[]);
                continue;
            }
            Err(p) => {
                report("panic", &panic_class(&p), p.clone(), &[]);
                continue;
            }
        };
        if base.low != init_rcode || !base.options.is_empty() {
            report("baseline", "", format!("an OPT built by an empty closure leaves header rcode bits {} (preset {init_rcode}) and {} octets of options", base.low, base.options.len()), &[]);
            continue;
        }
        seqs.par_iter().for_each(|seq| {
            let res = guard(|| opt_build_and_read(cfg, sp, init_rcode, seq));
            env.stats.eval();
            cases.fetch_add(1, AO::Relaxed);
            env.sh.transitions.fetch_add(1, AO::Relaxed);
            match res {
                Err(p) => report("panic", &panic_class(&p), p.clone(), seq),
                Ok(Err((kind, what))) => report(&kind, "", what, seq),
                Ok(Ok(built)) => {
                    // the model: last write wins per field
                    let mut m = base.clone();
                    let mut trace = vec![m.clone()];
                    for op in seq {
                        m.apply(*op);
                        trace.push(m.clone());
                    }
                    for (i, (g, want)) in built.getters.iter().zip(&trace).enumerate() {
                        let want_g: Getters = (want.udp, (want.ext as u16) << 4 | want.low as u16, want.version, want.dnssec_ok);
                        if *g != want_g {
                            let field = if g.0 != want_g.0 { "udp-payload-size" } else if g.1 != want_g.1 { "rcode" } else if g.2 != want_g.2 { "version" } else { "dnssec-ok" };
                            report("getter-in-closure", field, format!("after {i} operation(s) the OptBuilder's getters show (udp, rcode, version, DO) = {:?}, set so far: {:?}", g, want_g), seq);
                            break; // (what the message reads back as is compared all the same)
                        }
                    }
                    let Some(read) = built.read else {
                        env.stats.count("opt_header_ops.refused");
                        return;
                    };
                    env.stats.distinct(fnv(format!("H|{}|{init_rcode}|{:?}", cfg.name, seq).as_bytes()));
                    if let Some((field, want, got)) = m.diff(&read) {
                        report("field-reads-back-differently", field, format!("{field} reads back as {got}, the last operation on it set {want} (operations: {:?})", seq), seq);
                        return;
                    }
                    match built.lib {
                        None => report("lib-reader", "no-opt", "Message::opt() does not find the OPT record".into(), seq),
                        Some((lf, opt_rcode)) => {
                            if let Some((field, want, got)) = m.diff(&lf) {
                                report("lib-reader", field, format!("{field} through Message::opt() is {got}, the last operation on it set {want}"), seq);
                            } else if opt_rcode != (m.ext as u16) << 4 | m.low as u16 {
                                report("lib-reader", "opt_rcode", format!("Message::opt_rcode() is {opt_rcode}, set {}", (m.ext as u16) << 4 | m.low as u16), seq);
                            }
                        }
                    }
                }
            }
        });
    }
    env.stats.count_n(&format!("{}.opt_header_ops_cases", cfg.name), cases.load(AO::Relaxed));
}

struct Timer(&'static str, std::time::Instant);
impl Drop for Timer {
    fn drop(&mut self) {
        if std::env::var("C02_TIMING").is_ok() {
            eprintln!("[c02] {} {:.1}s", self.0, self.1.elapsed().as_secs_f64());
        }
    }
}

struct Env<'a> {
    sh: &'a Shared<'a>,
    stats: &'a Stats,
    replay: &'a Option<(String, Vec<Op>)>,
    /// replay of a case of parts V/P/O/H: (part, configuration)
    replay_part: &'a Option<(String, String)>,
    small_ops: &'a [Op],
    pad_ops: &'a [Op],
    via_ops: &'a [Op],
    depth: usize,
    total_tr: &'a AtomicU64,
    cfg_names: std::sync::Mutex<Vec<&'static str>>,
    vals: &'a [mc::rgen::Value],
}

fn go<T: Tgt + Send + Sync>(env: &Env, cfg: &Cfg<T>) {
    let t0 = std::time::Instant::now();
    let _timer = Timer(cfg.name, t0);
    env.cfg_names.lock().unwrap().push(cfg.name);
    if let Some((part, c)) = env.replay_part {
        // a case of one of the parts below: the part is run again on the case's configuration
        if c == cfg.name {
            println!("replaying part {part} on {c}");
            match part.as_str() {
                "every-type" => part_values(env, cfg, env.vals),
                "parsed-source" => part_parsed(env, cfg),
                "opt-clone_from" => part_opt_clone(env, cfg),
                "opt-header-ops" => part_opt_header(env, cfg, true),
                _ => println!("unknown part"),
            }
        }
        return;
    }
    if let Some((c, h)) = env.replay {
        if c == cfg.name {
            println!("replaying on {}: {:?}", c, h);
            run_cfg(env.sh, cfg, h.len(), Some(h.clone()));
        }
        return;
    }
    let _ = cfg.compressing;
    let is_array = cfg.name.contains("Array");
    // pass 1: everything but the two large pads - under every way of changing sections, of starting the
    // builder and of pushing
    for (route, init, push_ref) in [(0u8, 0u8, false), (1, 0, false), (2, 0, false), (0, 1, false), (0, 2, true)] {
        if is_array && init != 0 {
            continue; // (the copied question alone is most of a 100-octet array)
        }
        ROUTE.store(route, AO::Relaxed);
        INIT.store(init, AO::Relaxed);
        PUSH_REF.store(push_ref, AO::Relaxed);
        let sh1 = Shared { ops: env.small_ops, ..shared_clone(env.sh) };
        run_cfg(&sh1, cfg, if (route, init) == (0, 0) { env.depth } else { env.depth - 1 }, None);
        env.total_tr.fetch_add(sh1.transitions.load(AO::Relaxed), AO::Relaxed);
        env.stats.count_n(&format!("{}.route{route}.init{init}.pushes_ok", cfg.name), sh1.pushes_ok.load(AO::Relaxed));
        env.stats.count_n(&format!("{}.route{route}.init{init}.pushes_failed", cfg.name), sh1.pushes_err.load(AO::Relaxed));
    }
    ROUTE.store(0, AO::Relaxed);
    INIT.store(0, AO::Relaxed);
    PUSH_REF.store(false, AO::Relaxed);
    // pass R: the route alphabet - every push operation by every route the API offers to it (inherent
    // method / RecordSectionBuilder in section-generic code x the forms an item is handed over in;
    // push limit through DerefMut and AsMut), freely mixed in one sequence, every section reachable
    for route in if env.sh.ctx.quick() { &[0u8][..] } else { &[0u8, 2][..] } {
        ROUTE.store(*route, AO::Relaxed);
        let shr = Shared { ops: env.via_ops, ..shared_clone(env.sh) };
        run_cfg(&shr, cfg, env.depth - 1, None);
        let tr = shr.transitions.load(AO::Relaxed);
        env.total_tr.fetch_add(tr, AO::Relaxed);
        env.stats.count_n(&format!("{}.via.route{route}.transitions", cfg.name), tr);
        env.stats.count_n(&format!("{}.via.route{route}.pushes_ok", cfg.name), shr.pushes_ok.load(AO::Relaxed));
        env.stats.count_n(&format!("{}.via.route{route}.pushes_failed", cfg.name), shr.pushes_err.load(AO::Relaxed));
    }
    ROUTE.store(0, AO::Relaxed);
    // pass 2: pad-focused alphabet crossing 0x3FFF and 0xFFFF
    if !is_array {
        let sh2 = Shared { ops: env.pad_ops, ..shared_clone(env.sh) };
        run_cfg(&sh2, cfg, env.depth, None);
        env.total_tr.fetch_add(sh2.transitions.load(AO::Relaxed), AO::Relaxed);
        env.stats.count_n(&format!("{}.pad.pushes_ok", cfg.name), sh2.pushes_ok.load(AO::Relaxed));
        env.stats.count_n(&format!("{}.pad.pushes_failed", cfg.name), sh2.pushes_err.load(AO::Relaxed));
    }
    // part V: every record type
    let before = env.sh.transitions.load(AO::Relaxed);
    part_values(env, cfg, env.vals);
    // part P: records and questions parsed from other messages
    part_parsed(env, cfg);
    // part O: OPT records copied from other messages
    part_opt_clone(env, cfg);
    // part H: sequences of operations on the OPT record's fixed fields
    part_opt_header(env, cfg, false);
    env.total_tr.fetch_add(env.sh.transitions.load(AO::Relaxed) - before, AO::Relaxed);
}

fn main() {
    let ctx = Ctx::new("C02", "model_checking");
    let stats = Stats::new();
    let sp = specs();
    let mut ops: Vec<Op> = vec![Op::Q(0), Op::Q(1)];
    for i in 0..sp.len() {
        ops.push(Op::R(i));
    }
    ops.extend([Op::Opt, Op::Opt2, Op::Goto(0), Op::Goto(1), Op::Goto(2), Op::Goto(3), Op::Rewind, Op::LimPlus(30), Op::LimHere, Op::Clr]);
    let depth = if ctx.quick() { 5 } else { 6 };
    let sh = Shared { ctx: &ctx, stats: &stats, sp: &sp, ops: &ops, transitions: AtomicU64::new(0), pushes_ok: AtomicU64::new(0), pushes_err: AtomicU64::new(0) };
    let total_tr = AtomicU64::new(0);
    let cfg_names: Vec<&'static str>;

    let replay_json: Option<Value> = ctx.replay.as_ref().map(|p| serde_json::from_str(&std::fs::read_to_string(p).expect("replay file")).expect("json"));
    let replay_part: Option<(String, String)> = replay_json.as_ref().and_then(|v| Some((v["case"]["part"].as_str()?.to_string(), v["case"]["config"].as_str()?.to_string())));
    let replay: Option<(String, Vec<Op>)> = match (&replay_json, &replay_part) {
        (Some(v), None) => Some((v["case"]["config"].as_str().unwrap().to_string(), v["case"]["ops"].as_array().unwrap().iter().map(|o| parse_op(o.as_str().unwrap())).collect())),
        _ => None,
    };

    // Quick tier: the heavy pad records only take part at depth <= 4 via a
    // second pass with a pad-focused alphabet; see `pad_ops` below.
    let small_ops: Vec<Op> = ops.iter().cloned().filter(|o| !matches!(o, Op::R(6) | Op::R(7))).collect();
    let pad_ops: Vec<Op> = vec![Op::Q(0), Op::R(0), Op::R(1), Op::R(2), Op::R(4), Op::R(6), Op::R(7), Op::R(8), Op::Goto(1), Op::Goto(3), Op::Rewind, Op::Goto(0), Op::LimPlus(30), Op::PadTo(0x3FFE), Op::PadTo(0x3FFF), Op::PadTo(0x4000), Op::PadTo(0x4001)];

    // Route alphabet: the same small items by every route. Records 0 (A a.), 1 (NS b.a. -> c.b.a.:
    // compressible owner and data), 2 (MX B.A. -> a.: case variant) x {inherent push, section trait x
    // (Record, &Record, class-less tuple)}; question forms; the limit through every way to the inner builder.
    let mut via_ops: Vec<Op> = vec![Op::Q(0), Op::QForm(0, 1), Op::QForm(1, 2), Op::QForm(1, 3)];
    for i in 0..3 {
        via_ops.push(Op::R(i));
        for form in 1..=3u8 {
            via_ops.push(Op::RVia(i, form));
        }
    }
    via_ops.extend([Op::Opt, Op::Goto(0), Op::Goto(1), Op::Goto(2), Op::Goto(3), Op::Rewind, Op::LimVia(30, 1), Op::LimVia(30, 2), Op::Clr]);

    let vals = mc::rgen::values_ex(mc::rgen::Tier::Compact).0;
    let env = Env { replay_part: &replay_part, via_ops: &via_ops, vals: &vals, sh: &sh, stats: &stats, replay: &replay, small_ops: &small_ops, pad_ops: &pad_ops, depth, total_tr: &total_tr, cfg_names: std::sync::Mutex::new(Vec::new()) };
    cfgs!(env);
    cfg_names = env.cfg_names.into_inner().unwrap();
    let tr = total_tr.load(AO::Relaxed);
    let samples = vec![
        json!({"config": "tree/Stream<Vec>", "ops": ["Q(0)", "Goto(1)", "R(1)", "LimHere", "R(2)"]}),
        json!({"config": "static/Vec", "ops": ["Goto(1)", "R(6)", "R(1)", "R(1)", "Rewind"]}),
        json!({"records": sp.iter().map(|s| s.label).collect::<Vec<_>>()}),
    ];
    ctx.finish(
        json!({
            "states": stats.distinct_count().max(1),
            "transitions": tr.max(1),
            "traces_validated_against_impl": tr,
            "evaluations": tr,
            "distinct_nontrivial": stats.distinct_count(),
            "rule": "every operation sequence up to the depth bound over each alphabet (general alphabet without the 16000/48000-octet pads; pad-focused alphabet with them) per target x compressor configuration, executed step by step on the real builders with NO state merging; after every step the independent reader checks counts, items, order, sections, RDATA (names decompressed independently), pointer targets, stream length prefix, and a failed push must leave the octets unchanged. states = distinct (octets, stage, limit) observed",
            "exhaustive": true,
            "depth": depth,
            "configurations": cfg_names,
            "alphabet": ops.iter().map(|o| format!("{:?}", o)).collect::<Vec<_>>(),
            "every_type": {"values": vals.len(), "contexts": ["question + value + sentinel", "question + NS (names to compress against) + value + sentinel", "value + same value again + sentinel"], "rule": "every value of the shared generator's compact menu (all record types) pushed on every configuration; the independent reader checks counts, fixed fields, RDATA literal octets and every embedded name against the generator's reference wire, the neighbours, pointers, the library's reader and the stream prefix"},
            "every_type_wrappers": {"wrappers": WRAPS.iter().map(|w| w.label()).collect::<Vec<_>>(), "rule": "in the three contexts the record data of every value reaches the builder through every wrapper that can carry it: the AllRecordData enum, the ZoneRecordData enum (zone types), the concrete type taken out of the enum, UnknownRecordData over the generator's reference RDATA, and a &-reference to each; same oracle (RDLENGTH equals the octets the data occupies, literal octets identical, embedded names read back as the same names, neighbours and the rest of the message still parse); opaque data must read back octet for octet"},
            "opt_header_ops": {"menu": hop_menu().iter().map(|o| format!("{:?}", o)).collect::<Vec<_>>(), "max_len": if ctx.quick() { 3 } else { 4 }, "header_rcode_before": [0, 3], "configurations": if ctx.quick() { json!(["none/Vec", "static/Stream<Vec>", "tree/BytesMut", "hash/Array<600>"]) } else { json!("all") }, "rule": "every sequence of OptBuilder operations up to the length bound inside one opt() closure (question before, a record after); model: last write wins per field, untouched fields and the flag bits other than DO as an OPT built by an empty closure on the same configuration shows them; read by the independent reader (CLASS, the four TTL octets, RDATA, header rcode bits, rest of the header unchanged) and by Message::opt()/opt_rcode(); the OptBuilder's getters are compared with the model after every operation"},
            "pad_alphabet": pad_ops.iter().map(|o| format!("{:?}", o)).collect::<Vec<_>>(),
            "route_alphabet": {
                "ops": via_ops.iter().map(|o| format!("{:?}", o)).collect::<Vec<_>>(),
                "depth": depth - 1,
                "rule": "every sequence to the depth bound, per configuration, over an alphabet in which each push operation occurs once per ROUTE: records by the inherent push of the section builder and by RecordSectionBuilder::push called from code generic over the section (Record, &Record, class-less tuple), questions as Question / &Question / (name,type,class) / (name,type), the push limit set through DerefMut and through AsMut<MessageBuilder>; the routes are mixed freely within a sequence and reach all three record sections; same model and same oracle as the general alphabet (items per section and header counts read by the independent reader, failed push leaves the octets unchanged, limit is an upper bound). In every state of every pass the counts seen through Deref (counts()) and the octets seen through AsRef<[u8]> must equal what the independent reader finds",
            },
            "samples": samples,
            "counters": stats.counters_json(),
        }),
        &["whether a push is refused for lack of space or by the push limit is taken from the implementation; only accepted items are modelled", "HashMap iteration order inside TreeCompressor is not owned; observations do not depend on it"],
    );
}

#[allow(dead_code)]
fn _t(_: &dyn Truncate, _: Arc<()>) {}
#[allow(dead_code)]
fn _f<T: FreezeBuilder>(_: T) {}
