//! C07 — the zone-file reader is total and layout-independent.
//!
//! Three exhaustively enumerated spaces, all driving the real
//! `domain::zonefile::inplace::Zonefile::next_entry` loop:
//!
//! * `bytes`  — every byte string over a 14-symbol alphabet up to a length,
//!   behind each of five context prefixes (three between entries, two inside
//!   the RDATA of a TXT / MX record).
//! * `tokens` — every token string over a 26-token menu up to a depth, behind
//!   each of the three context prefixes.
//! * `layout` — logical files (record lists) and *every* rendering of each
//!   from per-slot menus of RFC 1035 section 5.1 / RFC 2308 section 4
//!   meaning-preserving rewrites.  The meaning of a rendering is computed by a
//!   small reference interpreter in this file (owner / class / TTL
//!   inheritance); only renderings whose reference meaning equals the logical
//!   file are parsed, and the reader has to return exactly the logical
//!   records (compared in wire format: owner, type, class, TTL, RDATA).
//!
//! * `limits` -- every length / value limit the reader enforces (label 63,
//!   name 255, character string 255, u32/u16/u8) just inside and just outside,
//!   in every spelling of the octets and in every field of that kind: accepted
//!   iff the decoded value is within the limit, with exactly the decoded octets.
//!
//! * `zone` / `generic` -- the secondary entry point
//!   `zonetree::parsed::Zonefile::try_from(inplace::Zonefile)` and the zone
//!   built from it: every rendering of a logical file gives the same verdict
//!   and the same zone content; `generic` adds the RFC 3597 rendering of
//!   every record (`TYPEnnn`, `CLASSnnn`, `\# len hex`) at every kind of owner
//!   position, well formed (same records as the typed rendering) and damaged
//!   (totality).
//!
//! Totality oracle: no panic, no hang (watchdog), at most `len+2` entries,
//! the error (if any) carries a line/column inside the input, every returned
//! record is a well-formed wire record, and a second reader (built through
//! `Zonefile::load`, with `allow_invalid`) returns the same thing, except
//! that it may continue where the strict reader reported "different class".

use bytes::Bytes;
use domain::base::iana::Class;
use domain::base::name::FlattenInto;
use domain::base::Name;
use domain::zonefile::inplace::{Entry, Zonefile};
use domain::zonetree::error::{RecordError, ZoneErrors};
use domain::zonetree::types::StoredRecord;
use domain::zonetree::{parsed, ZoneBuilder};
use mc::*;
use rayon::prelude::*;
use serde_json::{json, Value};
use std::collections::BTreeMap;
use std::sync::atomic::{AtomicU64, Ordering as AO};
use std::sync::{Arc, Mutex};
use std::time::Duration;

// ===================================================================
// Running the reader
// ===================================================================

#[derive(Clone, PartialEq, Eq, Debug)]
enum End {
    Eof,
    Err(String),
    Overrun,
}

#[derive(Clone, PartialEq, Eq, Debug)]
struct Outcome {
    /// 'R' + uncompressed wire record, or 'I' + path + 0 + origin wire.
    entries: Vec<Vec<u8>>,
    end: End,
}

fn entry_repr(e: &Entry) -> Vec<u8> {
    match e {
        Entry::Record(r) => {
            let mut v = vec![b'R'];
            let _ = r.compose(&mut v);
            v
        }
        Entry::Include { path, origin } => {
            // 'U': the returned string is not valid UTF-8 (scan_string builds
            // it with from_utf8_unchecked)
            let mut v = vec![if std::str::from_utf8(path.as_bytes()).is_ok() { b'I' } else { b'U' }];
            v.extend_from_slice(path.as_bytes());
            v.push(0);
            match origin {
                Some(o) => {
                    v.push(1);
                    v.extend_from_slice(o.as_slice());
                }
                None => v.push(0),
            }
            v
        }
    }
}

fn read_all(mut z: Zonefile, max_entries: usize) -> Outcome {
    let mut entries = Vec::new();
    let mut last_offset = z.current_offset();
    loop {
        let r = z.next_entry();
        // current_offset: "how many bytes have been read so far" never goes
        // backwards; recorded as a pseudo entry so that every oracle sees it
        let off = z.current_offset();
        if off < last_offset {
            entries.push(format!("O current_offset went back from {last_offset} to {off}").into_bytes());
        }
        last_offset = off;
        match r {
            Ok(Some(e)) => {
                entries.push(entry_repr(&e));
                if entries.len() > max_entries {
                    return Outcome { entries, end: End::Overrun };
                }
            }
            Ok(None) => return Outcome { entries, end: End::Eof },
            Err(e) => return Outcome { entries, end: End::Err(e.to_string()) },
        }
    }
}

fn reader_a(bytes: &[u8]) -> Zonefile {
    Zonefile::from(bytes)
}

fn apex_z() -> Name<Bytes> {
    Name::from_octets(Bytes::from_static(b"\x01z\x00")).expect("z. is a name")
}

/// Reader configured through the API instead of directives:
/// 0 = nothing, 1 = `set_origin(z.)`, 2 = `set_origin(z.)` + `set_default_class(IN)`.
fn reader_setup(bytes: &[u8], setup: usize) -> Zonefile {
    let mut z = Zonefile::from(bytes);
    if setup >= 1 {
        z.set_origin(apex_z());
    }
    if setup >= 2 {
        z.set_default_class(Class::IN);
    }
    z
}

/// The second reader is built through one of the other construction paths
/// (chosen by a hash of the input, so every path sees a quarter of every
/// space): `load`, `default` + `reserve` + two `extend_from_slice`,
/// `From<&str>` (when the input is UTF-8), `new` + `BufMut::put_slice`.
fn reader_b(bytes: &[u8]) -> Zonefile {
    use bytes::BufMut;
    let z = match fnv(bytes) % 4 {
        0 => {
            let mut rd = bytes;
            Zonefile::load(&mut rd).expect("reading from a slice cannot fail")
        }
        1 => {
            let mut z = Zonefile::default();
            z.reserve(bytes.len());
            let (a, b) = bytes.split_at(bytes.len() / 2);
            z.extend_from_slice(a);
            z.extend_from_slice(b);
            z
        }
        2 => match std::str::from_utf8(bytes) {
            Ok(s) => Zonefile::from(s),
            Err(_) => {
                let mut z = Zonefile::with_capacity(0);
                z.extend_from_slice(bytes);
                z
            }
        },
        _ => {
            let mut z = Zonefile::new();
            z.put_slice(bytes);
            z
        }
    };
    z.allow_invalid()
}

/// The reader's error type exposes its position only through `Display`.
/// The property asks for "an error with a position", not for a text layout,
/// so the first two unsigned numbers of the text are taken as (line, column)
/// whatever surrounds them ("12:3: message", "line 12, column 3: message", ...);
/// the third field is the first clause of what follows (statistics only).
fn parse_pos(s: &str) -> Option<(u64, u64, &str)> {
    fn number(s: &str, from: usize) -> Option<(u64, usize)> {
        let b = s.as_bytes();
        let start = (from..b.len()).find(|&i| b[i].is_ascii_digit())?;
        let end = (start..b.len()).find(|&i| !b[i].is_ascii_digit()).unwrap_or(b.len());
        Some((s[start..end].parse::<u64>().ok()?, end))
    }
    let (line, p) = number(s, 0)?;
    let (col, p) = number(s, p)?;
    let rest = s[p..].trim_start_matches(|c: char| c == ':' || c == ',' || c == ')' || c.is_whitespace());
    let msg = rest.split(": ").next().unwrap_or(rest);
    Some((line, col, msg))
}

fn digits_to_hash(s: &str) -> String {
    let mut out = String::new();
    let mut in_num = false;
    for ch in s.chars() {
        if ch.is_ascii_digit() {
            if !in_num {
                out.push('#');
                in_num = true;
            }
        } else {
            in_num = false;
            out.push(ch);
        }
    }
    out
}

/// panic class with numbers in the message (positions, lengths) blanked.
fn norm_panic(p: &str) -> String {
    let c = panic_class(p);
    match c.rsplit_once(" @ ") {
        Some((m, f)) => format!("{} @ {}", digits_to_hash(m), f),
        None => digits_to_hash(&c),
    }
}

/// Independent check that an uncompressed wire record is well formed.
fn split_record(w: &[u8]) -> Result<(Vec<Vec<u8>>, u16, u16, u32, Vec<u8>), String> {
    let mut pos = 0usize;
    let mut labels = Vec::new();
    let mut total = 0usize;
    loop {
        let l = *w.get(pos).ok_or("owner: short")? as usize;
        pos += 1;
        total += 1;
        if l == 0 {
            break;
        }
        if l > 63 {
            return Err(format!("owner: label length octet {l}"));
        }
        let lab = w.get(pos..pos + l).ok_or("owner: label overruns")?;
        labels.push(lab.to_vec());
        pos += l;
        total += l;
        if total > 254 {
            return Err("owner: longer than 255 octets".into());
        }
    }
    let f = w.get(pos..pos + 10).ok_or("fixed part: short")?;
    let rtype = u16::from_be_bytes([f[0], f[1]]);
    let class = u16::from_be_bytes([f[2], f[3]]);
    let ttl = u32::from_be_bytes([f[4], f[5], f[6], f[7]]);
    let rdlen = u16::from_be_bytes([f[8], f[9]]) as usize;
    let rd = &w[pos + 10..];
    if rd.len() != rdlen {
        return Err(format!("rdlength {rdlen} but {} octets of rdata", rd.len()));
    }
    Ok((labels, rtype, class, ttl, rd.to_vec()))
}

struct Exam {
    /// (violation class, human description)
    viol: Option<(String, String)>,
    a: Option<Outcome>,
}

/// The complete totality oracle for one input.
fn examine(bytes: &[u8], with_parsed: bool) -> Exam {
    let max_entries = bytes.len() + 2;
    let a = match guard(|| read_all(reader_a(bytes), max_entries)) {
        Ok(o) => o,
        Err(p) => {
            return Exam {
                viol: Some((format!("panic|{}", norm_panic(&p)), format!("next_entry loop panicked: {p}"))),
                a: None,
            }
        }
    };
    let mut viol = None;
    let nlines = bytes.iter().filter(|b| **b == b'\n').count() as u64 + 1;
    match &a.end {
        End::Overrun => {
            viol = Some((
                "entries-overrun".to_string(),
                format!("more than {max_entries} entries from {} bytes", bytes.len()),
            ));
        }
        End::Err(s) => match parse_pos(s) {
            None => viol = Some(("error-position|unparseable".into(), format!("error without line:col position: {s:?}"))),
            Some((line, col, _)) => {
                if line < 1 || line > nlines {
                    viol = Some((
                        "error-position|line-outside-input".into(),
                        format!("error {s:?}: line {line} but the input has {nlines} line(s)"),
                    ));
                } else if col < 1 || col > bytes.len() as u64 + 2 {
                    viol = Some((
                        "error-position|column-outside-input".into(),
                        format!("error {s:?}: column {col} for an input of {} bytes", bytes.len()),
                    ));
                }
            }
        },
        End::Eof => {}
    }
    if viol.is_none() {
        for e in &a.entries {
            if e[0] == b'U' {
                viol = Some(("entry-invalid|include path is not valid UTF-#".into(), format!("the path of a returned $INCLUDE entry is not valid UTF-8: {}", hex(&e[1..]))));
                break;
            }
            if e[0] == b'O' {
                viol = Some(("current-offset|went backwards".into(), String::from_utf8_lossy(&e[2..]).to_string()));
                break;
            }
            if e[0] == b'R' {
                if let Err(why) = split_record(&e[1..]) {
                    viol = Some((format!("entry-invalid|{}", digits_to_hash(&why)), format!("returned record is not a well-formed wire record: {why}")));
                    break;
                }
            }
        }
    }
    if viol.is_none() {
        match guard(|| read_all(reader_b(bytes), max_entries)) {
            Err(p) => {
                viol = Some((format!("panic|{}", norm_panic(&p)), format!("next_entry loop (load + allow_invalid) panicked: {p}")));
            }
            Ok(b) => {
                // `allow_invalid` makes the reader tolerate entries the strict reader refuses
                // (a record of another class). Which error that is can only be told from the
                // wording of the message, which the property leaves open; what it does imply is
                // that a lenient reader that differs from the strict one got FURTHER: the strict
                // reader ended in an error and its entries are a prefix of the lenient reader's.
                let lenient_got_further = matches!(&a.end, End::Err(_)) && a != b && b.entries.len() >= a.entries.len() && b.entries[..a.entries.len()] == a.entries[..];
                if matches!(&a.end, End::Err(_)) && a != b && !lenient_got_further {
                    viol = Some((
                        "reader-disagree|allow-invalid-prefix".into(),
                        "allow_invalid reader does not start with the entries of the strict reader".into(),
                    ));
                } else if a != b && !lenient_got_further {
                    viol = Some((
                        "reader-disagree|same-bytes".into(),
                        format!("reader built with From<&[u8]> ended {:?} after {} entries; reader built with load()+allow_invalid ended {:?} after {} entries, no class conflict involved", a.end, a.entries.len(), b.end, b.entries.len()),
                    ));
                }
            }
        }
    }
    if viol.is_none() && with_parsed {
        if let Err(p) = guard(|| parsed::Zonefile::try_from(reader_a(bytes)).is_ok()) {
            viol = Some((format!("parsed-panic|{}", norm_panic(&p)), format!("zonetree::parsed::Zonefile::try_from panicked: {p}")));
        }
    }
    Exam { viol, a: Some(a) }
}

// ===================================================================
// Totality spaces
// ===================================================================

const ALPHA: &[u8; 14] = b"a1 \t\n\r\"();\\.@$";

const TOKENS: [&str; 26] = [
    "a", "a.", "@", "IN", "CH", "A", "TXT", "SOA", "TYPE65280", "\\#", "0", "1", "300", "1.2.3.4", "\"x y\"", "\"", "(", ")", ";c",
    "\n", "\\065", "\\", "$TTL", "$ORIGIN", "$INCLUDE", "\n ",
];

/// Context prefixes.  0..3 are used by both totality spaces; 3 and 4 end
/// inside a record so that short byte strings become TXT character strings
/// and a domain name in RDATA (the in-place conversions); bytes space only.
const PREFIXES: [&str; 6] =
    ["", "$ORIGIN z.\n", "$ORIGIN z.\na IN 60 A 1.2.3.4\n", "$ORIGIN z.\na IN 60 TXT ", "$ORIGIN z.\na IN 60 MX 1 ", "$ORIGIN z.\n$INCLUDE "];
const PREFIX_ENTRIES: [usize; 6] = [0, 0, 1, 0, 0, 0];

/// Second byte alphabet: octets above 0x7F (the lead and continuation
/// octets of a 2-, a 3- and a 4-octet UTF-8 sequence: C3 A9, E2 82 80,
/// F0 9F 98 80; FF is never valid), the digits for decimal escapes around 255
/// (\\225 \\255 \\256 \\265 ...), and the characters that delimit tokens.
const ALPHA8: &[u8; 17] = b"a \n\"\\256\xC3\xA9\xE2\x82\xF0\x9F\x98\x80\xFF";

fn render_tokens(prefix: usize, toks: &[u8]) -> Vec<u8> {
    let mut v = PREFIXES[prefix].as_bytes().to_vec();
    for &t in toks {
        let s = TOKENS[t as usize];
        v.extend_from_slice(s.as_bytes());
        if !s.starts_with('\n') {
            v.push(b' ');
        }
    }
    v
}

fn render_bytes(prefix: usize, body: &[u8]) -> Vec<u8> {
    let mut v = PREFIXES[prefix].as_bytes().to_vec();
    v.extend_from_slice(body);
    v
}

/// Structural context predicate for a totality signature: the last
/// directive / record type word of the *minimised* failing body.
fn ctx_word(body: &[u8]) -> String {
    let text = String::from_utf8_lossy(body).to_string();
    for w in text.split(|c: char| c.is_ascii_whitespace() || c == '(' || c == ')' || c == '"').rev() {
        let u = w.to_ascii_uppercase();
        if ["TXT", "SOA", "TYPE65280", "$TTL", "$ORIGIN", "$INCLUDE"].contains(&u.as_str()) {
            return u;
        }
    }
    "-".into()
}

fn minimise<T: Clone>(items: &[T], render: &dyn Fn(&[T]) -> Vec<u8>, class: &str, with_parsed: bool) -> Vec<T> {
    let mut cur = items.to_vec();
    loop {
        let mut changed = false;
        let mut i = 0;
        while i < cur.len() {
            let mut t = cur.clone();
            t.remove(i);
            if examine(&render(&t), with_parsed).viol.map(|v| v.0).as_deref() == Some(class) {
                cur = t;
                changed = true;
            } else {
                i += 1;
            }
        }
        if !changed {
            return cur;
        }
    }
}

#[derive(Default)]
struct Local {
    counts: BTreeMap<String, u64>,
    /// totality: end kind -> count (keyed without allocation on the hot path)
    part: String,
    end_counts: BTreeMap<String, u64>,
    entries: [u64; 5],
    includes: u64,
    nontrivial: Vec<u64>,
    evals: u64,
}

impl Local {
    fn bump(&mut self, k: &str) {
        if let Some(v) = self.counts.get_mut(k) {
            *v += 1;
        } else {
            self.counts.insert(k.to_string(), 1);
        }
    }
}

struct Shared {
    ctx: Arc<Ctx>,
    stats: Stats,
    nontrivial: Mutex<Vec<u64>>,
    wd: Watchdog,
}

impl Shared {
    fn absorb(&self, l: Local) {
        self.stats.evaluations.fetch_add(l.evals, AO::Relaxed);
        self.stats.merge_counts(&l.counts);
        if !l.part.is_empty() {
            let mut m = BTreeMap::new();
            for (k, v) in &l.end_counts {
                m.insert(format!("{}.end.{k}", l.part), *v);
            }
            for (i, v) in l.entries.iter().enumerate() {
                if *v > 0 {
                    m.insert(format!("{}.entries-from-body.{}{}", l.part, i, if i == 4 { "+" } else { "" }), *v);
                }
            }
            if l.includes > 0 {
                m.insert(format!("{}.with-include-entry", l.part), l.includes);
            }
            self.stats.merge_counts(&m);
        }
        if !l.nontrivial.is_empty() {
            self.nontrivial.lock().unwrap().extend_from_slice(&l.nontrivial);
        }
    }
}

/// Evaluate one totality case; `items` is the body as tokens or bytes.
fn totality_case(sh: &Shared, part: &str, prefix: usize, items: &[u8], with_parsed: bool, l: &mut Local) {
    let is_tok = part == "tokens";
    let render = move |b: &[u8]| if is_tok { render_tokens(prefix, b) } else { render_bytes(prefix, b) };
    let bytes = render(items);
    let ex = examine(&bytes, with_parsed);
    l.evals += 1;
    if let Some(a) = &ex.a {
        let n = a.entries.len().saturating_sub(PREFIX_ENTRIES[prefix]);
        let endk: &str = match &a.end {
            End::Eof => "eof",
            End::Overrun => "overrun",
            End::Err(s) => parse_pos(s).map(|p| p.2).unwrap_or("?"),
        };
        if let Some(v) = l.end_counts.get_mut(endk) {
            *v += 1;
        } else {
            l.end_counts.insert(endk.to_string(), 1);
        }
        l.entries[n.min(4)] += 1;
        if a.entries.iter().skip(PREFIX_ENTRIES[prefix]).any(|e| e[0] == b'I') {
            l.includes += 1;
        }
        // non-trivial: the reader got past at least one entry of the body
        // and then had more to decide (a second entry or an error)
        if n >= 2 || (n >= 1 && a.end != End::Eof) {
            let mut key = vec![prefix as u8, is_tok as u8];
            key.extend_from_slice(&bytes);
            l.nontrivial.push(fnv(&key));
        }
    }
    if let Some((class, what)) = ex.viol {
        l.bump(&format!("{part}.violating-cases"));
        let min = minimise(items, &render, &class, with_parsed);
        // the unfinished last line of the prefix belongs to the failing entry
        let mut min_body = PREFIXES[prefix].rsplit('\n').next().unwrap_or("").as_bytes().to_vec();
        min_body.extend(if is_tok { render_tokens(0, &min) } else { min.clone() });
        let sig = format!("C07|{class}|ctx={}", ctx_word(&min_body));
        if !first_in_thread(&sig) {
            return;
        }
        sh.ctx.violation(
            &sig,
            &format!("{what}; minimal input {:?}", String::from_utf8_lossy(&render(&min))),
            json!({"part": part, "prefix": prefix, "items": items, "with_parsed": with_parsed,
                   "text": String::from_utf8_lossy(&bytes), "hex": hex(&bytes),
                   "minimal_text": String::from_utf8_lossy(&render(&min)), "minimal_hex": hex(&render(&min))}),
        );
    }
}

const CHUNK: u64 = 4096;

fn totality_space(sh: &Shared, part: &str, symbols: Option<&'static [u8]>, alphabet: usize, max_len: usize, parsed_len: usize, prefixes: &[usize]) {
    for &prefix in prefixes {
        for len in 0..=max_len {
            let total = pow(alphabet, len);
            let chunks = total.div_ceil(CHUNK);
            (0..chunks).into_par_iter().for_each(|ch| {
                let from = ch * CHUNK;
                let to = (from + CHUNK).min(total);
                sh.wd.enter(|| json!({"part": format!("{part}-chunk"), "prefix": prefix, "len": len, "from": from, "to": to}));
                let mut l = Local { part: part.to_string(), ..Default::default() };
                let mut items: Vec<u8> = Vec::with_capacity(len);
                for k in from..to {
                    items.clear();
                    let mut kk = k;
                    for _ in 0..len {
                        let d = (kk % alphabet as u64) as u8;
                        items.push(match symbols {
                            None => d,
                            Some(a) => a[d as usize],
                        });
                        kk /= alphabet as u64;
                    }
                    totality_case(sh, part, prefix, &items, len <= parsed_len, &mut l);
                }
                sh.wd.leave();
                sh.absorb(l);
            });
            sh.stats.count_n(&format!("{part}.bound.prefix{prefix}.len{len}"), total);
        }
    }
}

// ===================================================================
// Layout independence
// ===================================================================

#[derive(Clone, Copy, PartialEq, Eq, Debug)]
enum Kind {
    A,
    Txt,
    Soa,
    Mx,
    Unk,
    /// MX whose exchange is the origin itself: `z.` versus a free standing `@`.
    MxO,
    /// NSEC: a name followed by a type bitmap (`continues`, `octets_builder`).
    Nsec,
    /// NSEC3: salt and next hashed owner are read with `convert_token`.
    Nsec3,
    /// SVCB: parameters are read with `scan_svcb_octets` / `has_space`;
    /// values plain or quoted (RFC 9460 2.1).
    Svcb,
    /// `$INCLUDE f a.z.` (an entry, not a record): path plain / quoted /
    /// escaped, origin argument relative / absolute.
    Incl,
    /// TXT whose strings contain parentheses (`(`, `a) b`, `)(`), quoted,
    /// `\X`-escaped or `\DDD`-escaped: these parentheses are data, not
    /// grouping (space P only).
    TxtP,
}

impl Kind {
    fn name(self) -> &'static str {
        match self {
            Kind::A => "A",
            Kind::Txt => "TXT",
            Kind::Soa => "SOA",
            Kind::Mx => "MX",
            Kind::Unk => "TYPE65280",
            Kind::MxO => "MX-origin",
            Kind::Incl => "$INCLUDE",
            Kind::Nsec => "NSEC",
            Kind::Nsec3 => "NSEC3",
            Kind::Svcb => "SVCB",
            Kind::TxtP => "TXT-parens",
        }
    }
    fn rtype(self) -> u16 {
        match self {
            Kind::A => 1,
            Kind::Txt => 16,
            Kind::Soa => 6,
            Kind::Mx | Kind::MxO => 15,
            Kind::Unk => 65280,
            Kind::Incl => 0,
            Kind::Nsec => 47,
            Kind::Nsec3 => 50,
            Kind::Svcb => 64,
            Kind::TxtP => 16,
        }
    }
    fn mnemonic(self) -> &'static str {
        match self {
            Kind::A => "A",
            Kind::Txt => "TXT",
            Kind::Soa => "SOA",
            Kind::Mx | Kind::MxO => "MX",
            Kind::Unk => "TYPE65280",
            Kind::Incl => "$INCLUDE",
            Kind::Nsec => "NSEC",
            Kind::Nsec3 => "NSEC3",
            Kind::Svcb => "SVCB",
            Kind::TxtP => "TXT",
        }
    }
    fn forms(self) -> usize {
        match self {
            Kind::A => 2,
            Kind::Txt => 6,
            Kind::Soa => 4,
            Kind::Mx => 3,
            Kind::Unk => 2,
            Kind::MxO => 2,
            Kind::Incl => 6,
            Kind::Nsec => 2,
            Kind::Nsec3 => 2,
            Kind::Svcb => 2,
            Kind::TxtP => 3,
        }
    }
}

type Labels = Vec<&'static str>;

fn name_wire(l: &[&str]) -> Vec<u8> {
    let mut v = Vec::new();
    for x in l {
        v.push(x.len() as u8);
        v.extend_from_slice(x.as_bytes());
    }
    v.push(0);
    v
}

fn rdata_wire(k: Kind) -> Vec<u8> {
    match k {
        Kind::A => vec![1, 2, 3, 4],
        Kind::Txt => {
            let mut v = vec![3];
            v.extend_from_slice(b"x y");
            v.push(1);
            v.push(b'z');
            v
        }
        Kind::Soa => {
            let mut v = name_wire(&["ns", "z"]);
            v.extend(name_wire(&["h", "z"]));
            for n in [1u32, 60, 60, 60, 60] {
                v.extend_from_slice(&n.to_be_bytes());
            }
            v
        }
        Kind::Mx => {
            let mut v = vec![0, 10];
            v.extend(name_wire(&["m", "z"]));
            v
        }
        Kind::MxO => {
            let mut v = vec![0, 10];
            v.extend(name_wire(&["z"]));
            v
        }
        Kind::Unk => vec![0xab, 0xcd],
        Kind::Incl => Vec::new(),
        Kind::Nsec => {
            // next name a.z., types A (1) and TXT (16): window 0, 3 octets
            let mut v = name_wire(&["a", "z"]);
            v.extend_from_slice(&[0, 3, 0x40, 0x00, 0x80]);
            v
        }
        Kind::Nsec3 => {
            // SHA-1, flags 0, 10 iterations, salt ab, 20 zero octets of hash, type A
            let mut v = vec![1, 0, 0, 10, 1, 0xab, 20];
            v.extend_from_slice(&[0u8; 20]);
            v.extend_from_slice(&[0, 1, 0x40]);
            v
        }
        Kind::Svcb => {
            // priority 1, target m.z., alpn=h2 (key 1), port=443 (key 3)
            let mut v = vec![0, 1];
            v.extend(name_wire(&["m", "z"]));
            v.extend_from_slice(&[0, 1, 0, 3, 2, b'h', b'2', 0, 3, 0, 2, 0x01, 0xbb]);
            v
        }
        Kind::TxtP => {
            let mut v = Vec::new();
            for s in ["(", "a) b", ")("] {
                v.push(s.len() as u8);
                v.extend_from_slice(s.as_bytes());
            }
            v
        }
    }
}

/// Expected entry in the representation of `entry_repr`: 'R' + wire record.
fn rec_wire(owner: &[&str], rtype: u16, class: u16, ttl: u32, rdata: &[u8]) -> Vec<u8> {
    let mut v = vec![b'R'];
    v.extend(name_wire(owner));
    v.extend_from_slice(&rtype.to_be_bytes());
    v.extend_from_slice(&class.to_be_bytes());
    v.extend_from_slice(&ttl.to_be_bytes());
    v.extend_from_slice(&(rdata.len() as u16).to_be_bytes());
    v.extend_from_slice(rdata);
    v
}

/// Text of an absolute name under `origin`.  Relative form only exists when
/// the name lies at or below the origin; the origin itself is `@`.
fn name_text(abs: &[&str], origin: &[&str], want_rel: bool) -> String {
    if want_rel && abs.len() >= origin.len() && abs[abs.len() - origin.len()..] == *origin {
        let rest = &abs[..abs.len() - origin.len()];
        if rest.is_empty() {
            "@".into()
        } else {
            rest.join(".")
        }
    } else {
        format!("{}.", abs.join("."))
    }
}

/// RDATA tokens for a kind in form `f`; names relative to `origin` when
/// `rel` (never producing `@` except for Kind::MxO form 1).
fn data_tokens(k: Kind, f: usize, origin: &[&str], rel: bool) -> Vec<String> {
    let nm = |abs: &[&str], r: bool| -> String {
        if abs == origin {
            // keep `@` out of ordinary kinds
            format!("{}.", abs.join("."))
        } else {
            name_text(abs, origin, r)
        }
    };
    match k {
        Kind::A => vec![["1.2.3.4", "\\049.2.3.4"][f].to_string()],
        Kind::Txt => vec![["\"x y\"", "x\\ y", "x\\032y"][f % 3].to_string(), ["\"z\"", "z"][f / 3].to_string()],
        Kind::Soa => {
            let mut v = vec![nm(&["ns", "z"], rel || f & 1 == 1), nm(&["h", "z"], rel || f & 2 == 2)];
            for n in ["1", "60", "60", "60", "60"] {
                v.push(n.to_string());
            }
            v
        }
        Kind::Mx => vec![
            "10".into(),
            match f {
                0 => nm(&["m", "z"], rel),
                1 => nm(&["m", "z"], true),
                _ => {
                    // escaped label: \109 == 'm'
                    let t = nm(&["m", "z"], true);
                    t.replacen('m', "\\109", 1)
                }
            },
        ],
        Kind::Incl => vec![["f", "\"f\"", "\\f"][f % 3].to_string(), nm(&["a", "z"], f / 3 == 1)],
        Kind::Nsec => vec![nm(&["a", "z"], rel || f == 1), "A".into(), "TXT".into()],
        Kind::Nsec3 => vec![
            "1".into(),
            "0".into(),
            "10".into(),
            ["ab", "AB"][f].into(),
            "00000000000000000000000000000000".into(),
            "A".into(),
        ],
        Kind::Svcb => vec![
            "1".into(),
            nm(&["m", "z"], rel),
            ["alpn=h2", "alpn=\"h2\""][f].into(),
            ["port=443", "port=\"443\""][f].into(),
        ],
        Kind::TxtP => match f {
            0 => vec!["\"(\"".into(), "\"a) b\"".into(), "\")(\"".into()],
            1 => vec!["\\(".into(), "a\\)\\ b".into(), "\\)\\(".into()],
            _ => vec!["\\040".into(), "a\\041\\032b".into(), "\\041\\040".into()],
        },
        Kind::MxO => vec!["10".into(), if f == 1 && origin == ["z"] { "@".into() } else { "z.".into() }],
        Kind::Unk => {
            if f == 0 {
                vec!["\\#".into(), "2".into(), "abcd".into()]
            } else {
                vec!["\\#".into(), "2".into(), "ab".into(), "cd".into()]
            }
        }
    }
}

/// Reference interpreter for RFC 1035 section 5.1 / RFC 2308 section 4
/// inheritance.  `None` means the entry has no defined meaning.
#[derive(Clone, Default)]
struct RefState {
    dollar_ttl: Option<u32>,
    last_ttl: Option<u32>,
    last_class: Option<u16>,
    last_owner: Option<Labels>,
}

impl RefState {
    fn record(&mut self, owner: Option<&Labels>, ttl: Option<u32>, class: Option<u16>) -> Option<(Labels, u32, u16)> {
        let o = match owner {
            Some(o) => {
                self.last_owner = Some(o.clone());
                o.clone()
            }
            None => self.last_owner.clone()?,
        };
        let c = match class {
            Some(c) => {
                self.last_class = Some(c);
                c
            }
            None => self.last_class?,
        };
        let t = match ttl {
            Some(t) => {
                self.last_ttl = Some(t);
                t
            }
            // RFC 2308 4: records after a $TTL without explicit TTL get the
            // $TTL value; otherwise RFC 1035 5.1: last explicitly stated.
            None => match self.dollar_ttl {
                Some(d) => d,
                None => self.last_ttl?,
            },
        };
        Some((o, t, c))
    }
}

const SEPS: [&str; 3] = [" ", "\t", "  \t "];
const SEP_NAMES: [&str; 3] = ["space", "tab", "multi"];
const ENDS: [&str; 9] = ["\n", "\r\n", " \n", " ;c\n", ";c\n", "\n\n", "\n;c\n", "\n \t\n", " ; c ( \" \\\r\n"];
const END_NAMES: [&str; 9] =
    ["lf", "crlf", "space-lf", "space-comment", "attached-comment", "blank-line", "comment-line", "whitespace-line", "comment-with-specials-crlf"];

#[derive(Clone, Copy, PartialEq, Eq, Debug)]
struct Layout {
    sep: usize,
    /// (shape 1..=4, gap index = after token `gap`)
    cont: Option<(usize, usize)>,
    end: usize,
}

/// Render one record line.  Parentheses are always surrounded by white
/// space or line ends (adjacency is left to the totality spaces).
fn render_line(indent: &str, toks: &[String], lay: Layout) -> Option<String> {
    let sep = SEPS[lay.sep];
    let n = toks.len();
    let mut s = String::from(indent);
    let join = |s: &mut String, from: usize, to: usize| {
        for i in from..to {
            if i > from {
                s.push_str(sep);
            }
            s.push_str(&toks[i]);
        }
    };
    match lay.cont {
        None => join(&mut s, 0, n),
        Some((shape, g)) => {
            if g + 1 >= n {
                return None;
            }
            join(&mut s, 0, g + 1);
            s.push_str(sep);
            match shape {
                1 => {
                    s.push_str("(\n ");
                    join(&mut s, g + 1, n);
                    s.push_str(" )");
                }
                2 => {
                    s.push_str("( ");
                    s.push_str(&toks[g + 1]);
                    s.push_str(";c\n\t");
                    join(&mut s, g + 2, n);
                    if g + 2 < n {
                        s.push(' ');
                    }
                    s.push(')');
                }
                3 => {
                    s.push_str("(\n");
                    s.push_str(&toks[g + 1]);
                    s.push_str(" )");
                    if g + 2 < n {
                        s.push_str(sep);
                        join(&mut s, g + 2, n);
                    }
                }
                _ => {
                    s.push_str("( ; c\n\n\t");
                    join(&mut s, g + 1, n);
                    s.push_str(" )");
                }
            }
        }
    }
    s.push_str(ENDS[lay.end]);
    Some(s)
}

#[derive(Clone, Copy, PartialEq, Eq, Debug)]
enum OwnerForm {
    Abs,
    Rel,
    Esc,
    InhSpace,
    InhTab,
}
const OWNER_FORMS: [OwnerForm; 5] = [OwnerForm::Abs, OwnerForm::Rel, OwnerForm::Esc, OwnerForm::InhSpace, OwnerForm::InhTab];

/// class/TTL forms: both (class first), both (TTL first), class only, TTL only, neither
const CT_NAMES: [&str; 5] = ["class-ttl", "ttl-class", "class-only", "ttl-only", "neither"];

fn owner_labels(i: usize) -> Labels {
    [vec!["z"], vec!["a", "z"], vec!["b", "a", "z"]][i].clone()
}

/// Owner token (None = inherited) plus indent.
fn owner_text(abs: &[&str], origin: &[&str], form: OwnerForm) -> Option<(String, Option<String>)> {
    match form {
        OwnerForm::Abs => Some((String::new(), Some(name_text(abs, origin, false)))),
        OwnerForm::Rel => {
            let t = name_text(abs, origin, true);
            if t.ends_with('.') {
                None // not below the origin: no relative form
            } else {
                Some((String::new(), Some(t)))
            }
        }
        OwnerForm::Esc => {
            // escape the first octet of the last-but-origin label decimal
            let t = name_text(abs, origin, true);
            let t = if t == "@" { name_text(abs, origin, false) } else { t };
            // replace the last 'a' or 'z' letter occurrence that is a label start
            let esc = if let Some(p) = t.rfind('a') {
                format!("{}\\097{}", &t[..p], &t[p + 1..])
            } else if let Some(p) = t.rfind('z') {
                format!("{}\\122{}", &t[..p], &t[p + 1..])
            } else {
                return None;
            };
            Some((String::new(), Some(esc)))
        }
        OwnerForm::InhSpace => Some((" ".into(), None)),
        OwnerForm::InhTab => Some(("\t".into(), None)),
    }
}

/// Header tokens (owner, class/TTL, type) with their role names.
fn head_tokens(owner_tok: Option<String>, ct: usize, ttl: u32, kind: Kind) -> (Vec<String>, Vec<&'static str>) {
    let mut t = Vec::new();
    let mut r = Vec::new();
    if let Some(o) = owner_tok {
        t.push(o);
        r.push("owner");
    }
    let ttl_s = ttl.to_string();
    match ct {
        0 => {
            t.push("IN".into());
            r.push("class");
            t.push(ttl_s);
            r.push("ttl");
        }
        1 => {
            t.push(ttl_s);
            r.push("ttl");
            t.push("IN".into());
            r.push("class");
        }
        2 => {
            t.push("IN".into());
            r.push("class");
        }
        3 => {
            t.push(ttl_s);
            r.push("ttl");
        }
        _ => {}
    }
    t.push(kind.mnemonic().into());
    r.push("type");
    (t, r)
}

fn ct_explicit(ct: usize) -> (bool, bool) {
    // (class explicit, ttl explicit)
    match ct {
        0 | 1 => (true, true),
        2 => (true, false),
        3 => (false, true),
        _ => (false, false),
    }
}

struct Rendering {
    text: String,
    expected: Vec<Vec<u8>>,
    /// non-canonical slots as (slot, value name) for signatures
    slots: Vec<(String, String)>,
    kinds: Vec<Kind>,
}

/// Outcome class of a layout case: None = as expected.
fn layout_verdict(text: &str, expected: &[Vec<u8>]) -> Option<(String, String)> {
    layout_verdict_setup(text, expected, 0)
}

fn layout_verdict_setup(text: &str, expected: &[Vec<u8>], setup: usize) -> Option<(String, String)> {
    let bytes = text.as_bytes();
    let out = match guard(|| read_all(reader_setup(bytes, setup), bytes.len() + 2)) {
        Ok(o) => o,
        Err(p) => return Some((format!("panic:{}", norm_panic(&p)), format!("reader panicked: {p}"))),
    };
    if let End::Err(s) = &out.end {
        let msg = parse_pos(s).map(|p| p.2.to_string()).unwrap_or_else(|| s.clone());
        return Some((
            format!("rejected:{}", digits_to_hash(&msg)),
            format!("a rendering of a well-formed file is rejected with {s:?} after {} of {} records", out.entries.len(), expected.len()),
        ));
    }
    if out.end == End::Overrun {
        return Some(("overrun".into(), "more entries than bytes".into()));
    }
    let got: Vec<&[u8]> = out.entries.iter().map(|e| &e[..]).collect();
    if got.len() != expected.len() {
        return Some((
            "records-differ:count".into(),
            format!("{} entries returned, logical file has {} entries", got.len(), expected.len()),
        ));
    }
    for (i, (g, e)) in got.iter().zip(expected).enumerate() {
        if *g != &e[..] {
            if g[0] != e[0] {
                return Some(("records-differ:entry-kind".into(), format!("entry {i} is of a different kind: got {} expected {}", hex(g), hex(e))));
            }
            if g[0] == b'I' {
                return Some((
                    "entries-differ:include".into(),
                    format!("$INCLUDE entry {i} differs: got path+origin {:?} expected {:?}", String::from_utf8_lossy(&g[1..]), String::from_utf8_lossy(&e[1..])),
                ));
            }
            let field = match (split_record(&g[1..]), split_record(&e[1..])) {
                (Ok(g), Ok(e)) => {
                    if g.0 != e.0 {
                        "owner"
                    } else if g.1 != e.1 {
                        "type"
                    } else if g.2 != e.2 {
                        "class"
                    } else if g.3 != e.3 {
                        "ttl"
                    } else {
                        "rdata"
                    }
                }
                _ => "malformed",
            };
            return Some((
                format!("records-differ:{field}"),
                format!("record {i} differs in {field}: got wire {} expected {}", hex(g), hex(e)),
            ));
        }
    }
    None
}

// ---------------- space L1: one record under test, all slots ------------

const L1_SIZES: [usize; 8] = [2, 5, 5, 6, 3, 41, 9, 3];
const L1_SLOTS: [&str; 8] = ["dollar-ttl", "owner", "class-ttl", "data-form", "separator", "continuation", "line-end", "sentinel"];
const L1_KINDS: [Kind; 10] = [Kind::A, Kind::Txt, Kind::Soa, Kind::Mx, Kind::Unk, Kind::MxO, Kind::Incl, Kind::Nsec, Kind::Nsec3, Kind::Svcb];

/// File: `$ORIGIN z.` [`$TTL 60`] context-record R [sentinel].  The context
/// record has R's owner, class IN and TTL 60 stated explicitly, so that
/// every inheritance form of R is well defined.
struct L1Head {
    text: String,
    expected: Vec<Vec<u8>>,
    indent: String,
    toks: Vec<String>,
    roles: Vec<&'static str>,
    st: RefState,
    abs: Labels,
}

/// Slots 0..4 (dollar-ttl, owner, class-ttl, data-form): everything up to
/// the tokens of the record under test.
fn l1_head(owner_i: usize, kind: Kind, c: &[usize]) -> Option<L1Head> {
    let origin: Labels = vec!["z"];
    let ttl = 60u32;
    let (dttl, of, ct, df) = (c[0], OWNER_FORMS[c[1]], c[2], c[3]);
    if df >= kind.forms() {
        return None;
    }
    let abs = owner_labels(owner_i);
    let mut st = RefState::default();
    let mut text = String::from("$ORIGIN z.\n");
    let mut expected = Vec::new();
    if dttl == 1 {
        text.push_str("$TTL 60\n");
        st.dollar_ttl = Some(60);
    }
    // context record, canonical
    text.push_str(&format!("{} IN 60 A 192.0.2.9\n", name_text(&abs, &origin, true)));
    let (o, t, cl) = st.record(Some(&abs), Some(60), Some(1))?;
    expected.push(rec_wire(&o, 1, cl, t, &[192, 0, 2, 9]));
    if kind == Kind::Incl {
        // a directive has no owner/class/TTL slots
        if c[1] != 0 || ct != 0 {
            return None;
        }
        let mut e = vec![b'I', b'f', 0, 1];
        e.extend(name_wire(&["a", "z"]));
        expected.push(e);
        let mut toks = vec!["$INCLUDE".to_string()];
        toks.extend(data_tokens(kind, df, &origin, false));
        return Some(L1Head { text, expected, indent: String::new(), toks, roles: vec!["type", "rd0", "rd1"], st, abs });
    }
    // record under test
    let (indent, owner_tok) = owner_text(&abs, &origin, of)?;
    let (ce, te) = ct_explicit(ct);
    let (o, t, cl) = st.record(owner_tok.as_ref().map(|_| &abs), te.then_some(ttl), ce.then_some(1))?;
    if o != abs || t != ttl || cl != 1 {
        return None; // this rendering means something else
    }
    expected.push(rec_wire(&abs, kind.rtype(), 1, ttl, &rdata_wire(kind)));
    let (mut toks, mut roles) = head_tokens(owner_tok, ct, ttl, kind);
    for (i, d) in data_tokens(kind, df, &origin, false).into_iter().enumerate() {
        toks.push(d);
        roles.push(["rd0", "rd1", "rd2", "rd3", "rd4", "rd5", "rd6"][i]);
    }
    Some(L1Head { text, expected, indent, toks, roles, st, abs })
}

fn l1_cont(h: &L1Head, cont: usize) -> Option<Option<(usize, usize)>> {
    // continuation gap is anchored at the type token: offset -3..=6
    let type_idx = h.roles.iter().position(|r| *r == "type").unwrap() as isize;
    if cont == 0 {
        Some(None)
    } else {
        let g = type_idx + ((cont - 1) / 4) as isize - 3;
        if g < 0 {
            return None;
        }
        Some(Some(((cont - 1) % 4 + 1, g as usize)))
    }
}

/// Slots 4..8 (separator, continuation, line-end, sentinel).
fn l1_tail(h: &L1Head, c: &[usize]) -> Option<(String, Vec<Vec<u8>>)> {
    let (sep, cont, end, sent) = (c[0], c[1], c[2], c[3]);
    let contv = l1_cont(h, cont)?;
    let mut text = h.text.clone();
    let mut expected = h.expected.clone();
    let mut st = h.st.clone();
    text.push_str(&render_line(&h.indent, &h.toks, Layout { sep, cont: contv, end })?);
    match sent {
        0 => {}
        1 => {
            text.push_str("s IN 60 A 192.0.2.7\n");
            let s: Labels = vec!["s", "z"];
            let (o, t, cl) = st.record(Some(&s), Some(60), Some(1))?;
            expected.push(rec_wire(&o, 1, cl, t, &[192, 0, 2, 7]));
        }
        _ => {
            if h.toks[0] == "$INCLUDE" {
                return None; // owner inheritance across $INCLUDE is not specified
            }
            text.push_str("\tA 192.0.2.7\n");
            let (o, t, cl) = st.record(None, None, None)?;
            if o != h.abs || t != 60 || cl != 1 {
                return None;
            }
            expected.push(rec_wire(&o, 1, cl, t, &[192, 0, 2, 7]));
        }
    }
    Some((text, expected))
}

fn l1_render(owner_i: usize, kind: Kind, c: &[usize]) -> Option<Rendering> {
    let h = l1_head(owner_i, kind, &c[..4])?;
    let (text, expected) = l1_tail(&h, &c[4..])?;
    let contv = l1_cont(&h, c[5])?;
    let mut slots = Vec::new();
    let names: [String; 8] = [
        ["none", "present"][c[0]].into(),
        format!("{:?}", OWNER_FORMS[c[1]]),
        CT_NAMES[c[2]].into(),
        format!("form{}", c[3]),
        SEP_NAMES[c[4]].into(),
        match contv {
            None => "none".into(),
            Some((sh, g)) => format!("shape{sh}-after-{}", h.roles[g]),
        },
        END_NAMES[c[6]].into(),
        ["none", "explicit", "inherited"][c[7]].into(),
    ];
    for i in 0..8 {
        if c[i] != 0 {
            slots.push((L1_SLOTS[i].to_string(), names[i].clone()));
        }
    }
    Some(Rendering { text, expected, slots, kinds: vec![kind] })
}

// ---------------- space L2: several records, inheritance x line style ----

/// per record: [$TTL before (none/60/3600), $ORIGIN a.z. before (no/yes), owner (Abs/Rel/Inherited), class-ttl (5), style (4)]
const L2_SIZES: [usize; 5] = [3, 2, 3, 5, 4];
const L2_SLOTS: [&str; 5] = ["dollar-ttl", "origin-change", "owner", "class-ttl", "style"];
const L2_STYLE_NAMES: [&str; 4] = ["plain", "tabs-crlf", "rdata-in-parens-attached-comment", "wide-paren-after-first-token-blank-comment-lines"];

#[derive(Clone, Copy, PartialEq, Eq, Debug)]
struct LRec {
    owner: usize,
    ttl: u32,
    kind: Kind,
}

/// Cheap admissibility check of per-record choices on the reference
/// interpreter, before any text is produced.
fn l2_step(st: &mut RefState, origin: &mut Labels, rec: &LRec, idx: usize, c: &[usize]) -> bool {
    let (dttl, oc, of, ct) = (c[0], c[1], c[2], c[3]);
    if dttl > 0 {
        st.dollar_ttl = Some([60, 3600][dttl - 1]);
    }
    if oc == 1 {
        if idx != 1 {
            return false;
        }
        *origin = vec!["a", "z"];
    }
    let abs = owner_labels(rec.owner);
    if of == 1 {
        // relative form must exist
        if !(abs.len() >= origin.len() && abs[abs.len() - origin.len()..] == origin[..]) {
            return false;
        }
    }
    let (ce, te) = ct_explicit(ct);
    match st.record(if of == 2 { None } else { Some(&abs) }, te.then_some(rec.ttl), ce.then_some(1)) {
        Some((o, t, cl)) => o == abs && t == rec.ttl && cl == 1,
        None => false,
    }
}

/// Text of one record of an L2 file (directives before it, the line, and
/// trailing lines), under the origin in force *after* its directives.
fn l2_chunk(rec: &LRec, c: &[usize; 5], origin: &Labels) -> Option<String> {
    let mut text = String::new();
    if c[0] > 0 {
        text.push_str(&format!("$TTL {}\n", [60, 3600][c[0] - 1]));
    }
    if c[1] == 1 {
        text.push_str("$ORIGIN a.z.\n");
    }
    let abs = owner_labels(rec.owner);
    let of = [OwnerForm::Abs, OwnerForm::Rel, OwnerForm::InhTab][c[2]];
    let (indent, owner_tok) = owner_text(&abs, origin, of)?;
    let (mut toks, _) = head_tokens(owner_tok, c[3], rec.ttl, rec.kind);
    let ntype = toks.len() - 1;
    let style = c[4];
    // data form tied to owner form / style
    let df = match rec.kind {
        Kind::Txt => [0, 0, 4, 5][style],
        Kind::Unk => [0, 0, 1, 1][style],
        _ => 0,
    };
    toks.extend(data_tokens(rec.kind, df, origin, c[2] == 1));
    let lay = match style {
        0 => Layout { sep: 0, cont: None, end: 0 },
        1 => Layout { sep: 1, cont: None, end: 1 },
        2 => Layout { sep: 0, cont: Some((1, ntype)), end: 4 },
        _ => Layout { sep: 2, cont: Some((2, 0)), end: 6 },
    };
    text.push_str(&render_line(&indent, &toks, lay)?);
    if style == 3 {
        text.push_str(" ;c\n\n");
    }
    Some(text)
}

const SETUP_NAMES: [&str; 3] = ["origin-directive", "set_origin", "set_origin+set_default_class"];

/// Reference state and text at the start of an L2 file for a setup: the
/// origin comes from a `$ORIGIN z.` line or from `set_origin`; with
/// `set_default_class(IN)` an omitted class is IN from the first record on.
fn l2_start(setup: usize) -> (RefState, String) {
    let mut st = RefState::default();
    if setup == 2 {
        st.last_class = Some(1);
    }
    (st, if setup == 0 { "$ORIGIN z.\n".to_string() } else { String::new() })
}

fn l2_render(file: &[LRec], choices: &[[usize; 5]], setup: usize) -> Option<Rendering> {
    let (mut st, mut text) = l2_start(setup);
    let mut origin: Labels = vec!["z"];
    let mut expected = Vec::new();
    let mut slots = Vec::new();
    for (i, (rec, c)) in file.iter().zip(choices).enumerate() {
        if !l2_step(&mut st, &mut origin, rec, i, c) {
            return None;
        }
        text.push_str(&l2_chunk(rec, c, &origin)?);
        let abs = owner_labels(rec.owner);
        expected.push(rec_wire(&abs, rec.kind.rtype(), 1, rec.ttl, &rdata_wire(rec.kind)));
        let names = [
            ["none", "60", "3600"][c[0]].to_string(),
            ["no", "a.z."][c[1]].to_string(),
            ["Abs", "Rel", "Inherited"][c[2]].to_string(),
            CT_NAMES[c[3]].to_string(),
            L2_STYLE_NAMES[c[4]].to_string(),
        ];
        for s in 0..5 {
            if c[s] != 0 {
                slots.push((format!("r{i}.{}", L2_SLOTS[s]), names[s].clone()));
            }
        }
    }
    Some(Rendering { text, expected, slots, kinds: file.iter().map(|r| r.kind).collect() })
}

fn layout_signature(space: &str, r: &Rendering, class: &str) -> String {
    let mut kinds: Vec<&str> = Vec::new();
    if space == "L1" {
        kinds.push(r.kinds[0].name());
    } else {
        // only the kinds of records that still carry a non-canonical slot
        for (i, k) in r.kinds.iter().enumerate() {
            if r.slots.iter().any(|(s, _)| s.starts_with(&format!("r{i}."))) && !kinds.contains(&k.name()) {
                kinds.push(k.name());
            }
        }
    }
    let slots: Vec<String> = r.slots.iter().map(|(s, v)| format!("{s}={v}")).collect();
    format!("C07|layout|{space}|kind={}|{}|{class}", kinds.join("+"), slots.join(","))
}

std::thread_local! {
    static SEEN_SIGS: std::cell::RefCell<std::collections::HashSet<String>> = std::cell::RefCell::new(Default::default());
}

/// Report through ctx only the first instance of a signature in the run (building the replay JSON for hundreds of thousands of instances
/// of one class serialises the run); all instances are counted in the
/// `*.failing.*` / `violating-cases` counters.
fn first_in_thread(sig: &str) -> bool {
    if !SEEN_SIGS.with(|s| s.borrow_mut().insert(sig.to_string())) {
        return false;
    }
    // first in this thread: first in the whole run?
    SEEN_GLOBAL.lock().unwrap().insert(sig.to_string())
}

static SEEN_GLOBAL: Mutex<std::collections::BTreeSet<String>> = Mutex::new(std::collections::BTreeSet::new());

struct LayoutCounters {
    renderings: AtomicU64,
    inadmissible: AtomicU64,
    failing: AtomicU64,
}

fn l1_report(sh: &Shared, owner_i: usize, kind: Kind, c: &[usize], class: &str, what: &str) {
    // slot-wise minimisation towards the canonical rendering
    let mut cur = c.to_vec();
    loop {
        let mut changed = false;
        for i in 0..cur.len() {
            if cur[i] == 0 {
                continue;
            }
            // smallest value of this slot that still shows the same outcome
            for v in 0..cur[i] {
                let mut t = cur.clone();
                t[i] = v;
                if let Some(r) = l1_render(owner_i, kind, &t) {
                    if layout_verdict(&r.text, &r.expected).map(|v| v.0).as_deref() == Some(class) {
                        cur = t;
                        changed = true;
                        break;
                    }
                }
            }
        }
        if !changed {
            break;
        }
    }
    let rmin = l1_render(owner_i, kind, &cur).unwrap();
    let sig = layout_signature("L1", &rmin, class);
    if !first_in_thread(&sig) {
        return;
    }
    let r = l1_render(owner_i, kind, c).unwrap();
    sh.ctx.violation(
        &sig,
        &format!("{what}; minimal rendering {:?}", rmin.text),
        json!({"part": "layout", "text": r.text, "expected_hex": r.expected.iter().map(|e| hex(e)).collect::<Vec<_>>(),
               "minimal_text": rmin.text, "space": "L1", "owner": owner_i, "kind": kind.name(), "choices": c}),
    );
}

fn l2_report(sh: &Shared, file: &[LRec], ch: &[[usize; 5]], setup: usize, class: &str, what: &str) {
    let mut cur = ch.to_vec();
    // the API setup is part of the signature only if the directive form does not fail alike
    let mut setup = setup;
    if setup != 0 {
        if let Some(r) = l2_render(file, &cur, 0) {
            if layout_verdict_setup(&r.text, &r.expected, 0).map(|v| v.0).as_deref() == Some(class) {
                setup = 0;
            }
        }
    }
    loop {
        let mut changed = false;
        for i in (0..cur.len()).rev() {
            for s in (0..5).rev() {
                if cur[i][s] == 0 {
                    continue;
                }
                for v in 0..cur[i][s] {
                    let mut t = cur.clone();
                    t[i][s] = v;
                    if let Some(r) = l2_render(file, &t, setup) {
                        if layout_verdict_setup(&r.text, &r.expected, setup).map(|v| v.0).as_deref() == Some(class) {
                            cur = t;
                            changed = true;
                            break;
                        }
                    }
                }
            }
        }
        if !changed {
            break;
        }
    }
    let rmin = l2_render(file, &cur, setup).unwrap();
    let r = l2_render(file, ch, setup).unwrap();
    // Signature: the record at which the reader's result first departs
    // from the logical file, its kind and its remaining non-canonical
    // slots; the preceding record's slots when it has none of its own;
    // $TTL placement only for TTL differences.
    let out = guard(|| read_all(reader_setup(rmin.text.as_bytes(), setup), rmin.text.len() + 2)).ok();
    let at = out
        .map(|o| {
            let mut k = 0;
            while k < o.entries.len() && k < rmin.expected.len() && o.entries[k] == rmin.expected[k] {
                k += 1;
            }
            k.min(file.len() - 1)
        })
        .unwrap_or(0);
    let names = |i: usize, pre: &str| -> Vec<String> {
        rmin.slots
            .iter()
            .filter_map(|(s, v)| {
                let slot = s.strip_prefix(&format!("r{i}."))?;
                if slot == "dollar-ttl" {
                    None
                } else {
                    Some(format!("{pre}{slot}={v}"))
                }
            })
            .collect()
    };
    let mut parts = names(at, "");
    if parts.is_empty() && at > 0 {
        parts = names(at - 1, "prev.");
    }
    if class == "records-differ:ttl" {
        for i in 0..file.len() {
            if cur[i][0] != 0 {
                parts.push(format!("dollar-ttl-before-r{}", i as isize - at as isize));
            }
        }
    }
    // inheritance outcomes do not depend on the record type
    let kind = if ["records-differ:ttl", "records-differ:class", "records-differ:owner"].contains(&class) || class.starts_with("rejected:missing last") {
        "*"
    } else {
        file[at].kind.name()
    };
    if setup != 0 {
        parts.push(format!("setup={}", SETUP_NAMES[setup]));
    }
    let sig = format!("C07|layout|L2|kind={kind}|{}|{class}", parts.join(","));
    if !first_in_thread(&sig) {
        return;
    }
    sh.ctx.violation(
        &sig,
        &format!("{what}; minimal rendering {:?}", rmin.text),
        json!({"part": "layout", "text": r.text, "expected_hex": r.expected.iter().map(|e| hex(e)).collect::<Vec<_>>(),
               "minimal_text": rmin.text, "space": "L2", "setup": setup,
               "file": file.iter().map(|r| json!([r.owner, r.ttl, r.kind.name()])).collect::<Vec<_>>(),
               "choices": ch.iter().map(|c| c.to_vec()).collect::<Vec<_>>()}),
    );
}

fn run_l1(sh: &Shared, lc: &LayoutCounters, per_case_wd: bool, only: Option<(usize, usize, [usize; 4])>) {
    // work items: owner x kind x first four slots
    let mut items = Vec::new();
    for owner_i in 0..3 {
        for (ki, _) in L1_KINDS.iter().enumerate() {
            product(&L1_SIZES[..4], |c| items.push((owner_i, ki, [c[0], c[1], c[2], c[3]])));
        }
    }
    if let Some(o) = only {
        items.retain(|x| *x == o);
    }
    items.par_iter().for_each(|&(owner_i, ki, head)| {
        let kind = L1_KINDS[ki];
        if !per_case_wd {
            sh.wd.enter(|| json!({"part": "layout-chunk", "space": "L1", "owner": owner_i, "kind": ki, "head": head}));
        }
        let mut l = Local::default();
        let mut inadm = 0u64;
        let h = l1_head(owner_i, kind, &head);
        product(&L1_SIZES[4..], |t| {
            let c = [head[0], head[1], head[2], head[3], t[0], t[1], t[2], t[3]];
            struct R {
                text: String,
                expected: Vec<Vec<u8>>,
            }
            match h.as_ref().and_then(|h| l1_tail(h, t)).map(|(text, expected)| R { text, expected }) {
                None => {
                    inadm += 1;
                }
                Some(r) => {
                    if per_case_wd {
                        sh.wd.enter(|| json!({"part": "layout", "text": r.text, "expected_hex": r.expected.iter().map(|e| hex(e)).collect::<Vec<_>>()}));
                    }
                    l.evals += 1;
                    if c[4] == 0 && c[6] == 0 && c[7] == 0 {
                        l.nontrivial.push(fnv(r.text.as_bytes()));
                    }
                    if let Some((class, what)) = layout_verdict(&r.text, &r.expected) {
                        lc.failing.fetch_add(1, AO::Relaxed);
                        l.bump(&format!("layout.L1.failing.{class}"));
                        l1_report(sh, owner_i, kind, &c, &class, &what);
                    }
                    if per_case_wd {
                        sh.wd.leave();
                    }
                }
            }
        });
        if !per_case_wd {
            sh.wd.leave();
        }
        lc.inadmissible.fetch_add(inadm, AO::Relaxed);
        lc.renderings.fetch_add(l.evals, AO::Relaxed);
        l.counts.insert(format!("layout.L1.renderings.kind.{}", kind.name()), l.evals);
        sh.absorb(l);
    });
}

fn l2_logical(n: usize, kinds: &[Kind]) -> Vec<Vec<LRec>> {
    let mut recs = Vec::new();
    for owner in 0..3 {
        for ttl in [60u32, 3600] {
            for &kind in kinds {
                recs.push(LRec { owner, ttl, kind });
            }
        }
    }
    let mut files = Vec::new();
    product(&vec![recs.len(); n], |ix| files.push(ix.iter().map(|&i| recs[i]).collect()));
    files
}

fn run_l2(sh: &Shared, lc: &LayoutCounters, n: usize, kinds: &[Kind], per_case_wd: bool, only: Option<usize>) {
    let files = l2_logical(n, kinds);
    let label = format!("layout.L2.n{n}");
    sh.stats.count_n(&format!("{label}.logical-files"), files.len() as u64);
    // 3-record files: two styles, no $ORIGIN change (bounded menu, stated in coverage)
    let sizes: [usize; 5] = if n >= 3 { [3, 1, 3, 5, 2] } else { L2_SIZES };
    let mut menu: Vec<[usize; 5]> = Vec::new();
    product(&sizes, |c| menu.push([c[0], c[1], c[2], c[3], if n >= 3 { [0, 2][c[4]] } else { c[4] }]));
    let idx: Vec<usize> = (0..files.len()).filter(|i| only.map_or(true, |o| o == *i)).collect();
    idx.par_iter().for_each(|&fi| {
        let file = &files[fi];
        if !per_case_wd {
            sh.wd.enter(|| json!({"part": "layout-chunk", "space": "L2", "n": n, "kinds": kinds.iter().map(|k| k.name()).collect::<Vec<_>>(), "file": fi}));
        }
        let mut l = Local::default();
        let mut admissible = 0u64;
        let mut pruned = 0u64;
        // API setups (files of <= 2 records, all records in plain style)
        let plain_menu: Vec<[usize; 5]> = menu.iter().copied().filter(|c| c[4] == 0).collect();
        for setup in 0..(if n <= 2 { 3 } else { 1 }) {
        let menu: &Vec<[usize; 5]> = if setup == 0 { &menu } else { &plain_menu };
        // depth-first over records, pruning on the reference interpreter;
        // the text is built incrementally (one chunk per record)
        let expected: Vec<Vec<u8>> = file.iter().map(|r| rec_wire(&owner_labels(r.owner), r.kind.rtype(), 1, r.ttl, &rdata_wire(r.kind))).collect();
        #[allow(clippy::too_many_arguments)]
        fn rec(
            i: usize,
            file: &[LRec],
            menu: &[[usize; 5]],
            st: &RefState,
            origin: &Labels,
            ch: &mut Vec<[usize; 5]>,
            text: &mut String,
            pruned: &mut u64,
            leaf: &mut dyn FnMut(&[[usize; 5]], &str),
        ) {
            if i == file.len() {
                leaf(ch, text);
                return;
            }
            for c in menu {
                let mut st2 = st.clone();
                let mut o2 = origin.clone();
                if l2_step(&mut st2, &mut o2, &file[i], i, c) {
                    match l2_chunk(&file[i], c, &o2) {
                        Some(chunk) => {
                            let keep = text.len();
                            text.push_str(&chunk);
                            ch.push(*c);
                            rec(i + 1, file, menu, &st2, &o2, ch, text, pruned, leaf);
                            ch.pop();
                            text.truncate(keep);
                        }
                        None => *pruned += 1,
                    }
                } else {
                    *pruned += 1;
                }
            }
        }
        let mut leaf = |ch: &[[usize; 5]], text: &str| {
            if per_case_wd {
                sh.wd.enter(|| json!({"part": "layout", "text": text, "setup": setup, "expected_hex": expected.iter().map(|e| hex(e)).collect::<Vec<_>>()}));
            }
            admissible += 1;
            l.evals += 1;
            if n <= 2 && ch.iter().all(|c| c[4] == 0) {
                l.nontrivial.push(fnv(text.as_bytes()));
            }
            if setup != 0 {
                l.bump(&format!("{label}.renderings.setup={}", SETUP_NAMES[setup]));
            }
            if let Some((class, what)) = layout_verdict_setup(text, &expected, setup) {
                lc.failing.fetch_add(1, AO::Relaxed);
                l.bump(&format!("{label}.failing.{class}"));
                l2_report(sh, file, ch, setup, &class, &what);
            }
            if per_case_wd {
                sh.wd.leave();
            }
        };
        let (st0, mut text) = l2_start(setup);
        rec(0, file, menu, &st0, &vec!["z"], &mut Vec::new(), &mut text, &mut pruned, &mut leaf);
        }
        lc.renderings.fetch_add(admissible, AO::Relaxed);
        lc.inadmissible.fetch_add(pruned, AO::Relaxed);
        l.counts.insert(format!("{label}.renderings"), admissible);
        if !per_case_wd {
            sh.wd.leave();
        }
        sh.absorb(l);
    });
}

// ---------------- space P: parenthesised groups (nesting / grouping) -----
//
// RFC 1035 section 5.1: "Parentheses are used to group data that crosses a
// line boundary.  In effect, line terminations are not recognized within
// parentheses."  Nothing else is said about them: they carry no data, they
// may open and close at any token boundary of an entry, there may be several
// of them one after the other and one within the other, and a parenthesis
// inside a quoted string, after a backslash or inside a comment is not a
// parenthesis.  Hence, for one logical record (token list t0..tn-1):
//
// * structure: every family of <= 3 groups (i, j) = "`(` before token i, `)`
//   before token j" (i == j: an empty group), any two of them disjoint or
//   nested (depth <= 3), from the first token boundary after the owner field
//   (after the leading blank when the owner is inherited, i.e. also before
//   the class / TTL / type tokens) to the boundary after the last token;
// * filling: all on one line; no white space next to any parenthesis; every
//   position inside a group (depth >= 1) -- including the positions between
//   an inner `)` and the outer `)` -- filled with one of 7 line-crossing
//   fillers, one position at a time and all positions at once.
//
// Oracle: the reader returns exactly the logical records (context record,
// the record, sentinel).
//
// Damage part: one `(` or one `)` too many at every position of every such
// structure (<= 2 groups), on one line and with line feeds inside the
// groups.  The expectation is written from the text above by counting depth
// in the harness: a `)` at depth 0 and an end of file at depth > 0 are not
// part of the format, so the reader must end with an error (position inside
// the input, no panic, no hang), and must not return more entries than there
// are complete logical lines before the damage; in particular, when the
// damage is on the first logical line of the entry, nothing of the damaged
// entry and nothing after it is returned.

#[derive(Clone, Copy, PartialEq, Eq, Debug)]
enum PItem {
    Open,
    Close,
    Tok(usize),
}

const P_FILL: [&str; 8] = [" ", "\n", " ;c\n", "\n\n", "\n ; ) ( \"\n\t", "\r\n", ";c\n", "\t\n "];
const P_FILL_NAMES: [&str; 8] = ["space", "lf", "comment-lf", "blank-line", "comment-line-with-parens-and-quote", "crlf", "attached-comment-lf", "tab-lf-space"];

/// (kind, data forms used)
const P_KINDS: [(Kind, &[usize]); 11] = [
    (Kind::A, &[0]),
    (Kind::Txt, &[0, 4]),
    (Kind::TxtP, &[0, 1, 2]),
    (Kind::Soa, &[0]),
    (Kind::Mx, &[0]),
    (Kind::Unk, &[1]),
    (Kind::Incl, &[0, 1]),
    (Kind::Nsec, &[0]),
    (Kind::Nsec3, &[0]),
    (Kind::Svcb, &[0, 1]),
    (Kind::MxO, &[1]),
];
/// (owner form index into OWNER_FORMS, class/TTL form): inherited owner with
/// class and TTL (groups may open before the class, the TTL and the type),
/// relative owner with TTL and class, relative owner with neither.
const P_HEADS: [(usize, usize); 3] = [(4, 0), (1, 1), (1, 4)];

/// A concrete rendering of the record under test: items and the separators
/// between them (`seps[k]` stands between `items[k]` and `items[k + 1]`).
#[derive(Clone, PartialEq, Eq, Debug)]
struct PCase {
    items: Vec<PItem>,
    seps: Vec<&'static str>,
}

fn p_is_paren(i: PItem) -> bool {
    !matches!(i, PItem::Tok(_))
}

fn p_laminar(groups: &[(usize, usize)]) -> bool {
    for x in 0..groups.len() {
        for y in x + 1..groups.len() {
            let ((a, b), (c, d)) = (groups[x], groups[y]);
            // sorted: a <= c; crossing iff a < c < b < d
            if a < c && c < b && b < d {
                return false;
            }
        }
    }
    true
}

/// Items of tokens 0..n with the given (sorted, laminar) groups.  At one
/// token boundary: closing parentheses first, then empty groups, then
/// opening parentheses.
fn p_items(n: usize, groups: &[(usize, usize)]) -> Vec<PItem> {
    let mut v = Vec::new();
    for g in 0..=n {
        for &(i, j) in groups {
            if j == g && i < g {
                v.push(PItem::Close);
            }
        }
        for &(i, j) in groups {
            if i == g && j == g {
                v.push(PItem::Open);
                v.push(PItem::Close);
            }
        }
        for &(i, j) in groups {
            if i == g && j > g {
                v.push(PItem::Open);
            }
        }
        if g < n {
            v.push(PItem::Tok(g));
        }
    }
    v
}

/// Depth after each item; None when a `)` comes at depth 0.
fn p_depths(items: &[PItem]) -> Option<Vec<usize>> {
    let mut d = 0usize;
    let mut v = Vec::with_capacity(items.len());
    for it in items {
        match it {
            PItem::Open => d += 1,
            PItem::Close => d = d.checked_sub(1)?,
            PItem::Tok(_) => {}
        }
        v.push(d);
    }
    Some(v)
}

/// A rendering of a well-formed entry: balanced, tokens separated, no line
/// feed outside of a group.
fn p_valid(c: &PCase) -> bool {
    let Some(d) = p_depths(&c.items) else { return false };
    if d.last().copied().unwrap_or(0) != 0 || c.seps.len() + 1 != c.items.len() {
        return false;
    }
    for (k, s) in c.seps.iter().enumerate() {
        if s.contains('\n') && d[k] == 0 {
            return false;
        }
        if s.is_empty() && !p_is_paren(c.items[k]) && !p_is_paren(c.items[k + 1]) {
            return false;
        }
    }
    true
}

#[derive(Clone, Copy, PartialEq, Eq, Debug)]
enum PMode {
    Flat,
    Tight,
    All(usize),
    One(usize, usize),
    Two(usize, usize, usize, usize),
}

fn p_seps(items: &[PItem], depths: &[usize], mode: PMode) -> Vec<&'static str> {
    (0..items.len().saturating_sub(1))
        .map(|k| {
            let inside = depths[k] >= 1;
            match mode {
                PMode::Flat => " ",
                PMode::Tight => {
                    if p_is_paren(items[k]) || p_is_paren(items[k + 1]) {
                        ""
                    } else {
                        " "
                    }
                }
                PMode::All(f) => {
                    if inside {
                        P_FILL[f]
                    } else {
                        " "
                    }
                }
                PMode::One(p, f) => {
                    if k == p {
                        P_FILL[f]
                    } else {
                        " "
                    }
                }
                PMode::Two(p, f, q, g) => {
                    if k == p {
                        P_FILL[f]
                    } else if k == q {
                        P_FILL[g]
                    } else {
                        " "
                    }
                }
            }
        })
        .collect()
}

fn p_line(h: &L1Head, c: &PCase) -> String {
    let mut s = h.indent.clone();
    for (k, it) in c.items.iter().enumerate() {
        match it {
            PItem::Open => s.push('('),
            PItem::Close => s.push(')'),
            PItem::Tok(i) => s.push_str(&h.toks[*i]),
        }
        if k < c.seps.len() {
            s.push_str(c.seps[k]);
        }
    }
    s
}

const P_SENTINEL: &str = "s IN 60 A 192.0.2.7\n";

fn p_text(h: &L1Head, c: &PCase) -> String {
    format!("{}{}\n{}", h.text, p_line(h, c), P_SENTINEL)
}

fn p_expected(h: &L1Head) -> Vec<Vec<u8>> {
    let mut e = h.expected.clone();
    e.push(rec_wire(&["s", "z"], 1, 1, 60, &[192, 0, 2, 7]));
    e
}

fn p_head(ki: usize, form: usize, hi: usize) -> Option<L1Head> {
    let kind = P_KINDS[ki].0;
    let (of, ct) = if kind == Kind::Incl { (0, 0) } else { P_HEADS[hi] };
    if kind == Kind::Incl && hi != 0 {
        return None;
    }
    l1_head(1, kind, &[0, of, ct, form])
}

/// First token boundary at which a parenthesis may stand: after the owner
/// (a directive name) when the line starts with one, else after the blank.
fn p_first_gap(h: &L1Head) -> usize {
    if h.roles[0] == "owner" || h.toks[0].starts_with('$') {
        1
    } else {
        0
    }
}

fn p_intervals(h: &L1Head) -> Vec<(usize, usize)> {
    let n = h.toks.len();
    let mut v = Vec::new();
    for i in p_first_gap(h)..=n {
        for j in i..=n {
            v.push((i, j));
        }
    }
    v
}

/// Remove item `x`, merging the separators around it.
fn p_remove_item(c: &mut PCase, x: usize) {
    let n = c.items.len();
    if n == 1 {
        c.items.clear();
        return;
    }
    if x == 0 {
        c.seps.remove(0);
    } else if x == n - 1 {
        c.seps.remove(x - 1);
    } else {
        let (l, r) = (c.seps[x - 1], c.seps[x]);
        let special = |s: &str| s.contains('\n') || s.contains(';');
        let m = if special(l) {
            l
        } else if special(r) {
            r
        } else {
            " "
        };
        c.seps[x - 1] = m;
        c.seps.remove(x);
    }
    c.items.remove(x);
}

fn p_match_close(items: &[PItem], open: usize) -> Option<usize> {
    let mut d = 0usize;
    for (k, it) in items.iter().enumerate().skip(open) {
        match it {
            PItem::Open => d += 1,
            PItem::Close => {
                d -= 1;
                if d == 0 {
                    return Some(k);
                }
            }
            _ => {}
        }
    }
    None
}

/// Outcome class without the reader's wording of a rejection.
fn p_class(class: &str) -> String {
    if class.starts_with("rejected:") {
        "rejected".into()
    } else {
        class.to_string()
    }
}

/// Greedy reduction of a failing rendering: drop whole groups, then turn
/// fillers into a plain space / a plain line feed, as long as the rendering
/// stays well formed and the outcome class stays the same.
fn p_minimise(h: &L1Head, expected: &[Vec<u8>], case: &PCase, class: &str) -> PCase {
    let same = |c: &PCase| p_valid(c) && layout_verdict(&p_text(h, c), expected).map(|v| p_class(&v.0)).as_deref() == Some(class);
    let mut cur = case.clone();
    loop {
        let mut changed = false;
        let mut x = 0;
        while x < cur.items.len() {
            if cur.items[x] == PItem::Open {
                if let Some(y) = p_match_close(&cur.items, x) {
                    let mut t = cur.clone();
                    p_remove_item(&mut t, y);
                    p_remove_item(&mut t, x);
                    if same(&t) {
                        cur = t;
                        changed = true;
                        continue;
                    }
                }
            }
            x += 1;
        }
        for k in 0..cur.seps.len() {
            for simpler in [" ", "\n"] {
                if cur.seps[k] == simpler || cur.seps[k] == " " || (simpler == "\n" && !cur.seps[k].contains('\n')) {
                    continue;
                }
                let mut t = cur.clone();
                t.seps[k] = simpler;
                if same(&t) {
                    cur = t;
                    changed = true;
                    break;
                }
            }
        }
        if !changed {
            return cur;
        }
    }
}

/// Parentheses and non-space separators of a rendering, tokens left out
/// (`~` = no white space at this side of a parenthesis).
fn p_skeleton(c: &PCase) -> String {
    let mut s = String::new();
    for (k, it) in c.items.iter().enumerate() {
        match it {
            PItem::Open => s.push('('),
            PItem::Close => s.push(')'),
            PItem::Tok(_) => {}
        }
        if let Some(sep) = c.seps.get(k) {
            if sep.is_empty() {
                s.push('~');
            } else if *sep != " " {
                let name = P_FILL.iter().position(|f| f == sep).map(|i| P_FILL_NAMES[i]).unwrap_or("?");
                s.push_str(&format!("<{name}>"));
            }
        }
    }
    s
}

fn p_role_before(h: &L1Head, c: &PCase, x: usize) -> &'static str {
    c.items[..x]
        .iter()
        .rev()
        .find_map(|it| match it {
            PItem::Tok(i) => Some(h.roles[*i]),
            _ => None,
        })
        .unwrap_or("line-start")
}

fn p_report(sh: &Shared, h: &L1Head, expected: &[Vec<u8>], ki: usize, form: usize, hi: usize, case: &PCase, class: &str, what: &str) {
    let min = p_minimise(h, expected, case, class);
    let mut shape = p_skeleton(&min);
    let opens: Vec<usize> = (0..min.items.len()).filter(|&x| min.items[x] == PItem::Open).collect();
    if opens.len() == 1 {
        let y = p_match_close(&min.items, opens[0]).unwrap_or(opens[0]);
        shape.push_str(&format!(",open-after={},close-after={}", p_role_before(h, &min, opens[0]), p_role_before(h, &min, y)));
    }
    let kind = P_KINDS[ki].0;
    let sig = format!("C07|layout|P|kind={}|groups={shape}|{class}", kind.name());
    if !first_in_thread(&sig) {
        return;
    }
    let text = p_text(h, case);
    let min_text = p_text(h, &min);
    sh.ctx.violation(
        &sig,
        &format!("{what}; minimal rendering {min_text:?}"),
        json!({"part": "layout", "text": text, "expected_hex": expected.iter().map(|e| hex(e)).collect::<Vec<_>>(),
               "minimal_text": min_text, "space": "P", "kind": kind.name(), "kind_index": ki, "form": form, "head": hi}),
    );
}

/// All groupings of <= `kmax` groups whose smallest group is `iv[a]`
/// (`a == None`: the rendering without groups).
fn p_structures(iv: &[(usize, usize)], a: Option<usize>, kmax: usize, mut f: impl FnMut(&[(usize, usize)])) {
    let Some(a) = a else {
        f(&[]);
        return;
    };
    if kmax >= 1 {
        f(&[iv[a]]);
    }
    if kmax >= 2 {
        for b in a..iv.len() {
            let g2 = [iv[a], iv[b]];
            if !p_laminar(&g2) {
                continue;
            }
            f(&g2);
            if kmax >= 3 {
                for c in b..iv.len() {
                    let g3 = [iv[a], iv[b], iv[c]];
                    if p_laminar(&g3) {
                        f(&g3);
                    }
                }
            }
        }
    }
}

struct PCounts {
    evals: AtomicU64,
    failing: AtomicU64,
    damage: AtomicU64,
    damage_failing: AtomicU64,
}

/// The depth count of the damaged line, done on the items: what a `(` or a
/// `)` too many means according to RFC 1035 5.1.
struct PDamage {
    /// complete logical lines (line feeds at depth 0) before the damage
    lines_before: usize,
    cause: &'static str,
}

fn p_damage_meaning(c: &PCase) -> PDamage {
    let mut d = 0usize;
    let mut lines = 0usize;
    for (k, it) in c.items.iter().enumerate() {
        match it {
            PItem::Open => d += 1,
            PItem::Close => {
                if d == 0 {
                    return PDamage { lines_before: lines, cause: if lines == 0 { "close-at-depth-0-on-first-logical-line" } else { "close-at-depth-0-after-a-logical-line-end" } };
                }
                d -= 1;
            }
            PItem::Tok(_) => {}
        }
        if d == 0 && c.seps.get(k).map_or(false, |s| s.contains('\n')) {
            lines += 1;
        }
    }
    // the line feed that ends the line and everything after it is inside a group
    PDamage { lines_before: lines, cause: if lines == 0 { "end-of-file-inside-a-group-opened-on-first-logical-line" } else { "end-of-file-inside-a-group-opened-after-a-logical-line-end" } }
}

/// `before`: entries of the logical file before the damaged one.
fn p_damage_verdict(text: &str, expected: &[Vec<u8>], before: usize, lines_before: usize) -> Option<(String, String)> {
    let ex = examine(text.as_bytes(), true);
    if let Some((class, what)) = ex.viol {
        return Some((format!("totality:{class}"), what));
    }
    let a = ex.a?;
    if !matches!(a.end, End::Err(_)) {
        return Some((
            "no-error".into(),
            format!("the reader reached the end of the file without an error and returned {} entries (the well-formed file has {})", a.entries.len(), expected.len()),
        ));
    }
    if a.entries.len() > before + lines_before {
        return Some((
            "entries-beyond-damage".into(),
            format!("{} entries returned before the error, but only {} logical line(s) end before the damage", a.entries.len(), before + lines_before),
        ));
    }
    if a.entries.iter().zip(expected).take(before).any(|(g, e)| g != e) {
        return Some(("entries-before-damage-differ".into(), "an entry before the damaged one differs from the logical file".into()));
    }
    None
}

fn p_damage_case(sh: &Shared, h: &L1Head, expected: &[Vec<u8>], ki: usize, form: usize, hi: usize, c: &PCase, extra: PItem, pc: &PCounts, l: &mut Local) {
    let text = p_text(h, c);
    let m = p_damage_meaning(c);
    l.evals += 1;
    pc.damage.fetch_add(1, AO::Relaxed);
    l.bump(&format!("layout.P.damage.{}", m.cause));
    // entries before the damaged one: h.expected.len() - 1
    let viol = p_damage_verdict(&text, expected, h.expected.len() - 1, m.lines_before);
    if let Some((class, what)) = viol {
        pc.damage_failing.fetch_add(1, AO::Relaxed);
        l.bump(&format!("layout.P.damage.failing.{class}"));
        let sig = format!("C07|layout|P-damage|extra={}|{}|{}", if extra == PItem::Open { "open" } else { "close" }, m.cause, digits_to_hash(&class));
        if first_in_thread(&sig) {
            sh.ctx.violation(
                &sig,
                &format!("{what}; input {text:?}"),
                json!({"part": "paren-damage", "text": text, "kind": P_KINDS[ki].0.name(), "kind_index": ki, "form": form, "head": hi,
                       "lines_before": m.lines_before, "entries_before": h.expected.len() - 1, "cause": m.cause, "extra": if extra == PItem::Open { "open" } else { "close" },
                       "expected_hex": expected.iter().map(|e| hex(e)).collect::<Vec<_>>()}),
            );
        }
    }
}

fn run_p(sh: &Shared, lc: &LayoutCounters, pc: &PCounts, quick: bool, per_case_wd: bool, only: Option<(usize, usize, usize, Option<usize>)>) {
    // work items: kind x data form x head x smallest group
    let mut work: Vec<(usize, usize, usize, Option<usize>)> = Vec::new();
    for (ki, (_, forms)) in P_KINDS.iter().enumerate() {
        for &form in forms.iter() {
            for hi in 0..P_HEADS.len() {
                if let Some(h) = p_head(ki, form, hi) {
                    work.push((ki, form, hi, None));
                    for a in 0..p_intervals(&h).len() {
                        work.push((ki, form, hi, Some(a)));
                    }
                }
            }
        }
    }
    if let Some(o) = only {
        work.retain(|w| *w == o);
    }
    work.par_iter().for_each(|&(ki, form, hi, a)| {
        let Some(h) = p_head(ki, form, hi) else { return };
        let kind = P_KINDS[ki].0;
        let expected = p_expected(&h);
        let iv = p_intervals(&h);
        let n = h.toks.len();
        let gaps = n + 1 - p_first_gap(&h);
        if !per_case_wd {
            sh.wd.enter(|| json!({"part": "layout-chunk", "space": "P", "kind_index": ki, "form": form, "head": hi, "first_group": a}));
        }
        let mut l = Local::default();
        let mut n_relation = 0u64;
        // three groups: everywhere in the thorough tier, in the quick tier for
        // entries with at most 8 token boundaries (longer ones: two groups)
        let kmax = if !quick || gaps <= 8 { 3 } else { 2 };
        p_structures(&iv, a, kmax, |groups| {
            let items = p_items(n, groups);
            let depths = p_depths(&items).expect("laminar groups are balanced");
            let maxd = depths.iter().copied().max().unwrap_or(0);
            l.bump(&format!("layout.P.structures.groups{}.depth{maxd}", groups.len()));
            let inside: Vec<usize> = (0..items.len().saturating_sub(1)).filter(|&k| depths[k] >= 1).collect();
            let mut modes = vec![PMode::Flat];
            if !groups.is_empty() {
                modes.push(PMode::Tight);
                for f in 1..P_FILL.len() {
                    modes.push(PMode::All(f));
                }
                // one position at a time: every filler for <= 2 groups, the
                // plain line feed for three groups (quick tier)
                let fmax = if groups.len() <= 2 || !quick { P_FILL.len() } else { 2 };
                for &p in &inside {
                    for f in 1..fmax {
                        modes.push(PMode::One(p, f));
                    }
                }
                if !quick && groups.len() <= 2 {
                    for (pi, &p) in inside.iter().enumerate() {
                        for &q in &inside[pi + 1..] {
                            for f in [1, 2] {
                                for g in [1, 2] {
                                    modes.push(PMode::Two(p, f, q, g));
                                }
                            }
                        }
                    }
                }
            }
            for mode in modes {
                let case = PCase { items: items.clone(), seps: p_seps(&items, &depths, mode) };
                assert!(p_valid(&case), "space P generated an ill-formed rendering");
                let text = p_text(&h, &case);
                if per_case_wd {
                    sh.wd.enter(|| json!({"part": "layout", "text": text, "expected_hex": expected.iter().map(|e| hex(e)).collect::<Vec<_>>()}));
                }
                l.evals += 1;
                n_relation += 1;
                if mode == PMode::Flat {
                    l.nontrivial.push(fnv(text.as_bytes()));
                }
                if let Some((class, what)) = layout_verdict(&text, &expected) {
                    pc.failing.fetch_add(1, AO::Relaxed);
                    lc.failing.fetch_add(1, AO::Relaxed);
                    l.bump(&format!("layout.P.failing.{class}"));
                    p_report(sh, &h, &expected, ki, form, hi, &case, &p_class(&class), &what);
                }
                if per_case_wd {
                    sh.wd.leave();
                }
            }
            // damage: one parenthesis too many at every position
            if groups.len() <= 2 && (groups.len() <= 1 || !quick || gaps <= 8) {
                let lo = items.iter().position(|it| *it == PItem::Tok(p_first_gap(&h))).unwrap_or(items.len()).min(items.iter().position(|it| p_is_paren(*it)).unwrap_or(items.len()));
                for fill in [PMode::Flat, PMode::All(1)] {
                    if fill != PMode::Flat && groups.is_empty() {
                        continue;
                    }
                    let seps = p_seps(&items, &depths, fill);
                    for q in lo..=items.len() {
                        for extra in [PItem::Open, PItem::Close] {
                            // which neighbour keeps the original separator
                            for side in 0..2 {
                                let mut c = PCase { items: items.clone(), seps: seps.clone() };
                                c.items.insert(q, extra);
                                if q == 0 {
                                    c.seps.insert(0, " ");
                                } else if q == items.len() {
                                    c.seps.push(" ");
                                } else if side == 0 {
                                    // original separator stays before the extra parenthesis
                                    c.seps.insert(q, " ");
                                } else {
                                    c.seps.insert(q - 1, " ");
                                }
                                if side == 1 && (q == 0 || q == items.len() || seps[q - 1] == " ") {
                                    continue; // same text as side 0
                                }
                                if per_case_wd {
                                    sh.wd.enter(|| json!({"part": "paren-damage", "text": p_text(&h, &c)}));
                                }
                                p_damage_case(sh, &h, &expected, ki, form, hi, &c, extra, pc, &mut l);
                                if per_case_wd {
                                    sh.wd.leave();
                                }
                            }
                        }
                    }
                }
            }
        });
        pc.evals.fetch_add(n_relation, AO::Relaxed);
        lc.renderings.fetch_add(n_relation, AO::Relaxed);
        l.counts.insert(format!("layout.P.renderings.kind.{}", kind.name()), n_relation);
        if !per_case_wd {
            sh.wd.leave();
        }
        sh.absorb(l);
    });
}

// ---------------- space L3: limits x spelling --------------------------
//
// For every length / value limit the reader enforces (label 63, name 255
// wire octets, character string 255, u32 / u16 / u8 integers) the value
// just inside and just outside the limit, in every spelling of the octets
// (plain, one \DDD escape at every position, one \X escape at every
// position, one escaped special octet at every position, all octets \DDD,
// quoted where the grammar has quotes), in owner position and in every
// RDATA / directive field of that syntactic kind.  Reference: the entry is
// accepted iff the *decoded* value is within the limit, and then the record
// has exactly the decoded octets; otherwise the reader has to return an
// error (any) without returning the entry.

#[derive(Clone, Copy, PartialEq, Eq, Debug)]
enum Esc {
    Plain,
    Dec(usize),
    Simple(usize),
    Special(usize),
    AllDec,
}

impl Esc {
    fn class(self, n: usize) -> String {
        let pos = |i: usize| if i == 0 { "first" } else if i + 1 == n { "last" } else { "inner" };
        match self {
            Esc::Plain => "plain".into(),
            Esc::Dec(i) => format!("decimal-escape-{}", pos(i)),
            Esc::Simple(i) => format!("simple-escape-{}", pos(i)),
            Esc::Special(i) => format!("escaped-special-{}", pos(i)),
            Esc::AllDec => "all-decimal-escapes".into(),
        }
    }
}

fn all_escs(n: usize) -> Vec<Esc> {
    let mut v = vec![Esc::Plain];
    if n > 0 {
        v.push(Esc::AllDec);
    }
    for i in 0..n {
        v.push(Esc::Dec(i));
        v.push(Esc::Simple(i));
        v.push(Esc::Special(i));
    }
    v
}

/// `n` octets a,b,c,... with the requested escape; `special` is the octet
/// and its spelling used for Esc::Special.  Returns (decoded, text).
fn spell(n: usize, esc: Esc, special: (u8, &str)) -> (Vec<u8>, String) {
    let mut oct = Vec::with_capacity(n);
    let mut text = String::new();
    for j in 0..n {
        let c = b'a' + (j % 26) as u8;
        match esc {
            Esc::Dec(i) if i == j => {
                oct.push(c);
                text.push_str(&format!("\\{c:03}"));
            }
            Esc::Simple(i) if i == j => {
                oct.push(c);
                text.push('\\');
                text.push(c as char);
            }
            Esc::Special(i) if i == j => {
                oct.push(special.0);
                text.push_str(special.1);
            }
            Esc::AllDec => {
                oct.push(c);
                text.push_str(&format!("\\{c:03}"));
            }
            _ => {
                oct.push(c);
                text.push(c as char);
            }
        }
    }
    (oct, text)
}

fn wire_of(labels: &[Vec<u8>]) -> Vec<u8> {
    let mut v = Vec::new();
    for l in labels {
        v.push(l.len() as u8);
        v.extend_from_slice(l);
    }
    v.push(0);
    v
}

fn name_within_limits(labels: &[Vec<u8>]) -> bool {
    labels.iter().all(|l| !l.is_empty() && l.len() <= 63) && wire_of(labels).len() <= 255
}

fn raw_rec(owner: &[Vec<u8>], rtype: u16, ttl: u32, rdata: &[u8]) -> Vec<u8> {
    let mut v = vec![b'R'];
    v.extend(wire_of(owner));
    v.extend_from_slice(&rtype.to_be_bytes());
    v.extend_from_slice(&1u16.to_be_bytes());
    v.extend_from_slice(&ttl.to_be_bytes());
    v.extend_from_slice(&(rdata.len() as u16).to_be_bytes());
    v.extend_from_slice(rdata);
    v
}

struct LimitCase {
    text: String,
    /// Some(entries) = must be accepted with exactly these; None = must be rejected
    expected: Option<Vec<Vec<u8>>>,
    /// entries in front of the tested entry (returned also when it is rejected)
    before: Vec<Vec<u8>>,
    /// which limit ("label", "name", "charstr", "integer-u16", ...)
    family: String,
    /// where relative to the limit ("len=64", "wire-len=256", "max+1..9", ...)
    boundary: String,
    /// spelling kind without position ("plain", "decimal-escape", ...)
    kind: String,
    field: String,
    /// full description of the case (positions etc.), for messages only
    detail: String,
}

fn kind_of(spelling: &str) -> String {
    for suffix in ["-first", "-inner", "-last"] {
        if let Some(k) = spelling.strip_suffix(suffix) {
            return k.to_string();
        }
    }
    spelling.to_string()
}

const SENTINEL: &str = "s.z. IN 60 A 192.0.2.7\n";

fn sentinel_entry() -> Vec<u8> {
    raw_rec(&[b"s".to_vec(), b"z".to_vec()], 1, 60, &[192, 0, 2, 7])
}

const NAME_FIELDS: [&str; 6] = ["owner", "mx-exchange", "soa-mname", "soa-rname", "origin-directive", "include-origin"];

/// A file testing `name_text` (decoding to absolute `labels`) in `field`.
fn name_case(field: &str, name_text: &str, labels: &[Vec<u8>], ok: bool, family: &str, boundary: String, spelling: &str, detail: String) -> LimitCase {
    let z = vec![b"z".to_vec()];
    let a = [1u8, 2, 3, 4];
    let (line, entry) = match field {
        "owner" => (format!("{name_text} IN 60 A 1.2.3.4\n"), raw_rec(labels, 1, 60, &a)),
        "mx-exchange" => {
            let mut rd = vec![0, 10];
            rd.extend(wire_of(labels));
            (format!("z. IN 60 MX 10 {name_text}\n"), raw_rec(&z, 15, 60, &rd))
        }
        "soa-mname" | "soa-rname" => {
            let other = vec![b"h".to_vec(), b"z".to_vec()];
            let (m, r) = if field == "soa-mname" { (labels.to_vec(), other) } else { (other, labels.to_vec()) };
            let mut rd = wire_of(&m);
            rd.extend(wire_of(&r));
            for n in [1u32, 60, 60, 60, 60] {
                rd.extend_from_slice(&n.to_be_bytes());
            }
            let line = if field == "soa-mname" {
                format!("z. IN 60 SOA {name_text} h.z. 1 60 60 60 60\n")
            } else {
                format!("z. IN 60 SOA h.z. {name_text} 1 60 60 60 60\n")
            };
            (line, raw_rec(&z, 6, 60, &rd))
        }
        "origin-directive" => (format!("$ORIGIN {name_text}\n@ IN 60 A 1.2.3.4\n"), raw_rec(labels, 1, 60, &a)),
        _ => {
            let mut e = vec![b'I', b'f', 0, 1];
            e.extend(wire_of(labels));
            (format!("$INCLUDE f {name_text}\n"), e)
        }
    };
    LimitCase {
        text: format!("$ORIGIN z.\n{line}{SENTINEL}"),
        expected: ok.then(|| vec![entry, sentinel_entry()]),
        before: Vec::new(),
        family: family.to_string(),
        boundary,
        kind: kind_of(spelling),
        field: field.to_string(),
        detail: format!("{spelling}, {detail}"),
    }
}

fn limit_cases() -> Vec<LimitCase> {
    let mut out = Vec::new();
    let z = vec![b"z".to_vec()];

    // ---- F1: label length 63 / 64 -----------------------------------
    for n in [1usize, 62, 63, 64, 65] {
        for esc in all_escs(n) {
            let (oct, txt) = spell(n, esc, (b'.', "\\."));
            for lpos in ["alone", "first", "middle", "last"] {
                let (mut labels, text): (Vec<Vec<u8>>, String) = match lpos {
                    "alone" => (vec![oct.clone()], txt.clone()),
                    "first" => (vec![oct.clone(), b"c".to_vec()], format!("{txt}.c")),
                    "middle" => (vec![b"b".to_vec(), oct.clone(), b"c".to_vec()], format!("b.{txt}.c")),
                    _ => (vec![b"b".to_vec(), oct.clone()], format!("b.{txt}")),
                };
                for abs in [false, true] {
                    let mut l2 = labels.clone();
                    let t2 = if abs {
                        format!("{text}.")
                    } else {
                        l2.push(b"z".to_vec());
                        text.clone()
                    };
                    let ok = name_within_limits(&l2);
                    for field in NAME_FIELDS {
                        if field == "origin-directive" && !abs {
                            continue;
                        }
                        out.push(name_case(field, &t2, &l2, ok, "label", format!("len={n}"), &esc.class(n), format!("label {lpos} in a {} name", if abs { "absolute" } else { "relative" })));
                    }
                }
                labels.clear();
            }
        }
    }

    // ---- F2: name length 255 / 256 wire octets -------------------------
    for total in [254usize, 255, 256] {
        for abs in [false, true] {
            for shape in ["long-labels", "one-octet-labels"] {
                // label lengths of the part that is written out
                let tail = if abs { 1 } else { 3 }; // root, or z + root
                let lens: Vec<usize> = if shape == "long-labels" {
                    vec![63, 63, 63, total - tail - 3 * 64 - 1]
                } else {
                    let m = if abs { 125 } else { 124 };
                    let mut v = vec![1; m];
                    v.push(total - tail - 2 * m - 1);
                    v
                };
                let nl = lens.len();
                // (label index, octet index, kind) of the single escape; None = plain / all
                let mut variants: Vec<(Option<(usize, usize)>, u8)> = vec![(None, 0), (None, 9)];
                for li in [0, nl / 2, nl - 1] {
                    for oi in [0, lens[li] - 1] {
                        for k in [1u8, 2] {
                            variants.push((Some((li, oi)), k));
                        }
                    }
                }
                for (at, k) in variants {
                    let mut labels = Vec::new();
                    let mut parts = Vec::new();
                    for (li, &len) in lens.iter().enumerate() {
                        let esc = match (at, k) {
                            (None, 9) => Esc::AllDec,
                            (Some((l, o)), 1) if l == li => Esc::Dec(o),
                            (Some((l, o)), 2) if l == li => Esc::Simple(o),
                            _ => Esc::Plain,
                        };
                        let (o, t) = spell(len, esc, (b'.', "\\."));
                        labels.push(o);
                        parts.push(t);
                    }
                    let mut text = parts.join(".");
                    if abs {
                        text.push('.');
                    } else {
                        labels.push(b"z".to_vec());
                    }
                    let ok = name_within_limits(&labels);
                    let spelling = match (at, k) {
                        (None, 0) => "plain".to_string(),
                        (None, _) => "all-decimal-escapes".to_string(),
                        (Some((li, oi)), k) => format!(
                            "{}-escape-in-{}-label-{}",
                            if k == 1 { "decimal" } else { "simple" },
                            if li == 0 { "first" } else if li == nl - 1 { "last" } else { "middle" },
                            if oi == 0 { "first" } else { "last" }
                        ),
                    };
                    for field in ["owner", "mx-exchange", "origin-directive", "include-origin"] {
                        if field == "origin-directive" && !abs {
                            continue;
                        }
                        out.push(name_case(field, &text, &labels, ok, "name", format!("wire-len={total}"), &spelling, format!("{shape}, {}", if abs { "absolute" } else { "relative" })));
                    }
                }
            }
        }
    }

    // ---- F3: character string length 255 / 256 -------------------------
    for n in [0usize, 1, 254, 255, 256] {
        for quoted in [false, true] {
            if n == 0 && !quoted {
                continue;
            }
            let mut escs = all_escs(n);
            if quoted {
                // a second special inside quotes: the escaped double quote
                for i in 0..n {
                    escs.push(Esc::Special(i + 1000));
                }
            }
            for esc in escs {
                let (esc2, special): (Esc, (u8, &str)) = match (quoted, esc) {
                    (true, Esc::Special(i)) if i >= 1000 => (Esc::Special(i - 1000), (b'"', "\\\"")),
                    (true, _) => (esc, (b' ', " ")), // a literal space inside quotes
                    (false, _) => (esc, (b' ', "\\ ")),
                };
                let (oct, t) = spell(n, esc2, special);
                let tok = if quoted { format!("\"{t}\"") } else { t };
                let ok = oct.len() <= 255;
                let cs = |s: &[u8]| {
                    let mut v = vec![s.len() as u8];
                    v.extend_from_slice(s);
                    v
                };
                let spelling = format!(
                    "{}{}",
                    if quoted { "quoted-" } else { "" },
                    match esc {
                        Esc::Special(i) if i >= 1000 => format!("escaped-quote-{}", if i == 1000 { "first" } else if i + 1 == n + 1000 { "last" } else { "inner" }),
                        e => e.class(n),
                    }
                );
                for field in ["txt-only", "txt-first", "txt-second", "hinfo-cpu", "hinfo-os"] {
                    let (line, rtype, rd): (String, u16, Vec<u8>) = match field {
                        "txt-only" => (format!("z. IN 60 TXT {tok}\n"), 16, cs(&oct)),
                        "txt-first" => (format!("z. IN 60 TXT {tok} k\n"), 16, [cs(&oct), cs(b"k")].concat()),
                        "txt-second" => (format!("z. IN 60 TXT k {tok}\n"), 16, [cs(b"k"), cs(&oct)].concat()),
                        "hinfo-cpu" => (format!("z. IN 60 HINFO {tok} k\n"), 13, [cs(&oct), cs(b"k")].concat()),
                        _ => (format!("z. IN 60 HINFO k {tok}\n"), 13, [cs(b"k"), cs(&oct)].concat()),
                    };
                    out.push(LimitCase {
                        text: format!("$ORIGIN z.\n{line}{SENTINEL}"),
                        expected: ok.then(|| vec![raw_rec(&z, rtype, 60, &rd), sentinel_entry()]),
                        before: Vec::new(),
                        family: "charstr".into(),
                        boundary: format!("len={n}"),
                        kind: kind_of(&spelling),
                        field: field.to_string(),
                        detail: spelling.clone(),
                    });
                }
            }
        }
    }

    // ---- F4: integer maxima -----------------------------------------------
    // (field, max that must be accepted, values)
    let u32v: [u64; 8] = [0, 4294967294, 4294967295, 4294967296, 4294967305, 10000000000, 42949672950, 99999999999];
    // TTLs: RFC 2181 8 leaves values above 2^31-1 to the implementation; only
    // values <= 2^31-1 (must be accepted) and >= 2^32 (must be rejected) are used
    let ttlv: [u64; 7] = [0, 2147483646, 2147483647, 4294967296, 4294967305, 10000000000, 42949672950];
    let u16v: [u64; 7] = [0, 65534, 65535, 65536, 65545, 100000, 655350];
    let u8v: [u64; 7] = [0, 254, 255, 256, 265, 1000, 2550];
    let a = [1u8, 2, 3, 4];
    for lead in ["", "0", "000"] {
        let sp = if lead.is_empty() { "plain".to_string() } else { format!("leading-zeros-{}", lead.len()) };
        let soa = |i: usize, v: u64| -> (String, Vec<u8>) {
            let mut f: Vec<String> = ["1", "60", "60", "60", "60"].iter().map(|s| s.to_string()).collect();
            f[i] = format!("{lead}{v}");
            let mut rd = wire_of(&[b"ns".to_vec(), b"z".to_vec()]);
            rd.extend(wire_of(&[b"h".to_vec(), b"z".to_vec()]));
            for (j, n) in [1u64, 60, 60, 60, 60].iter().enumerate() {
                rd.extend_from_slice(&((if j == i { v } else { *n }) as u32).to_be_bytes());
            }
            (format!("z. IN 60 SOA ns.z. h.z. {}\n", f.join(" ")), rd)
        };
        // `ty`: how the field is read (u32 / u16 / u8 / Ttl / the TTL of a
        // record); `tmax`: the maximum of that type; `max`: the largest value
        // that has to be accepted
        let mut push = |field: &str, ty: &str, tmax: u64, v: u64, max: u64, line: String, entries: Vec<Vec<u8>>| {
            let mut exp = entries;
            let before = exp[..exp.len() - 1].to_vec();
            exp.push(sentinel_entry());
            let boundary = if v <= max {
                "within".to_string()
            } else if v <= tmax + 9 {
                "type-max+1..9".to_string()
            } else {
                "far-over".to_string()
            };
            out.push(LimitCase {
                text: format!("$ORIGIN z.\n{line}{SENTINEL}"),
                expected: (v <= max).then_some(exp),
                before,
                family: format!("integer-{ty}"),
                boundary,
                kind: if lead.is_empty() { "plain".into() } else { "leading-zeros".into() },
                field: field.to_string(),
                detail: format!("value {lead}{v}, {sp}"),
            });
        };
        for v in ttlv {
            let t = v as u32;
            push("ttl-after-class", "record-ttl", 4294967295, v, 2147483647, format!("z. IN {lead}{v} A 1.2.3.4\n"), vec![raw_rec(&z, 1, t, &a)]);
            push("ttl-before-class", "record-ttl", 4294967295, v, 2147483647, format!("z. {lead}{v} IN A 1.2.3.4\n"), vec![raw_rec(&z, 1, t, &a)]);
            push(
                "ttl-without-class",
                "record-ttl",
                4294967295,
                v,
                2147483647,
                format!("z. IN 60 A 192.0.2.9\nz. {lead}{v} A 1.2.3.4\n"),
                vec![raw_rec(&z, 1, 60, &[192, 0, 2, 9]), raw_rec(&z, 1, t, &a)],
            );
            push("dollar-ttl", "u32", 4294967295, v, 2147483647, format!("$TTL {lead}{v}\nz. IN A 1.2.3.4\n"), vec![raw_rec(&z, 1, t, &a)]);
            for i in 1..5 {
                let (line, rd) = soa(i, v);
                push(["", "soa-refresh", "soa-retry", "soa-expire", "soa-minimum"][i], "ttl", 4294967295, v, 2147483647, line, vec![raw_rec(&z, 6, 60, &rd)]);
            }
        }
        for v in u32v {
            let (line, rd) = soa(0, v);
            push("soa-serial", "u32", 4294967295, v, 4294967295, line, vec![raw_rec(&z, 6, 60, &rd)]);
        }
        for v in u16v {
            let mut rd = (v as u16).to_be_bytes().to_vec();
            rd.extend(wire_of(&[b"m".to_vec(), b"z".to_vec()]));
            push("mx-preference", "u16", 65535, v, 65535, format!("z. IN 60 MX {lead}{v} m.z.\n"), vec![raw_rec(&z, 15, 60, &rd)]);
        }
        for v in u8v {
            push("sshfp-algorithm", "u8-enum", 255, v, 255, format!("z. IN 60 SSHFP {lead}{v} 1 ab\n"), vec![raw_rec(&z, 44, 60, &[v as u8, 1, 0xab])]);
            push("sshfp-type", "u8-enum", 255, v, 255, format!("z. IN 60 SSHFP 1 {lead}{v} ab\n"), vec![raw_rec(&z, 44, 60, &[1, v as u8, 0xab])]);
        }
    }
    out
}

/// Verdict of one limits case: None = as the reference says.
fn limit_verdict(c: &LimitCase) -> Option<(String, String)> {
    match &c.expected {
        Some(exp) => layout_verdict(&c.text, exp).map(|(class, what)| (format!("within-limit|{class}"), format!("value within the limit: {what}"))),
        None => {
            let bytes = c.text.as_bytes();
            match guard(|| read_all(reader_a(bytes), bytes.len() + 2)) {
                Err(p) => Some((format!("over-limit|panic:{}", norm_panic(&p)), format!("reader panicked: {p}"))),
                Ok(o) => match o.end {
                    End::Err(_) if o.entries == c.before => None,
                    End::Err(e) => Some((
                        "over-limit|entry-returned-before-error".into(),
                        format!("{} entries returned before the error {e:?}, expected the {} in front of the entry that is over the limit", o.entries.len(), c.before.len()),
                    )),
                    _ => Some((
                        "over-limit|accepted".into(),
                        format!("a value over the limit is accepted; entries returned: {}", o.entries.iter().map(|e| hex(e)).collect::<Vec<_>>().join(" ")),
                    )),
                },
            }
        }
    }
}

/// Signature of a group of failing limits cases: the spelling kind and the
/// field are generalised to `any` when every kind / field explored for that
/// (family, boundary) fails in the same way.
fn run_limits(sh: &Shared, per_case_wd: bool, only: Option<(usize, usize)>) -> (u64, u64) {
    let cases = limit_cases();
    let total = cases.len();
    let (lo, hi) = only.unwrap_or((0, total));
    let failures: Mutex<Vec<(usize, String, String)>> = Mutex::new(Vec::new());
    const LCH: usize = 512;
    let chunks: Vec<usize> = (lo..hi.min(total)).step_by(LCH).collect();
    let case_json = |c: &LimitCase, sig: &str| {
        json!({"part": "limits", "text": c.text, "expected_hex": c.expected.as_ref().map(|e| e.iter().map(|x| hex(x)).collect::<Vec<_>>()),
               "before_hex": c.before.iter().map(|x| hex(x)).collect::<Vec<_>>(), "signature": sig,
               "family": c.family, "boundary": c.boundary, "kind": c.kind, "field": c.field, "detail": c.detail})
    };
    chunks.par_iter().for_each(|&from| {
        let to = (from + LCH).min(hi).min(total);
        if !per_case_wd {
            sh.wd.enter(|| json!({"part": "limits-chunk", "from": from, "to": to}));
        }
        let mut l = Local::default();
        for (i, c) in cases[from..to].iter().enumerate() {
            if per_case_wd {
                sh.wd.enter(|| case_json(c, "C07|hang|limits"));
            }
            l.evals += 1;
            l.nontrivial.push(fnv(c.text.as_bytes()));
            l.bump(&format!("limits.{}.{}", c.family, if c.expected.is_some() { "within-limit" } else { "over-limit" }));
            if let Some((class, what)) = limit_verdict(c) {
                l.bump(&format!("limits.failing.{}.{}.{class}", c.family, c.boundary));
                failures.lock().unwrap().push((from + i, class, what));
            }
            if per_case_wd {
                sh.wd.leave();
            }
        }
        if !per_case_wd {
            sh.wd.leave();
        }
        sh.absorb(l);
    });
    let mut failures = failures.into_inner().unwrap();
    failures.sort();
    // universe of kinds and fields per (family, boundary)
    let mut kinds_all: BTreeMap<(String, String), std::collections::BTreeSet<String>> = BTreeMap::new();
    let mut fields_all: BTreeMap<(String, String), std::collections::BTreeSet<String>> = BTreeMap::new();
    for c in &cases {
        kinds_all.entry((c.family.clone(), c.boundary.clone())).or_default().insert(c.kind.clone());
        fields_all.entry((c.family.clone(), c.boundary.clone())).or_default().insert(c.field.clone());
    }
    let mut groups: BTreeMap<(String, String, String), Vec<usize>> = BTreeMap::new();
    for (k, (i, class, _)) in failures.iter().enumerate() {
        groups.entry((cases[*i].family.clone(), cases[*i].boundary.clone(), class.clone())).or_default().push(k);
    }
    for ((family, boundary, class), members) in &groups {
        let key = (family.clone(), boundary.clone());
        let kinds: std::collections::BTreeSet<String> = members.iter().map(|k| cases[failures[*k].0].kind.clone()).collect();
        let fields: std::collections::BTreeSet<String> = members.iter().map(|k| cases[failures[*k].0].field.clone()).collect();
        let any_kind = only.is_none() && kinds == kinds_all[&key];
        let any_field = only.is_none() && fields == fields_all[&key];
        let mut reported = std::collections::BTreeSet::new();
        for k in members {
            let (i, _, what) = &failures[*k];
            let c = &cases[*i];
            let sig = format!(
                "C07|limits|{family}|{boundary}|spelling={}|field={}|{class}",
                if any_kind { "any" } else { c.kind.as_str() },
                if any_field { "any" } else { c.field.as_str() }
            );
            if reported.insert(sig.clone()) {
                let shown: String = c.text.chars().take(300).collect();
                sh.ctx.violation(&sig, &format!("{what}; case: {} in {}; input {shown:?}", c.detail, c.field), case_json(c, &sig));
            }
        }
    }
    (total as u64, failures.len() as u64)
}

// ---------------- space Z: reader -> parsed::Zonefile -> ZoneBuilder -> Zone -------
//
// The continuation of the reader's result into a zone (the anchored
// zonetree/parsed.rs): classification of the entries on insert, error
// collection, conversion into a ZoneBuilder and the built zone.  Logical
// files are an SOA at the apex followed by every sequence of <= k records
// from a menu that reaches every arm of `insert` (apex NS, normal records,
// a zone cut with glue and DS, a CNAME, a record next to the CNAME, an
// out-of-zone record).  Oracle (metamorphic, C07's relation): every
// rendering of a logical file - owner explicit absolute / relative /
// inherited, class and TTL explicit / inherited, one line / parenthesised
// with comment - has to give the same observable result as the canonical
// rendering: the same error collection, or the same origin, class and
// walked zone content; the route `Zonefile::new(z, IN)` + `set_origin` +
// `insert` of every reader entry has to agree with `try_from`; no route
// may panic.

struct ZRec {
    owner: Labels,
    mnem: &'static str,
    rd_abs: Vec<&'static str>,
    rd_rel: Vec<&'static str>,
}

fn zone_menu() -> Vec<ZRec> {
    let r = |owner: &[&'static str], mnem, rd_abs: &[&'static str], rd_rel: &[&'static str]| ZRec {
        owner: owner.to_vec(),
        mnem,
        rd_abs: rd_abs.to_vec(),
        rd_rel: rd_rel.to_vec(),
    };
    vec![
        r(&["z"], "NS", &["ns.z."], &["ns"]),
        r(&["a", "z"], "A", &["1.2.3.4"], &["1.2.3.4"]),
        r(&["a", "z"], "TXT", &["\"x y\"", "\"z\""], &["x\\ y", "z"]),
        r(&["a", "z"], "A", &["1.2.3.9"], &["1.2.3.9"]),
        r(&["c", "z"], "NS", &["ns.c.z."], &["ns.c"]),
        r(&["ns", "c", "z"], "A", &["192.0.2.53"], &["192.0.2.53"]),
        r(&["c", "z"], "DS", &["1", "8", "2", "abcd"], &["1", "8", "2", "ab", "cd"]),
        r(&["w", "z"], "CNAME", &["a.z."], &["a"]),
        r(&["w", "z"], "A", &["1.2.3.5"], &["1.2.3.5"]),
        r(&["x", "y"], "A", &["1.2.3.6"], &["1.2.3.6"]),
    ]
}

/// [soa-owner(2), soa-style(2)] then per record [owner(3), class-ttl(2), style(2)]
fn zone_text(menu: &[ZRec], seq: &[usize], soa: [usize; 2], ch: &[[usize; 3]]) -> Option<String> {
    let origin: Labels = vec!["z"];
    let mut st = RefState::default();
    let mut text = String::from("$ORIGIN z.\n");
    let apex: Labels = vec!["z"];
    let lay = |style: usize, at: usize| match style {
        0 => Layout { sep: 0, cont: None, end: 0 },
        _ => Layout { sep: 1, cont: Some((1, at)), end: 4 },
    };
    // SOA
    st.record(Some(&apex), Some(60), Some(1))?;
    let toks: Vec<String> = [["z.", "@"][soa[0]], "IN", "60", "SOA", "ns.z.", "h.z.", "1", "60", "60", "60", "60"].iter().map(|s| s.to_string()).collect();
    text.push_str(&render_line("", &toks, lay(soa[1], 5))?);
    for (&ri, c) in seq.iter().zip(ch) {
        let rec = &menu[ri];
        let of = [OwnerForm::Abs, OwnerForm::Rel, OwnerForm::InhSpace][c[0]];
        let (indent, owner_tok) = owner_text(&rec.owner, &origin, of)?;
        let explicit = c[1] == 0;
        let (o, t, cl) = st.record(owner_tok.as_ref().map(|_| &rec.owner), explicit.then_some(60), explicit.then_some(1))?;
        if o != rec.owner || t != 60 || cl != 1 {
            return None;
        }
        let mut toks: Vec<String> = Vec::new();
        if let Some(o) = owner_tok {
            toks.push(o);
        }
        if explicit {
            toks.push("IN".into());
            toks.push("60".into());
        }
        toks.push(rec.mnem.into());
        let at = toks.len() - 1;
        for d in if c[0] == 1 { &rec.rd_rel } else { &rec.rd_abs } {
            toks.push(d.to_string());
        }
        text.push_str(&render_line(&indent, &toks, lay(c[2], at))?);
    }
    Some(text)
}

/// Everything observable of the route from the text to a zone.
fn observe_zone(text: &str, route: usize) -> Result<String, String> {
    guard(|| {
        let bytes = text.as_bytes();
        let parsed: Result<parsed::Zonefile, String> = if route == 0 {
            parsed::Zonefile::try_from(reader_a(bytes)).map_err(|e| e.to_string())
        } else {
            let mut p = parsed::Zonefile::new(apex_z(), Class::IN);
            p.set_origin(apex_z());
            let mut errs = ZoneErrors::<RecordError>::default();
            for res in reader_a(bytes) {
                match res {
                    Ok(Entry::Record(r)) => {
                        let rec: StoredRecord = r.flatten_into();
                        let name = rec.owner().clone();
                        if let Err(e) = p.insert(rec) {
                            errs.add_error(name, e);
                        }
                    }
                    Ok(Entry::Include { .. }) => {}
                    Err(e) => {
                        errs.add_error(Name::root_bytes(), RecordError::MalformedRecord(e));
                        break;
                    }
                }
            }
            if errs.is_empty() {
                Ok(p)
            } else {
                Err(errs.to_string())
            }
        };
        match parsed {
            Err(e) => format!("parsed-error {e}"),
            Ok(p) => {
                let head = format!("origin={} class={}", p.origin().map(|n| n.to_string()).unwrap_or_default(), p.class().map(|c| c.to_string()).unwrap_or_default());
                match ZoneBuilder::try_from(p) {
                    Err(e) => format!("builder-error {head} {e}"),
                    Ok(b) => {
                        let zone = b.build();
                        let out: Arc<Mutex<Vec<String>>> = Arc::new(Mutex::new(Vec::new()));
                        let o2 = out.clone();
                        zone.read().walk(Box::new(move |name, rrset, cut| {
                            let mut data: Vec<String> = rrset.data().iter().map(|d| d.to_string()).collect();
                            data.sort();
                            o2.lock().unwrap().push(format!("{name} {} {} cut={cut} [{}]", rrset.rtype(), rrset.ttl().as_secs(), data.join(" | ")));
                        }));
                        let mut lines = out.lock().unwrap().clone();
                        lines.sort();
                        format!("zone {head} {}", lines.join(" ; "))
                    }
                }
            }
        }
    })
}

fn zone_diff_class(a: &Result<String, String>, b: &Result<String, String>) -> Option<String> {
    if a == b {
        return None;
    }
    let stage = |r: &Result<String, String>| match r {
        Err(p) => format!("panic:{}", norm_panic(p)),
        Ok(s) => s.split(' ').next().unwrap_or("?").to_string(),
    };
    let (sa, sb) = (stage(a), stage(b));
    Some(if sa == sb { format!("{sa}-differs") } else { format!("{sa}-vs-{sb}") })
}

fn run_zone(sh: &Shared, k: usize, per_case_wd: bool, only: Option<usize>) -> (u64, u64) {
    let menu = zone_menu();
    let mut seqs: Vec<Vec<usize>> = vec![vec![]];
    for n in 1..=k {
        product(&vec![menu.len(); n], |ix| seqs.push(ix.to_vec()));
    }
    let evals = AtomicU64::new(0);
    let failing = AtomicU64::new(0);
    let idx: Vec<usize> = (0..seqs.len()).filter(|i| only.map_or(true, |o| o == *i)).collect();
    idx.par_iter().for_each(|&si| {
        let seq = &seqs[si];
        if !per_case_wd {
            sh.wd.enter(|| json!({"part": "zone-chunk", "k": k, "seq_index": si}));
        }
        let mut l = Local::default();
        let n = seq.len();
        let canon_text = zone_text(&menu, seq, [0, 0], &vec![[0, 0, 0]; n]).expect("canonical rendering exists");
        let canon = observe_zone(&canon_text, 0);
        if let Ok(s) = &canon {
            l.bump(&format!("zone.canonical.{}", s.split(' ').next().unwrap_or("?")));
        }
        let mut sizes = vec![2usize, 2];
        for _ in 0..n {
            sizes.extend_from_slice(&[3, 2, 2]);
        }
        let decode = |flat: &[usize]| -> ([usize; 2], Vec<[usize; 3]>) { ([flat[0], flat[1]], flat[2..].chunks(3).map(|c| [c[0], c[1], c[2]]).collect()) };
        let check = |flat: &[usize], text: &str| -> Option<(String, String, String)> {
            // (kind, class, what)
            let o0 = observe_zone(text, 0);
            if let Some(c) = zone_diff_class(&canon, &o0) {
                return Some(("layout".into(), c, format!("canonical rendering gives {:?}, this rendering gives {:?}", canon, o0)));
            }
            let o1 = observe_zone(text, 1);
            if let Some(c) = zone_diff_class(&o0, &o1) {
                return Some(("insert-route".into(), c, format!("try_from gives {:?}, Zonefile::new + insert gives {:?}", o0, o1)));
            }
            let _ = flat;
            None
        };
        product(&sizes, |flat| {
            let (soa, ch) = decode(flat);
            let text = match zone_text(&menu, seq, soa, &ch) {
                Some(t) => t,
                None => return,
            };
            if per_case_wd {
                sh.wd.enter(|| json!({"part": "zone", "text": text, "canonical_text": canon_text}));
            }
            l.evals += 1;
            if flat.iter().skip(2).all(|c| *c == 0) {
                l.nontrivial.push(fnv(text.as_bytes()));
            }
            if let Some((kind, class, what)) = check(flat, &text) {
                failing.fetch_add(1, AO::Relaxed);
                l.bump(&format!("zone.failing.{kind}.{class}"));
                // slot minimisation towards the canonical rendering
                let mut cur = flat.to_vec();
                loop {
                    let mut changed = false;
                    for i in 0..cur.len() {
                        for v in 0..cur[i] {
                            let mut t = cur.clone();
                            t[i] = v;
                            let (s2, c2) = decode(&t);
                            if let Some(tx) = zone_text(&menu, seq, s2, &c2) {
                                if check(&t, &tx).map(|x| (x.0, x.1)) == Some((kind.clone(), class.clone())) {
                                    cur = t;
                                    changed = true;
                                    break;
                                }
                            }
                        }
                    }
                    if !changed {
                        break;
                    }
                }
                let names = ["soa-owner", "soa-style", "owner", "class-ttl", "style"];
                let vals: [&[&str]; 5] = [&["absolute", "at"], &["plain", "parens"], &["absolute", "relative", "inherited"], &["explicit", "inherited"], &["plain", "parens"]];
                let mut slots = Vec::new();
                for (i, v) in cur.iter().enumerate() {
                    if *v != 0 {
                        let (slot, rec) = if i < 2 { (i, "soa".to_string()) } else { (2 + (i - 2) % 3, menu[seq[(i - 2) / 3]].mnem.to_string()) };
                        slots.push(format!("{rec}.{}={}", names[slot], vals[slot][*v]));
                    }
                }
                slots.sort();
                slots.dedup();
                let sig = format!("C07|zone-route|{kind}|{class}|{}", slots.join(","));
                if first_in_thread(&sig) {
                    let (s2, c2) = decode(&cur);
                    let min_text = zone_text(&menu, seq, s2, &c2).unwrap_or_default();
                    sh.ctx.violation(&sig, &format!("{what}; minimal rendering {min_text:?}"), json!({"part": "zone", "text": text, "canonical_text": canon_text, "minimal_text": min_text, "signature": sig}));
                }
            }
            if per_case_wd {
                sh.wd.leave();
            }
        });
        evals.fetch_add(l.evals, AO::Relaxed);
        if !per_case_wd {
            sh.wd.leave();
        }
        sh.absorb(l);
    });
    (evals.load(AO::Relaxed), failing.load(AO::Relaxed))
}

// ---------------- space G: RFC 3597 generic renderings -------------------
//
// RFC 3597 section 5 gives every record a second textual rendering: the type
// as `TYPEnnn`, the class as `CLASSnnn`, and the RDATA as `\# <length> <hex
// words>`; the forms may be mixed freely (`e.example. CLASS1 TYPE1 10.0.0.2`,
// `e.example. IN A \# 4 0A000001`).  A record written that way is the same
// logical content as its type-specific rendering, so C07's relation applies
// to it, at the reader (`next_entry`: the same wire record) and at the
// secondary entry point `parsed::Zonefile::try_from` and what is built from
// it (the same error-or-ok verdict, the same zone content).
//
// G1: one record of every type of the menus used elsewhere in this file, at
//     every kind of owner position (apex, below the apex = a potential cut,
//     below an existing cut, out of zone), in every combination of owner
//     form x class/TTL form (IN / CLASS1 / omitted) x type spelling
//     (mnemonic / TYPEnnn) x RDATA form (typed, generic as one word, as two
//     upper-case words, as one word per octet) x line layout.
// G2: the logical files of space Z (SOA + every sequence of <= k records
//     reaching every arm of `insert`) with every record, the SOA included,
//     in typed and in generic form.
// G3: damaged generic forms (totality): declared length off by one, odd
//     number of digits, a non-hex digit, missing data / length, a length
//     that is no u16, well-formed generic data that is not a value of the
//     type (empty, truncated, one octet too many), an unclosed parenthesis.
//
// All observations of this space are in wire format (owner, type, class,
// TTL, RDATA octets; error *variants* with the record they carry), never
// `Display`, because the presentation of a record may legitimately differ
// between the two renderings.

struct GRec {
    mnem: &'static str,
    rtype: u16,
    /// type-specific RDATA tokens (names absolute); empty = no such form
    typed: Vec<String>,
    wire: Vec<u8>,
}

fn gen_menu() -> Vec<GRec> {
    let origin: Labels = vec!["z"];
    let k = |kind: Kind| GRec { mnem: kind.mnemonic(), rtype: kind.rtype(), typed: if kind == Kind::Unk { Vec::new() } else { data_tokens(kind, 0, &origin, false) }, wire: rdata_wire(kind) };
    let g = |mnem: &'static str, rtype: u16, typed: &[&str], wire: Vec<u8>| GRec { mnem, rtype, typed: typed.iter().map(|s| s.to_string()).collect(), wire };
    vec![
        k(Kind::A),
        g("NS", 2, &["ns.c.z."], name_wire(&["ns", "c", "z"])),
        g("CNAME", 5, &["a.z."], name_wire(&["a", "z"])),
        k(Kind::Soa),
        g("HINFO", 13, &["k", "\"x y\""], vec![1, b'k', 3, b'x', b' ', b'y']),
        k(Kind::Mx),
        k(Kind::Txt),
        g("AAAA", 28, &["2001:db8::1"], vec![0x20, 0x01, 0x0d, 0xb8, 0, 0, 0, 0, 0, 0, 0, 0, 0, 0, 0, 1]),
        g("DS", 43, &["1", "8", "2", "abcd"], vec![0, 1, 8, 2, 0xab, 0xcd]),
        g("SSHFP", 44, &["1", "1", "ab"], vec![1, 1, 0xab]),
        k(Kind::Nsec),
        k(Kind::Nsec3),
        k(Kind::Svcb),
        k(Kind::Unk),
        g("TYPE65281", 65281, &[], Vec::new()),
    ]
}

const G_OWNERS: [(&str, &[&str]); 4] = [("apex", &["z"]), ("below-apex", &["c", "z"]), ("below-cut", &["ns", "c", "z"]), ("out-of-zone", &["x", "y"])];
const G_OWNER_FORMS: [OwnerForm; 3] = [OwnerForm::Abs, OwnerForm::Rel, OwnerForm::InhTab];
const G_CT: [&[&str]; 6] = [&["IN", "60"], &["CLASS1", "60"], &["60", "CLASS1"], &["CLASS1"], &["60"], &[]];
const G_CT_NAMES: [&str; 6] = ["IN-ttl", "CLASS1-ttl", "ttl-CLASS1", "CLASS1-only", "ttl-only", "neither"];
const G_TSPELL_NAMES: [&str; 2] = ["mnemonic", "TYPEnnn"];
const G_DFORM_NAMES: [&str; 4] = ["typed", "generic-one-word", "generic-two-words-uppercase", "generic-word-per-octet"];
const G_LAYOUT_NAMES: [&str; 4] = ["plain", "tabs-crlf-parens-after-type", "multi-space-parens-after-first-rdata-token-comment", "parens-after-second-rdata-token-blank-and-comment-lines"];
const G1_SIZES: [usize; 5] = [3, 6, 2, 4, 4];
const G1_SLOTS: [&str; 5] = ["owner", "class-ttl", "type-spelling", "rdata-form", "layout"];

/// RDATA tokens of a record in form `f` (0 = typed, 1..=3 generic).
fn g_data_tokens(rec: &GRec, f: usize) -> Option<Vec<String>> {
    if f == 0 {
        return if rec.typed.is_empty() { None } else { Some(rec.typed.clone()) };
    }
    let mut t = vec!["\\#".to_string(), rec.wire.len().to_string()];
    let h = hex(&rec.wire);
    match f {
        1 => {
            if !rec.wire.is_empty() {
                t.push(h);
            }
        }
        2 => {
            if rec.wire.len() < 2 {
                return None;
            }
            let cut = (rec.wire.len() / 2) * 2;
            t.push(h[..cut].to_uppercase());
            t.push(h[cut..].to_uppercase());
        }
        _ => {
            if rec.wire.len() < 3 {
                return None;
            }
            for o in &rec.wire {
                t.push(format!("{o:02x}"));
            }
        }
    }
    Some(t)
}

fn g_type_token(rec: &GRec, spell: usize) -> Option<String> {
    match spell {
        0 => Some(rec.mnem.to_string()),
        _ => {
            let t = format!("TYPE{}", rec.rtype);
            if t == rec.mnem {
                None // the same token as spelling 0
            } else {
                Some(t)
            }
        }
    }
}

/// Head of every file of space G: origin, SOA, and a delegation of c.z. when
/// the owner under test lies below it.  Returns (text, entries, state).
fn g_file_head(pos: usize) -> (String, Vec<Vec<u8>>, RefState) {
    let mut st = RefState::default();
    let mut text = String::from("$ORIGIN z.\nz. IN 60 SOA ns.z. h.z. 1 60 60 60 60\n");
    let apex: Labels = vec!["z"];
    st.record(Some(&apex), Some(60), Some(1));
    let mut expected = vec![rec_wire(&apex, 6, 1, 60, &rdata_wire(Kind::Soa))];
    if pos == 2 {
        text.push_str("c IN 60 NS ns.c.z.\n");
        let c: Labels = vec!["c", "z"];
        st.record(Some(&c), Some(60), Some(1));
        expected.push(rec_wire(&c, 2, 1, 60, &name_wire(&["ns", "c", "z"])));
    }
    (text, expected, st)
}

const G_SENTINEL: &str = "s IN 60 A 192.0.2.7\n";

fn g_sentinel_entry() -> Vec<u8> {
    rec_wire(&["s", "z"], 1, 1, 60, &[192, 0, 2, 7])
}

/// One G1 file.  `c` = [owner form, class/TTL form, type spelling, RDATA
/// form, layout].  A context record with the owner under test precedes the
/// record exactly when its owner is inherited from it (`context` forces it,
/// for the canonical rendering of the same logical file).
fn g1_case(rec: &GRec, pos: usize, c: &[usize], context: bool) -> Option<(String, Vec<Vec<u8>>)> {
    let origin: Labels = vec!["z"];
    let abs: Labels = G_OWNERS[pos].1.to_vec();
    let of = G_OWNER_FORMS[c[0]];
    let context = context || (of == OwnerForm::InhTab && pos != 0);
    let (mut text, mut expected, mut st) = g_file_head(pos);
    if context {
        text.push_str(&format!("{}. IN 60 A 192.0.2.9\n", abs.join(".")));
        st.record(Some(&abs), Some(60), Some(1));
        expected.push(rec_wire(&abs, 1, 1, 60, &[192, 0, 2, 9]));
    }
    let (indent, owner_tok) = owner_text(&abs, &origin, of)?;
    let ct = G_CT[c[1]];
    let (o, t, cl) = st.record(owner_tok.as_ref().map(|_| &abs), ct.contains(&"60").then_some(60), ct.iter().any(|x| *x != "60").then_some(1))?;
    if o != abs || t != 60 || cl != 1 {
        return None;
    }
    let mut toks: Vec<String> = Vec::new();
    if let Some(o) = owner_tok {
        toks.push(o);
    }
    toks.extend(ct.iter().map(|s| s.to_string()));
    toks.push(g_type_token(rec, c[2])?);
    let ti = toks.len() - 1;
    toks.extend(g_data_tokens(rec, c[3])?);
    let lay = match c[4] {
        0 => Layout { sep: 0, cont: None, end: 0 },
        1 => Layout { sep: 1, cont: Some((1, ti)), end: 1 },
        2 => Layout { sep: 2, cont: Some((2, ti + 1)), end: 3 },
        _ => Layout { sep: 0, cont: Some((4, ti + 2)), end: 8 },
    };
    text.push_str(&render_line(&indent, &toks, lay)?);
    expected.push(rec_wire(&abs, rec.rtype, 1, 60, &rec.wire));
    text.push_str(G_SENTINEL);
    expected.push(g_sentinel_entry());
    Some((text, expected))
}

fn stored_rec_hex(r: &StoredRecord) -> String {
    let mut v = Vec::new();
    let _ = r.compose(&mut v);
    hex(&v)
}

/// What went wrong with a record, by variant, with the record in wire
/// format; the type / class the library names next to it is left out (it is
/// a sample of a hash map where several types exist).
fn record_error_repr(name: &Name<Bytes>, e: &RecordError) -> String {
    #[allow(unreachable_patterns)]
    let (tag, rec) = match e {
        RecordError::ClassMismatch(r, _) => ("class-mismatch", Some(r)),
        RecordError::IllegalZoneCut(r, _) => ("illegal-zone-cut", Some(r)),
        RecordError::IllegalRecord(r, _) => ("illegal-record", Some(r)),
        RecordError::IllegalCname(r, _) => ("illegal-cname", Some(r)),
        RecordError::MultipleCnames(r) => ("multiple-cnames", Some(r)),
        RecordError::MissingSoa(r) => ("missing-soa", Some(r)),
        RecordError::MalformedRecord(_) => ("malformed", None),
        RecordError::InvalidRecord(_) => ("invalid", None),
        _ => ("other", None),
    };
    format!("{tag}@{}:{}", hex(name.as_slice()), rec.map(stored_rec_hex).unwrap_or_default())
}

fn record_errors_repr(errs: ZoneErrors<RecordError>) -> String {
    let mut v: Vec<String> = errs.into_iter().map(|(n, e)| record_error_repr(&n, &e)).collect();
    v.sort();
    v.join(" ; ")
}

/// `observe_zone` in wire format: the route from the text to a zone, with
/// nothing in the result that depends on how a record is presented.
fn observe_zone_wire(text: &str, route: usize) -> Result<String, String> {
    use domain::base::rdata::ComposeRecordData;
    use domain::zonetree::error::ContextError;
    guard(|| {
        let bytes = text.as_bytes();
        let parsed: Result<parsed::Zonefile, String> = if route == 0 {
            parsed::Zonefile::try_from(reader_a(bytes)).map_err(record_errors_repr)
        } else {
            let mut p = parsed::Zonefile::new(apex_z(), Class::IN);
            p.set_origin(apex_z());
            let mut errs = ZoneErrors::<RecordError>::default();
            for res in reader_a(bytes) {
                match res {
                    Ok(Entry::Record(r)) => {
                        let rec: StoredRecord = r.flatten_into();
                        let name = rec.owner().clone();
                        if let Err(e) = p.insert(rec) {
                            errs.add_error(name, e);
                        }
                    }
                    Ok(Entry::Include { .. }) => {}
                    Err(e) => {
                        errs.add_error(Name::root_bytes(), RecordError::MalformedRecord(e));
                        break;
                    }
                }
            }
            if errs.is_empty() {
                Ok(p)
            } else {
                Err(record_errors_repr(errs))
            }
        };
        match parsed {
            Err(e) => format!("parsed-error {e}"),
            Ok(p) => {
                let head = format!("origin={} class={}", p.origin().map(|n| hex(n.as_slice())).unwrap_or_default(), p.class().map(|c| c.to_int().to_string()).unwrap_or_default());
                match ZoneBuilder::try_from(p) {
                    Err(e) => {
                        let mut v: Vec<String> = e
                            .into_iter()
                            .map(|(n, e)| {
                                #[allow(unreachable_patterns)]
                                let tag = match e {
                                    ContextError::MissingNs => "missing-ns".to_string(),
                                    ContextError::InvalidZonecut(_) => "invalid-zone-cut".to_string(),
                                    ContextError::InvalidCname(_) => "invalid-cname".to_string(),
                                    ContextError::OutOfZone(rt) => format!("out-of-zone:{}", rt.to_int()),
                                    _ => "other".to_string(),
                                };
                                format!("{tag}@{}", hex(n.as_slice()))
                            })
                            .collect();
                        v.sort();
                        format!("builder-error {head} {}", v.join(" ; "))
                    }
                    Ok(b) => {
                        let zone = b.build();
                        let out: Arc<Mutex<Vec<String>>> = Arc::new(Mutex::new(Vec::new()));
                        let o2 = out.clone();
                        zone.read().walk(Box::new(move |name, rrset, cut| {
                            let mut data: Vec<String> = rrset
                                .data()
                                .iter()
                                .map(|d| {
                                    let mut v = Vec::new();
                                    let _ = d.compose_rdata(&mut v);
                                    hex(&v)
                                })
                                .collect();
                            data.sort();
                            o2.lock().unwrap().push(format!("{} {} {} cut={cut} [{}]", hex(name.as_slice()), rrset.rtype().to_int(), rrset.ttl().as_secs(), data.join(" | ")));
                        }));
                        let mut lines = out.lock().unwrap().clone();
                        lines.sort();
                        format!("zone {head} {}", lines.join(" ; "))
                    }
                }
            }
        }
    })
}

/// Verdict of one text of space G against its reference:
/// (stage, class, description); None = as the reference says.
/// `expected` = the entries `next_entry` has to return (None: not checked);
/// `canon` = the wire observation of the canonical rendering of the file.
fn g_verdict(text: &str, expected: Option<&[Vec<u8>]>, canon: Option<&Result<String, String>>) -> Option<(String, String, String)> {
    if let Some(exp) = expected {
        if let Some((class, what)) = layout_verdict(text, exp) {
            return Some(("reader".into(), class, what));
        }
    }
    if let Some((class, what)) = examine(text.as_bytes(), true).viol {
        return Some(("totality".into(), class, what));
    }
    let o0 = observe_zone_wire(text, 0);
    if let Some(canon) = canon {
        if let Some(c) = zone_diff_class(canon, &o0) {
            return Some(("zone".into(), c, format!("parsed::Zonefile::try_from + ZoneBuilder: the canonical (type-specific) rendering gives {canon:?}, this rendering gives {o0:?}")));
        }
    } else if let Err(p) = &o0 {
        return Some(("zone".into(), format!("panic:{}", norm_panic(p)), format!("parsed::Zonefile::try_from + ZoneBuilder panicked: {p}")));
    }
    let o1 = observe_zone_wire(text, 1);
    if let Some(c) = zone_diff_class(&o0, &o1) {
        return Some(("insert-route".into(), c, format!("try_from gives {o0:?}, Zonefile::new + insert gives {o1:?}")));
    }
    None
}

/// Canonical rendering of the logical file of a G1 case.
fn g1_canon(rec: &GRec, pos: usize, context: bool) -> Result<String, String> {
    let d0 = if rec.typed.is_empty() { 1 } else { 0 };
    let (text, _) = g1_case(rec, pos, &[0, 0, 0, d0, 0], context).expect("canonical rendering exists");
    observe_zone_wire(&text, 0)
}

fn g1_slot_names(c: &[usize]) -> Vec<String> {
    let names: [String; 5] = [format!("{:?}", G_OWNER_FORMS[c[0]]), G_CT_NAMES[c[1]].into(), G_TSPELL_NAMES[c[2]].into(), G_DFORM_NAMES[c[3]].into(), G_LAYOUT_NAMES[c[4]].into()];
    (0..5).filter(|i| c[*i] != 0).map(|i| format!("{}={}", G1_SLOTS[i], names[i])).collect()
}

const GENERIC_COVERAGE: &str = "RFC 3597 renderings, all compared in wire format. G1: 15 records (A, NS, CNAME, SOA, HINFO, MX, TXT, AAAA, DS, SSHFP, NSEC, NSEC3, SVCB, TYPE65280, TYPE65281 with empty RDATA) x owner at {apex, below apex, below a delegation, out of zone} in a file SOA [+ delegation] [+ context record when the owner is inherited] + record + sentinel; renderings owner(abs, rel, inherited) x class/TTL(IN 60, CLASS1 60, 60 CLASS1, CLASS1, 60, none) x type(mnemonic, TYPEnnn) x RDATA(typed, generic one word, two upper-case words, one word per octet) x layout(4); oracle: next_entry returns exactly the logical records, totality oracle incl. try_from, and parsed::Zonefile::try_from + ZoneBuilder + walk (and new + insert) give what the canonical typed rendering gives. G2: SOA + every sequence of <= <K> records of the zone-route menu, every record (SOA too) as typed / typed TYPEnnn CLASS1 / generic / generic TYPEnnn CLASS1, same oracle against the all-typed rendering. G3: every record x owner position x 12 damaged generic forms x hex as one / two words: totality oracle, both zone routes agree and do not panic, malformed forms are rejected at the damaged entry, one word and two words give the same result";

fn run_g1(sh: &Shared, per_case_wd: bool, only: Option<(usize, usize)>) -> (u64, u64) {
    let menu = gen_menu();
    let mut items = Vec::new();
    for ri in 0..menu.len() {
        for pos in 0..G_OWNERS.len() {
            if only.map_or(true, |o| o == (ri, pos)) {
                items.push((ri, pos));
            }
        }
    }
    let evals = AtomicU64::new(0);
    let failing = AtomicU64::new(0);
    items.par_iter().for_each(|&(ri, pos)| {
        let rec = &menu[ri];
        if !per_case_wd {
            sh.wd.enter(|| json!({"part": "generic-chunk", "space": "G1", "rec": ri, "pos": pos}));
        }
        let mut l = Local::default();
        let canon = [g1_canon(rec, pos, false), g1_canon(rec, pos, true)];
        if let Ok(s) = &canon[0] {
            l.bump(&format!("generic.G1.canonical.{}", s.split(' ').next().unwrap_or("?")));
        }
        let eval = |c: &[usize]| -> Option<Option<(String, String, String)>> {
            let (text, expected) = g1_case(rec, pos, c, false)?;
            let context = G_OWNER_FORMS[c[0]] == OwnerForm::InhTab && pos != 0;
            Some(g_verdict(&text, Some(&expected), Some(&canon[context as usize])))
        };
        product(&G1_SIZES, |c| {
            let Some((text, _)) = g1_case(rec, pos, c, false) else { return };
            if per_case_wd {
                sh.wd.enter(|| json!({"part": "generic", "space": "G1", "rec": ri, "pos": pos, "choices": c, "text": text}));
            }
            l.evals += 1;
            if c[4] == 0 {
                l.nontrivial.push(fnv(text.as_bytes()));
            }
            l.bump(&format!("generic.G1.renderings.rdata-form.{}", G_DFORM_NAMES[c[3]]));
            if let Some(Some((stage, class, what))) = eval(c) {
                failing.fetch_add(1, AO::Relaxed);
                l.bump(&format!("generic.G1.failing.{stage}.{class}"));
                let mut cur = c.to_vec();
                loop {
                    let mut changed = false;
                    for i in 0..cur.len() {
                        for v in 0..cur[i] {
                            let mut t = cur.clone();
                            t[i] = v;
                            if let Some(Some(x)) = eval(&t) {
                                if x.0 == stage && x.1 == class {
                                    cur = t;
                                    changed = true;
                                    break;
                                }
                            }
                        }
                    }
                    if !changed {
                        break;
                    }
                }
                let sig = format!("C07|generic|G1|{stage}|type={}|owner={}|{}|{class}", rec.mnem, G_OWNERS[pos].0, g1_slot_names(&cur).join(","));
                if first_in_thread(&sig) {
                    let min_text = g1_case(rec, pos, &cur, false).map(|x| x.0).unwrap_or_default();
                    sh.ctx.violation(&sig, &format!("{what}; minimal rendering {min_text:?}"), json!({"part": "generic", "space": "G1", "rec": ri, "pos": pos, "choices": c, "text": text, "minimal_text": min_text}));
                }
            }
            if per_case_wd {
                sh.wd.leave();
            }
        });
        evals.fetch_add(l.evals, AO::Relaxed);
        if !per_case_wd {
            sh.wd.leave();
        }
        sh.absorb(l);
    });
    (evals.load(AO::Relaxed), failing.load(AO::Relaxed))
}

// G2: the logical files of space Z, every record typed or generic

fn zone_menu_wire() -> Vec<(u16, Vec<u8>)> {
    vec![
        (2, name_wire(&["ns", "z"])),
        (1, vec![1, 2, 3, 4]),
        (16, rdata_wire(Kind::Txt)),
        (1, vec![1, 2, 3, 9]),
        (2, name_wire(&["ns", "c", "z"])),
        (1, vec![192, 0, 2, 53]),
        (43, vec![0, 1, 8, 2, 0xab, 0xcd]),
        (5, name_wire(&["a", "z"])),
        (1, vec![1, 2, 3, 5]),
        (1, vec![1, 2, 3, 6]),
    ]
}

const G2_FORM_NAMES: [&str; 4] = ["typed", "typed-TYPEnnn-CLASS1", "generic-one-word", "generic-two-words-TYPEnnn-CLASS1"];

/// `forms[0]` is the form of the SOA, `forms[1..]` those of the records.
fn g2_text(menu: &[ZRec], wires: &[(u16, Vec<u8>)], seq: &[usize], forms: &[usize]) -> Option<String> {
    let line = |owner: &[&str], mnem: &str, rtype: u16, typed: &[&str], wire: &[u8], f: usize| -> Option<String> {
        let rec = GRec { mnem: "", rtype, typed: typed.iter().map(|s| s.to_string()).collect(), wire: wire.to_vec() };
        let (class, ty) = if f & 1 == 1 { ("CLASS1", format!("TYPE{rtype}")) } else { ("IN", mnem.to_string()) };
        let data = g_data_tokens(&rec, [0, 0, 1, 2][f])?;
        Some(format!("{}. {class} 60 {ty} {}\n", owner.join("."), data.join(" ")))
    };
    let mut text = String::from("$ORIGIN z.\n");
    text.push_str(&line(&["z"], "SOA", 6, &["ns.z.", "h.z.", "1", "60", "60", "60", "60"], &rdata_wire(Kind::Soa), forms[0])?);
    for (&ri, &f) in seq.iter().zip(&forms[1..]) {
        let r = &menu[ri];
        text.push_str(&line(&r.owner, r.mnem, wires[ri].0, &r.rd_abs, &wires[ri].1, f)?);
    }
    Some(text)
}

fn run_g2(sh: &Shared, k: usize, per_case_wd: bool, only: Option<usize>) -> (u64, u64) {
    let menu = zone_menu();
    let wires = zone_menu_wire();
    let mut seqs: Vec<Vec<usize>> = vec![vec![]];
    for n in 1..=k {
        product(&vec![menu.len(); n], |ix| seqs.push(ix.to_vec()));
    }
    let evals = AtomicU64::new(0);
    let failing = AtomicU64::new(0);
    let idx: Vec<usize> = (0..seqs.len()).filter(|i| only.map_or(true, |o| o == *i)).collect();
    idx.par_iter().for_each(|&si| {
        let seq = &seqs[si];
        if !per_case_wd {
            sh.wd.enter(|| json!({"part": "generic-chunk", "space": "G2", "k": k, "seq_index": si}));
        }
        let mut l = Local::default();
        let n = seq.len();
        let canon_text = g2_text(&menu, &wires, seq, &vec![0; n + 1]).expect("canonical rendering exists");
        let canon = observe_zone_wire(&canon_text, 0);
        if let Ok(s) = &canon {
            l.bump(&format!("generic.G2.canonical.{}", s.split(' ').next().unwrap_or("?")));
        }
        let eval = |f: &[usize]| -> Option<Option<(String, String, String)>> { Some(g_verdict(&g2_text(&menu, &wires, seq, f)?, None, Some(&canon))) };
        product(&vec![4usize; n + 1], |f| {
            let Some(text) = g2_text(&menu, &wires, seq, f) else { return };
            if per_case_wd {
                sh.wd.enter(|| json!({"part": "generic", "space": "G2", "k": k, "seq_index": si, "forms": f, "text": text, "canonical_text": canon_text}));
            }
            l.evals += 1;
            l.nontrivial.push(fnv(text.as_bytes()));
            if let Some(Some((stage, class, what))) = eval(f) {
                failing.fetch_add(1, AO::Relaxed);
                l.bump(&format!("generic.G2.failing.{stage}.{class}"));
                let mut cur = f.to_vec();
                loop {
                    let mut changed = false;
                    for i in 0..cur.len() {
                        for v in 0..cur[i] {
                            let mut t = cur.clone();
                            t[i] = v;
                            if let Some(Some(x)) = eval(&t) {
                                if x.0 == stage && x.1 == class {
                                    cur = t;
                                    changed = true;
                                    break;
                                }
                            }
                        }
                    }
                    if !changed {
                        break;
                    }
                }
                // the records that still are in a non-canonical form, with
                // their position class (type @ owner) instead of their index
                let mut slots: Vec<String> = Vec::new();
                for (i, v) in cur.iter().enumerate() {
                    if *v != 0 {
                        let who = if i == 0 { "SOA@z".to_string() } else { format!("{}@{}", menu[seq[i - 1]].mnem, menu[seq[i - 1]].owner.join(".")) };
                        slots.push(format!("{who}={}", G2_FORM_NAMES[*v]));
                    }
                }
                slots.sort();
                slots.dedup();
                let sig = format!("C07|generic|G2|{stage}|{}|{class}", slots.join(","));
                if first_in_thread(&sig) {
                    let min_text = g2_text(&menu, &wires, seq, &cur).unwrap_or_default();
                    sh.ctx.violation(&sig, &format!("{what}; minimal rendering {min_text:?}"), json!({"part": "generic", "space": "G2", "k": k, "seq_index": si, "forms": f, "text": text, "canonical_text": canon_text, "minimal_text": min_text}));
                }
            }
            if per_case_wd {
                sh.wd.leave();
            }
        });
        evals.fetch_add(l.evals, AO::Relaxed);
        if !per_case_wd {
            sh.wd.leave();
        }
        sh.absorb(l);
    });
    (evals.load(AO::Relaxed), failing.load(AO::Relaxed))
}

// G3: damaged generic forms

/// (name, has to be rejected by the reader)
const G3_DAMAGE: [(&str, bool); 12] = [
    ("declared-length-one-less", true),
    ("declared-length-one-more", true),
    ("odd-number-of-digits", true),
    ("non-hex-digit", true),
    ("data-missing", true),
    ("length-missing", true),
    ("length-not-a-number", true),
    ("length-65536", true),
    ("empty-data-for-the-type", false),
    ("first-half-of-the-data", false),
    ("one-octet-too-many", false),
    ("unclosed-parenthesis", false),
];

/// RDATA tokens of damage `d`; `split`: the hex data as two words.
fn g3_tokens(rec: &GRec, d: usize, split: bool) -> Option<Vec<String>> {
    let n = rec.wire.len();
    let h = hex(&rec.wire);
    let words = |h: &str| -> Option<Vec<String>> {
        if !split {
            Some(if h.is_empty() { Vec::new() } else { vec![h.to_string()] })
        } else if h.len() >= 4 {
            let cut = (h.len() / 4) * 2;
            Some(vec![h[..cut].to_string(), h[cut..].to_string()])
        } else {
            None
        }
    };
    let form = |len: String, data: Vec<String>| {
        let mut t = vec!["\\#".to_string(), len];
        t.extend(data);
        Some(t)
    };
    match d {
        0 if n >= 1 => form((n - 1).to_string(), words(&h)?),
        1 => form((n + 1).to_string(), words(&h)?),
        2 if n >= 1 => form(n.to_string(), words(&h[..h.len() - 1])?),
        3 if n >= 1 => form(n.to_string(), words(&format!("g{}", &h[1..]))?),
        4 if n >= 1 && !split => form(n.to_string(), Vec::new()),
        5 if !split => Some(vec!["\\#".to_string()]),
        6 => form("x".to_string(), words(&h)?),
        7 => form("65536".to_string(), words(&h)?),
        8 if n >= 1 && !split && !rec.typed.is_empty() => form("0".to_string(), Vec::new()),
        9 if n >= 2 && !rec.typed.is_empty() => form((n / 2).to_string(), words(&h[..(n / 2) * 2])?),
        10 if !rec.typed.is_empty() => form((n + 1).to_string(), words(&format!("{h}00"))?),
        11 => {
            let mut t = vec!["\\#".to_string(), n.to_string(), "(".to_string()];
            t.extend(words(&h)?);
            Some(t)
        }
        _ => None,
    }
}

fn g3_case(rec: &GRec, pos: usize, d: usize, split: bool) -> Option<(String, usize)> {
    let (mut text, before, _) = g_file_head(pos);
    let mut toks = vec![format!("{}.", G_OWNERS[pos].1.join(".")), "IN".to_string(), "60".to_string(), rec.mnem.to_string()];
    toks.extend(g3_tokens(rec, d, split)?);
    text.push_str(&toks.join(" "));
    text.push('\n');
    text.push_str(G_SENTINEL);
    Some((text, before.len()))
}

/// What the reader made of a text, without wordings: entries + kind of end.
fn g3_outcome(text: &str) -> Result<(Vec<Vec<u8>>, &'static str), String> {
    guard(|| read_all(reader_a(text.as_bytes()), text.len() + 2)).map(|o| {
        (
            o.entries,
            match o.end {
                End::Eof => "eof",
                End::Err(_) => "error",
                End::Overrun => "overrun",
            },
        )
    })
}

fn g3_verdict(rec: &GRec, pos: usize, d: usize, split: bool) -> Option<Option<(String, String, String)>> {
    let (text, before) = g3_case(rec, pos, d, split)?;
    if let Some(v) = g_verdict(&text, None, None) {
        return Some(Some(v));
    }
    let out = g3_outcome(&text);
    if G3_DAMAGE[d].1 {
        if let Ok((entries, end)) = &out {
            if !(*end == "error" && entries.len() == before) {
                return Some(Some((
                    "reader".into(),
                    if *end == "error" { "damaged-entry-returned-before-error".into() } else { "damaged-accepted".into() },
                    format!("a generic RDATA form that is not well formed ({}) ends in {end} after {} entries; expected an error after the {before} entries in front of it", G3_DAMAGE[d].0, entries.len()),
                )));
            }
        }
    }
    if split {
        // the same hex data as one word: same entries, same kind of end, same zone verdict
        if let Some((one, _)) = g3_case(rec, pos, d, false) {
            let out1 = g3_outcome(&one);
            if out1 != out {
                return Some(Some(("reader".into(), "hex-words-differ".into(), format!("the data as one word gives {out1:?}, as two words {out:?}"))));
            }
            let (z1, z2) = (observe_zone_wire(&one, 0), observe_zone_wire(&text, 0));
            if let Some(c) = zone_diff_class(&z1, &z2) {
                return Some(Some(("zone".into(), format!("hex-words-differ:{c}"), format!("the data as one word gives {z1:?}, as two words {z2:?}"))));
            }
        }
    }
    Some(None)
}

fn run_g3(sh: &Shared, per_case_wd: bool, only: Option<usize>) -> (u64, u64) {
    let menu = gen_menu();
    let evals = AtomicU64::new(0);
    let failing = AtomicU64::new(0);
    let idx: Vec<usize> = (0..menu.len()).filter(|i| only.map_or(true, |o| o == *i)).collect();
    idx.par_iter().for_each(|&ri| {
        let rec = &menu[ri];
        if !per_case_wd {
            sh.wd.enter(|| json!({"part": "generic-chunk", "space": "G3", "rec": ri}));
        }
        let mut l = Local::default();
        product(&[G_OWNERS.len(), G3_DAMAGE.len(), 2], |c| {
            let (pos, d, split) = (c[0], c[1], c[2] == 1);
            let Some((text, _)) = g3_case(rec, pos, d, split) else { return };
            if per_case_wd {
                sh.wd.enter(|| json!({"part": "generic", "space": "G3", "rec": ri, "pos": pos, "damage": d, "split": split, "text": text}));
            }
            l.evals += 1;
            l.nontrivial.push(fnv(text.as_bytes()));
            l.bump(&format!("generic.G3.cases.{}", G3_DAMAGE[d].0));
            if let Some(Some((stage, class, what))) = g3_verdict(rec, pos, d, split) {
                failing.fetch_add(1, AO::Relaxed);
                l.bump(&format!("generic.G3.failing.{stage}.{class}"));
                let sig = format!("C07|generic|G3|{stage}|type={}|owner={}|damage={}|{class}", rec.mnem, G_OWNERS[pos].0, G3_DAMAGE[d].0);
                if first_in_thread(&sig) {
                    sh.ctx.violation(&sig, &format!("{what}; input {text:?}"), json!({"part": "generic", "space": "G3", "rec": ri, "pos": pos, "damage": d, "split": split, "text": text}));
                }
            }
            if per_case_wd {
                sh.wd.leave();
            }
        });
        evals.fetch_add(l.evals, AO::Relaxed);
        if !per_case_wd {
            sh.wd.leave();
        }
        sh.absorb(l);
    });
    (evals.load(AO::Relaxed), failing.load(AO::Relaxed))
}

// ---------------- space E: escaped / quoted spellings of the tokens of every field kind -------
//
// RFC 1035 section 5.1: "\X where X is any character other than a digit
// (0-9), is used to quote that character so that its special meaning does
// not apply" and "\DDD where each D is a digit is the octet corresponding to
// the decimal number described by DDD.  The resulting octet is assumed to be
// text and is not checked for special meaning."  This is said of the
// character encoding of the file, not of names and character strings only:
// a data token in which one character is written `\X` / `\DDD` is the same
// token.  The other layout spaces apply these spellings to names and
// character strings; this space applies them to the remaining field kinds
// the reader decodes from text: Base16 fields (one token: NSEC3 salt;
// "whitespace is allowed within the hexadecimal text": DS / CDS / TLSA /
// SSHFP / ZONEMD digests and the RFC 3597 `\# n hex` words), Base64 and
// Base32hex fields, integer fields of the RDATA and the TTL, and mnemonic
// fields of the RDATA (type bitmap mnemonics, algorithm mnemonic).  The class
// and type words of the entry head are not rewritten (RFC 1035 leaves
// escaped class / type words open).
//
// Rewrites of one token: one character at every position written `\X` (any
// character but a decimal digit - a digit after a backslash would start a
// `\DDD`) or `\DDD` of its ASCII code, or every character written so; the
// token plain or quoted; fields that may be written as several words also
// cut into two words just before / just after the rewritten character (hex:
// at octet boundaries).  Oracle: exactly the logical records (hand-encoded
// wire of the record + sentinel), as for every other layout rewrite.

#[derive(Clone, Copy, PartialEq, Eq, Debug)]
enum FK {
    Fixed,
    Int,
    Mnem,
    Hex,
    HexWords,
    B64Words,
    B32,
}

struct ERec {
    mnem: &'static str,
    rtype: u16,
    /// RDATA tokens: (field name, plain text, kind)
    toks: Vec<(&'static str, String, FK)>,
    wire: Vec<u8>,
}

fn b32hex(data: &[u8]) -> String {
    const A: &[u8] = b"0123456789ABCDEFGHIJKLMNOPQRSTUV";
    let mut out = String::new();
    let (mut acc, mut bits) = (0u32, 0u32);
    for &b in data {
        acc = ((acc & 0xff) << 8) | b as u32;
        bits += 8;
        while bits >= 5 {
            bits -= 5;
            out.push(A[((acc >> bits) & 31) as usize] as char);
        }
    }
    if bits > 0 {
        out.push(A[((acc << (5 - bits)) & 31) as usize] as char);
    }
    out
}

fn e_menu() -> Vec<ERec> {
    let r = |mnem: &'static str, rtype: u16, toks: &[(&'static str, &str, FK)], wire: Vec<u8>| ERec { mnem, rtype, toks: toks.iter().map(|(f, t, k)| (*f, t.to_string(), *k)).collect(), wire };
    let hash: Vec<u8> = (0u8..20).map(|i| i.wrapping_mul(37).wrapping_add(0x5b)).collect();
    let h32 = b32hex(&hash);
    let mut nsec3 = vec![1, 0, 0, 10, 2, 0xab, 0x0c, 20];
    nsec3.extend_from_slice(&hash);
    nsec3.extend_from_slice(&[0, 3, 0x40, 0x00, 0x80]);
    let mut nsec = name_wire(&["a", "z"]);
    nsec.extend_from_slice(&[0, 3, 0x40, 0x00, 0x80]);
    let mut soa = name_wire(&["ns", "z"]);
    soa.extend(name_wire(&["h", "z"]));
    for n in [4021u32, 7200, 600, 86400, 30] {
        soa.extend_from_slice(&n.to_be_bytes());
    }
    let mut mx = vec![0, 10];
    mx.extend(name_wire(&["m", "z"]));
    let zd: Vec<u8> = (0u8..48).map(|i| i.wrapping_mul(29).wrapping_add(0xa7)).collect();
    let mut zonemd = vec![0, 0, 0x07, 0xe5, 1, 1];
    zonemd.extend_from_slice(&zd);
    // mixed case so that both letter cases are rewritten
    let zd_hex: String = hex(&zd).chars().enumerate().map(|(i, c)| if i % 3 == 0 { c.to_ascii_uppercase() } else { c }).collect();
    vec![
        r("DS", 43, &[("key-tag", "12345", FK::Int), ("algorithm", "8", FK::Int), ("digest-type", "2", FK::Int), ("digest", "0a1BcDeF", FK::HexWords)], vec![0x30, 0x39, 8, 2, 0x0a, 0x1b, 0xcd, 0xef]),
        r("CDS", 59, &[("key-tag", "12345", FK::Int), ("algorithm", "8", FK::Int), ("digest-type", "2", FK::Int), ("digest", "Fe0a", FK::HexWords)], vec![0x30, 0x39, 8, 2, 0xfe, 0x0a]),
        r("DNSKEY", 48, &[("flags", "256", FK::Int), ("protocol", "3", FK::Int), ("algorithm", "8", FK::Int), ("key", "AQIDBAUG", FK::B64Words)], vec![1, 0, 3, 8, 1, 2, 3, 4, 5, 6]),
        r("DNSKEY", 48, &[("flags", "257", FK::Int), ("protocol", "3", FK::Int), ("algorithm", "13", FK::Int), ("key", "q80+/w==", FK::B64Words)], vec![1, 1, 3, 13, 0xab, 0xcd, 0x3e, 0xff]),
        r("SSHFP", 44, &[("algorithm", "1", FK::Int), ("type", "1", FK::Int), ("fingerprint", "ab0C", FK::HexWords)], vec![1, 1, 0xab, 0x0c]),
        r("TLSA", 52, &[("usage", "3", FK::Int), ("selector", "1", FK::Int), ("matching", "1", FK::Int), ("data", "aB0cD2", FK::HexWords)], vec![3, 1, 1, 0xab, 0x0c, 0xd2]),
        r("ZONEMD", 63, &[("serial", "2021", FK::Int), ("scheme", "1", FK::Int), ("algorithm", "1", FK::Int), ("digest", &zd_hex, FK::HexWords)], zonemd),
        r("NSEC3", 50, &[("algorithm", "1", FK::Int), ("flags", "0", FK::Int), ("iterations", "10", FK::Int), ("salt", "aB0c", FK::Hex), ("next-hashed-owner", &h32, FK::B32), ("type-bitmap", "A", FK::Mnem), ("type-bitmap", "TXT", FK::Mnem)], nsec3),
        r("NSEC3PARAM", 51, &[("algorithm", "1", FK::Int), ("flags", "0", FK::Int), ("iterations", "10", FK::Int), ("salt", "aB0c", FK::Hex)], vec![1, 0, 0, 10, 2, 0xab, 0x0c]),
        r("NSEC", 47, &[("next", "a.z.", FK::Fixed), ("type-bitmap", "A", FK::Mnem), ("type-bitmap", "TXT", FK::Mnem)], nsec),
        r("TYPE65280", 65280, &[("generic-marker", "\\#", FK::Fixed), ("generic-length", "4", FK::Int), ("generic-data", "0a1BcDeF", FK::HexWords)], vec![0x0a, 0x1b, 0xcd, 0xef]),
        r("A", 1, &[("generic-marker", "\\#", FK::Fixed), ("generic-length", "4", FK::Int), ("generic-data", "C00002fa", FK::HexWords)], vec![192, 0, 2, 250]),
        r("MX", 15, &[("preference", "10", FK::Int), ("exchange", "m.z.", FK::Fixed)], mx),
        r("SOA", 6, &[("mname", "ns.z.", FK::Fixed), ("rname", "h.z.", FK::Fixed), ("serial", "4021", FK::Int), ("refresh", "7200", FK::Int), ("retry", "600", FK::Int), ("expire", "86400", FK::Int), ("minimum", "30", FK::Int)], soa),
    ]
}

const E_SPELLINGS: [&str; 4] = ["one-x-escape", "one-ddd-escape", "all-non-digits-x-escaped", "all-ddd-escaped"];
const E_SPLITS: [&str; 3] = ["one-word", "cut-before", "cut-after"];

/// The words of one rewritten token; None = this rewrite does not exist.
/// Spelling 0: the character at `p` (not a decimal digit) as `\X`; 1: the
/// character at `p` as `\DDD`; 2 (p = 0 only): every character that is not a
/// decimal digit as `\X`; 3 (p = 0 only): every character as `\DDD`.
fn e_token(tok: &str, kind: FK, p: usize, spelling: usize, quoted: bool, split: usize) -> Option<Vec<String>> {
    let b = tok.as_bytes();
    match spelling {
        0 if b[p].is_ascii_digit() => return None,
        2 if p != 0 || b.iter().all(|c| c.is_ascii_digit()) => return None,
        3 if p != 0 => return None,
        _ => {}
    }
    let cut = match split {
        0 => None,
        _ => {
            let at = match (kind, split) {
                (FK::HexWords, 1) => p & !1,
                (FK::HexWords, _) => (p + 2) & !1,
                (FK::B64Words, 1) => p,
                (FK::B64Words, _) => p + 1,
                _ => return None,
            };
            if at == 0 || at >= b.len() {
                return None;
            }
            Some(at)
        }
    };
    let word = |from: usize, to: usize| {
        let mut s = String::new();
        if quoted {
            s.push('"');
        }
        for i in from..to {
            let c = b[i];
            let (x, ddd) = match spelling {
                0 => (i == p, false),
                1 => (false, i == p),
                2 => (!c.is_ascii_digit(), false),
                _ => (false, true),
            };
            if x {
                s.push('\\');
                s.push(c as char);
            } else if ddd {
                s.push_str(&format!("\\{:03}", c));
            } else {
                s.push(c as char);
            }
        }
        if quoted {
            s.push('"');
        }
        s
    };
    Some(match cut {
        None => vec![word(0, b.len())],
        Some(at) => vec![word(0, at), word(at, b.len())],
    })
}

/// File of one E case: the token `ti` (0 = the TTL, 1.. = RDATA token ti-1) replaced by `words`.
fn e_text(rec: &ERec, ti: usize, words: Option<&[String]>) -> (String, Vec<Vec<u8>>) {
    let mut toks: Vec<String> = vec!["a".into(), "IN".into()];
    let put = |toks: &mut Vec<String>, i: usize, plain: &str| match words {
        Some(w) if i == ti => toks.extend(w.iter().cloned()),
        _ => toks.push(plain.to_string()),
    };
    put(&mut toks, 0, "60");
    toks.push(rec.mnem.to_string());
    for (i, (_, t, _)) in rec.toks.iter().enumerate() {
        put(&mut toks, i + 1, t);
    }
    let text = format!("$ORIGIN z.\n{}\n{}", toks.join(" "), G_SENTINEL);
    (text, vec![rec_wire(&["a", "z"], rec.rtype, 1, 60, &rec.wire), g_sentinel_entry()])
}

fn run_e(sh: &Shared, lc: &LayoutCounters, per_case_wd: bool) -> (u64, u64) {
    let menu = e_menu();
    let mut l = Local::default();
    let mut failing = 0u64;
    if !per_case_wd {
        sh.wd.enter(|| json!({"part": "layout-chunk", "space": "E"}));
    }
    for (ri, rec) in menu.iter().enumerate() {
        let (plain, expected) = e_text(rec, 0, None);
        l.evals += 1;
        l.nontrivial.push(fnv(plain.as_bytes()));
        if let Some((class, what)) = layout_verdict(&plain, &expected) {
            failing += 1;
            let sig = format!("C07|layout|E|type={}|plain|{class}", rec.mnem);
            sh.ctx.violation(&sig, &format!("{what}; plain rendering {plain:?}"), json!({"part": "layout", "space": "E", "rec": ri, "text": plain, "expected_hex": expected.iter().map(|e| hex(e)).collect::<Vec<_>>()}));
            continue;
        }
        for ti in 0..=rec.toks.len() {
            let (field, tok, kind) = if ti == 0 { ("ttl", "60".to_string(), FK::Int) } else { let t = &rec.toks[ti - 1]; (t.0, t.1.clone(), t.2) };
            if kind == FK::Fixed {
                continue;
            }
            let eval = |p: usize, s: usize, q: bool, split: usize| -> Option<(String, Option<(String, String)>)> {
                let words = e_token(&tok, kind, p, s, q, split)?;
                let (text, expected) = e_text(rec, ti, Some(&words));
                let v = layout_verdict(&text, &expected);
                Some((text, v))
            };
            for p in 0..tok.len() {
                for s in 0..4 {
                    for q in [false, true] {
                        for split in 0..3 {
                            let Some((text, v)) = eval(p, s, q, split) else { continue };
                            if per_case_wd {
                                sh.wd.enter(|| json!({"part": "layout", "space": "E", "text": text, "expected_hex": expected.iter().map(|e| hex(e)).collect::<Vec<_>>()}));
                                let _ = layout_verdict(&text, &expected);
                                sh.wd.leave();
                            }
                            l.evals += 1;
                            if !q && split == 0 {
                                l.nontrivial.push(fnv(text.as_bytes()));
                            }
                            l.bump(&format!("escaped-fields.E.renderings.{kind:?}.{}{}", E_SPELLINGS[s], if q { ".quoted" } else { "" }));
                            let Some((class, what)) = v else { continue };
                            failing += 1;
                            l.bump(&format!("escaped-fields.E.failing.{kind:?}.{}.{class}", E_SPELLINGS[s]));
                            // simplest rewrite of the same character that fails in the same way
                            let (mut mq, mut msplit, mut mtext) = (q, split, text.clone());
                            for (cq, cs) in [(false, 0), (q, 0), (false, split)] {
                                if (cq, cs) == (q, split) {
                                    break;
                                }
                                if let Some((t, Some((c2, _)))) = eval(p, s, cq, cs) {
                                    if c2 == class {
                                        (mq, msplit, mtext) = (cq, cs, t);
                                        break;
                                    }
                                }
                            }
                            // A decimal escape (\DDD) of a character inside a number, Base16, Base32hex or
                            // Base64 token is refused by the reader for every such field alike (one cause per
                            // field kind: Symbol::into_char / into_digit do not take decimal escapes); it is
                            // reported per field KIND. Everything else is reported per type and field.
                            let sig = if s == 1 || s == 3 {
                                format!("C07|layout|E|kind={kind:?}|decimal-escape-of-a-token-character|{class}", class = class.split(':').next().unwrap_or("?"))
                            } else {
                                format!("C07|layout|E|type={}|field={field}|kind={kind:?}|spelling={}|token={}|words={}|{class}", rec.mnem, E_SPELLINGS[s], if mq { "quoted" } else { "unquoted" }, E_SPLITS[msplit], class = class.split(':').next().unwrap_or("?"))
                            };
                            if first_in_thread(&sig) {
                                sh.ctx.violation(
                                    &sig,
                                    &format!("{what}; the plain spelling {plain:?} gives the logical records; rewritten character {:?} at position {p} of the {field} token; simplest failing rendering {mtext:?}", tok.as_bytes()[p] as char),
                                    json!({"part": "layout", "space": "E", "rec": ri, "token": ti, "position": p, "spelling": E_SPELLINGS[s], "quoted": q, "split": E_SPLITS[split], "text": text, "minimal_text": mtext, "expected_hex": expected.iter().map(|e| hex(e)).collect::<Vec<_>>()}),
                                );
                            }
                        }
                    }
                }
            }
        }
    }
    if !per_case_wd {
        sh.wd.leave();
    }
    let n = l.evals;
    lc.renderings.fetch_add(n, AO::Relaxed);
    lc.failing.fetch_add(failing, AO::Relaxed);
    sh.absorb(l);
    (n, failing)
}

// ===================================================================
// main
// ===================================================================

fn kinds_from(v: &Value) -> Vec<Kind> {
    v.as_array()
        .map(|a| a.iter().filter_map(|k| L1_KINDS.iter().copied().find(|x| Some(x.name()) == k.as_str())).collect())
        .unwrap_or_default()
}

fn replay(sh: &Shared, lc: &LayoutCounters, case: &Value) {
    let part = case["part"].as_str().unwrap_or("");
    match part {
        "bytes" | "bytes8" | "tokens" => {
            let prefix = case["prefix"].as_u64().unwrap_or(0) as usize;
            let items: Vec<u8> = case["items"].as_array().map(|a| a.iter().map(|x| x.as_u64().unwrap_or(0) as u8).collect()).unwrap_or_default();
            let wp = case["with_parsed"].as_bool().unwrap_or(false);
            let bytes = if part == "tokens" { render_tokens(prefix, &items) } else { render_bytes(prefix, &items) };
            println!("input: {:?}", String::from_utf8_lossy(&bytes));
            sh.wd.enter(|| case.clone());
            let ex = examine(&bytes, wp);
            println!("strict reader: {:?}", ex.a);
            println!("verdict: {:?}", ex.viol);
            let mut l = Local { part: part.to_string(), ..Default::default() };
            totality_case(sh, part, prefix, &items, wp, &mut l);
            sh.wd.leave();
            sh.absorb(l);
        }
        "bytes-chunk" | "bytes8-chunk" | "tokens-chunk" => {
            let p = part.strip_suffix("-chunk").unwrap_or("bytes");
            let alphabet = match p {
                "tokens" => TOKENS.len(),
                "bytes8" => ALPHA8.len(),
                _ => ALPHA.len(),
            };
            let prefix = case["prefix"].as_u64().unwrap_or(0) as usize;
            let len = case["len"].as_u64().unwrap_or(0) as usize;
            let mut l = Local { part: p.to_string(), ..Default::default() };
            for k in case["from"].as_u64().unwrap_or(0)..case["to"].as_u64().unwrap_or(0) {
                let mut items = Vec::new();
                let mut kk = k;
                for _ in 0..len {
                    let d = (kk % alphabet as u64) as u8;
                    items.push(match p {
                        "tokens" => d,
                        "bytes8" => ALPHA8[d as usize],
                        _ => ALPHA[d as usize],
                    });
                    kk /= alphabet as u64;
                }
                // per-case watchdog so that the hanging input is named
                sh.wd.enter(|| json!({"part": p, "prefix": prefix, "items": items, "with_parsed": false}));
                totality_case(sh, p, prefix, &items, false, &mut l);
                sh.wd.leave();
            }
            println!("chunk re-run: {} cases", l.evals);
            sh.absorb(l);
        }
        "layout" => {
            let text = case["text"].as_str().unwrap_or("").to_string();
            let expected: Vec<Vec<u8>> = case["expected_hex"].as_array().map(|a| a.iter().map(|h| unhex(h.as_str().unwrap_or(""))).collect()).unwrap_or_default();
            println!("rendering: {text:?}");
            sh.wd.enter(|| case.clone());
            let setup = case["setup"].as_u64().unwrap_or(0) as usize;
            let out = guard(|| read_all(reader_setup(text.as_bytes(), setup), text.len() + 2));
            println!("reader (setup {}): {out:?}", SETUP_NAMES[setup.min(2)]);
            let v = layout_verdict_setup(&text, &expected, setup);
            println!("verdict: {v:?}");
            sh.wd.leave();
            sh.stats.eval();
            if let Some((class, what)) = v {
                // re-derive the signature when the slot vector is known
                if case["space"].as_str() == Some("L1") && case["choices"].is_array() {
                    let c: Vec<usize> = case["choices"].as_array().unwrap().iter().map(|x| x.as_u64().unwrap_or(0) as usize).collect();
                    let kind = L1_KINDS.iter().copied().find(|k| Some(k.name()) == case["kind"].as_str()).unwrap_or(Kind::A);
                    l1_report(sh, case["owner"].as_u64().unwrap_or(0) as usize, kind, &c, &class, &what);
                } else if case["space"].as_str() == Some("L2") && case["choices"].is_array() && case["file"].is_array() {
                    let file: Vec<LRec> = case["file"]
                        .as_array()
                        .unwrap()
                        .iter()
                        .map(|r| LRec {
                            owner: r[0].as_u64().unwrap_or(0) as usize,
                            ttl: r[1].as_u64().unwrap_or(60) as u32,
                            kind: L1_KINDS.iter().copied().find(|k| Some(k.name()) == r[2].as_str()).unwrap_or(Kind::A),
                        })
                        .collect();
                    let ch: Vec<[usize; 5]> = case["choices"]
                        .as_array()
                        .unwrap()
                        .iter()
                        .map(|c| {
                            let mut a = [0usize; 5];
                            for (i, x) in c.as_array().map(|v| v.as_slice()).unwrap_or(&[]).iter().take(5).enumerate() {
                                a[i] = x.as_u64().unwrap_or(0) as usize;
                            }
                            a
                        })
                        .collect();
                    if l2_render(&file, &ch, setup).map(|r| r.text) == Some(text.clone()) {
                        l2_report(sh, &file, &ch, setup, &class, &what);
                    } else {
                        sh.ctx.violation(&format!("C07|layout|replay|{class}"), &what, case.clone());
                    }
                } else {
                    sh.ctx.violation(&format!("C07|layout|replay|{class}"), &what, case.clone());
                }
            }
        }
        "paren-damage" => {
            let text = case["text"].as_str().unwrap_or("").to_string();
            let expected: Vec<Vec<u8>> = case["expected_hex"].as_array().map(|a| a.iter().map(|h| unhex(h.as_str().unwrap_or(""))).collect()).unwrap_or_default();
            println!("input: {text:?}");
            sh.wd.enter(|| case.clone());
            println!("reader: {:?}", guard(|| read_all(reader_a(text.as_bytes()), text.len() + 2)));
            let v = p_damage_verdict(&text, &expected, case["entries_before"].as_u64().unwrap_or(1) as usize, case["lines_before"].as_u64().unwrap_or(0) as usize);
            println!("verdict: {v:?}");
            sh.wd.leave();
            sh.stats.eval();
            if let Some((class, what)) = v {
                let sig = format!("C07|layout|P-damage|extra={}|{}|{}", case["extra"].as_str().unwrap_or("?"), case["cause"].as_str().unwrap_or("?"), digits_to_hash(&class));
                sh.ctx.violation(&sig, &what, case.clone());
            }
        }
        "space" if case["space"].as_str() == Some("P") => {
            // the whole of space P (development / re-runs after a fix)
            let pc = PCounts { evals: AtomicU64::new(0), failing: AtomicU64::new(0), damage: AtomicU64::new(0), damage_failing: AtomicU64::new(0) };
            let t0 = std::time::Instant::now();
            run_p(sh, lc, &pc, case["tier"].as_str() != Some("thorough"), false, None);
            println!(
                "space P: {} renderings ({} failing), {} damaged inputs ({} failing), {:.1}s",
                pc.evals.load(AO::Relaxed),
                pc.failing.load(AO::Relaxed),
                pc.damage.load(AO::Relaxed),
                pc.damage_failing.load(AO::Relaxed),
                t0.elapsed().as_secs_f64()
            );
        }
        "layout-chunk" if case["space"].as_str() == Some("P") => {
            let n = |k: &str| case[k].as_u64().unwrap_or(0) as usize;
            let pc = PCounts { evals: AtomicU64::new(0), failing: AtomicU64::new(0), damage: AtomicU64::new(0), damage_failing: AtomicU64::new(0) };
            run_p(sh, lc, &pc, false, true, Some((n("kind_index"), n("form"), n("head"), case["first_group"].as_u64().map(|x| x as usize))));
        }
        "layout-chunk" if case["space"].as_str() == Some("E") => {
            run_e(sh, lc, true);
        }
        "layout-chunk" => {
            if case["space"].as_str() == Some("L1") {
                let h: Vec<usize> = case["head"].as_array().map(|a| a.iter().map(|x| x.as_u64().unwrap_or(0) as usize).collect()).unwrap_or_default();
                run_l1(sh, lc, true, Some((case["owner"].as_u64().unwrap_or(0) as usize, case["kind"].as_u64().unwrap_or(0) as usize, [h[0], h[1], h[2], h[3]])));
            } else {
                run_l2(sh, lc, case["n"].as_u64().unwrap_or(1) as usize, &kinds_from(&case["kinds"]), true, Some(case["file"].as_u64().unwrap_or(0) as usize));
            }
        }
        "limits" => {
            let st = |k: &str| case[k].as_str().unwrap_or("?").to_string();
            let c = LimitCase {
                text: case["text"].as_str().unwrap_or("").to_string(),
                expected: case["expected_hex"].as_array().map(|a| a.iter().map(|h| unhex(h.as_str().unwrap_or(""))).collect()),
                before: case["before_hex"].as_array().map(|a| a.iter().map(|h| unhex(h.as_str().unwrap_or(""))).collect()).unwrap_or_default(),
                family: st("family"),
                boundary: st("boundary"),
                kind: st("kind"),
                field: st("field"),
                detail: st("detail"),
            };
            println!("input: {:?}", c.text);
            sh.wd.enter(|| case.clone());
            println!("reader: {:?}", guard(|| read_all(reader_a(c.text.as_bytes()), c.text.len() + 2)));
            println!("reference: {}", if c.expected.is_some() { "within the limit, must be accepted" } else { "over the limit, must be rejected" });
            let v = limit_verdict(&c);
            println!("verdict: {v:?}");
            sh.wd.leave();
            sh.stats.eval();
            if let Some((class, what)) = v {
                // keep the signature of the run when the outcome class is the same
                let stored = st("signature");
                let sig = if stored.ends_with(&format!("|{class}")) {
                    stored
                } else {
                    format!("C07|limits|{}|{}|spelling={}|field={}|{class}", c.family, c.boundary, c.kind, c.field)
                };
                sh.ctx.violation(&sig, &what, case.clone());
            }
        }
        "zone" => {
            let text = case["text"].as_str().unwrap_or("").to_string();
            let canon_text = case["canonical_text"].as_str().unwrap_or("").to_string();
            sh.wd.enter(|| case.clone());
            let canon = observe_zone(&canon_text, 0);
            let o0 = observe_zone(&text, 0);
            let o1 = observe_zone(&text, 1);
            sh.wd.leave();
            sh.stats.eval();
            println!("canonical {canon_text:?}\n  -> {canon:?}\nrendering {text:?}\n  try_from -> {o0:?}\n  new+insert -> {o1:?}");
            let v = zone_diff_class(&canon, &o0).map(|c| ("layout", c)).or_else(|| zone_diff_class(&o0, &o1).map(|c| ("insert-route", c)));
            println!("verdict: {v:?}");
            if let Some((kind, class)) = v {
                let stored = case["signature"].as_str().unwrap_or("");
                let sig = if stored.starts_with(&format!("C07|zone-route|{kind}|{class}|")) { stored.to_string() } else { format!("C07|zone-route|{kind}|{class}|replay") };
                sh.ctx.violation(&sig, "zone route differs", case.clone());
            }
        }
        "zone-chunk" => {
            run_zone(sh, case["k"].as_u64().unwrap_or(1) as usize, true, Some(case["seq_index"].as_u64().unwrap_or(0) as usize));
        }
        "limits-chunk" => {
            run_limits(sh, true, Some((case["from"].as_u64().unwrap_or(0) as usize, case["to"].as_u64().unwrap_or(0) as usize)));
        }
        "generic" | "generic-chunk" => {
            if let Some(t) = case["text"].as_str() {
                println!("input: {t:?}");
                sh.wd.enter(|| case.clone());
                println!("reader: {:?}", guard(|| read_all(reader_a(t.as_bytes()), t.len() + 2)));
                println!("try_from + ZoneBuilder: {:?}", observe_zone_wire(t, 0));
                println!("new + insert + ZoneBuilder: {:?}", observe_zone_wire(t, 1));
                sh.wd.leave();
            }
            let n = |k: &str| case[k].as_u64().unwrap_or(0) as usize;
            match case["space"].as_str() {
                Some("G1") => {
                    run_g1(sh, true, Some((n("rec"), n("pos"))));
                }
                Some("G2") => {
                    run_g2(sh, n("k"), true, Some(n("seq_index")));
                }
                _ => {
                    run_g3(sh, true, Some(n("rec")));
                }
            }
        }
        _ => println!("unknown replay case"),
    }
}

fn main() {
    let ctx = Ctx::new("C07", "exploration");
    let wd = Watchdog::start(ctx.clone(), Duration::from_secs(120), |d| {
        let part = d["part"].as_str().unwrap_or("?");
        let part = part.strip_suffix("-chunk").unwrap_or(part);
        let part = if part == "zone" { "zone-route" } else { part };
        format!("C07|hang|{part}")
    });
    let sh = Shared { ctx: ctx.clone(), stats: Stats::new(), nontrivial: Mutex::new(Vec::new()), wd };
    let lc = LayoutCounters { renderings: AtomicU64::new(0), inadmissible: AtomicU64::new(0), failing: AtomicU64::new(0) };
    let quick = ctx.quick();
    let pc = PCounts { evals: AtomicU64::new(0), failing: AtomicU64::new(0), damage: AtomicU64::new(0), damage_failing: AtomicU64::new(0) };

    let (byte_len, tok_depth, parsed_tok_depth) = if quick { (5, 5, 3) } else { (6, 6, 4) };
    let byte8_len = if quick { 5 } else { 6 };

    let (mut limits_cases, mut limits_failing) = (0u64, 0u64);
    let (mut zone_cases, mut zone_failing) = (0u64, 0u64);
    let (mut generic_cases, mut generic_failing) = ([0u64; 3], 0u64);
    let mut escaped = (0u64, 0u64);
    if let Some(path) = &ctx.replay {
        let text = std::fs::read_to_string(path).expect("replay file");
        let v: Value = serde_json::from_str(&text).expect("replay json");
        replay(&sh, &lc, &v["case"]);
    } else {
        // --- totality
        let t0 = std::time::Instant::now();
        let lap = |what: &str| eprintln!("[c07] {what} done at {:.1}s", t0.elapsed().as_secs_f64());
        totality_space(&sh, "bytes", Some(&ALPHA[..]), ALPHA.len(), byte_len, 4, &[0, 1, 2, 3, 4]);
        lap("bytes");
        totality_space(&sh, "bytes8", Some(&ALPHA8[..]), ALPHA8.len(), byte8_len, 3, &[0, 1, 3, 4, 5]);
        lap("bytes8");
        totality_space(&sh, "tokens", None, TOKENS.len(), tok_depth, parsed_tok_depth, &[0, 1, 2]);
        lap("tokens");
        // --- layout independence
        run_l1(&sh, &lc, false, None);
        lap("layout L1");
        let all = [Kind::A, Kind::Txt, Kind::Soa, Kind::Mx, Kind::Unk];
        run_l2(&sh, &lc, 1, &all, false, None);
        run_l2(&sh, &lc, 2, &all, false, None);
        lap("layout L2 n<=2");
        if !quick {
            run_l2(&sh, &lc, 3, &[Kind::A, Kind::Txt], false, None);
            lap("layout L2 n=3");
        }
        run_p(&sh, &lc, &pc, quick, false, None);
        lap("layout P (groups)");
        escaped = run_e(&sh, &lc, false);
        lap("layout E (escaped / quoted tokens of hex, base64, base32hex, integer and mnemonic fields)");
        let (n, f) = run_limits(&sh, false, None);
        limits_cases = n;
        limits_failing = f;
        lap("limits x spelling");
        let (n, f) = run_zone(&sh, if quick { 2 } else { 3 }, false, None);
        zone_cases = n;
        zone_failing = f;
        lap("zone route");
        let (n1, f1) = run_g1(&sh, false, None);
        let (n2, f2) = run_g2(&sh, if quick { 2 } else { 3 }, false, None);
        let (n3, f3) = run_g3(&sh, false, None);
        generic_cases = [n1, n2, n3];
        generic_failing = f1 + f2 + f3;
        lap("generic renderings");
    }

    // samples
    sh.stats.sample(8, || json!({"part": "tokens", "prefix": 1, "text": String::from_utf8_lossy(&render_tokens(1, &[0, 3, 6, 14, 19])), "reader": format!("{:?}", examine(&render_tokens(1, &[0, 3, 6, 14, 19]), false).a)}));
    sh.stats.sample(8, || json!({"part": "bytes", "prefix": 2, "text": String::from_utf8_lossy(&render_bytes(2, b" a 1\n")), "reader": format!("{:?}", examine(&render_bytes(2, b" a 1\n"), false).a)}));
    if let Some(r) = l1_render(2, Kind::Soa, &[1, 1, 4, 3, 2, 9, 3, 2]) {
        sh.stats.sample(8, || json!({"part": "layout", "space": "L1", "text": r.text, "expected_hex": r.expected.iter().map(|e| hex(e)).collect::<Vec<_>>(), "verdict": format!("{:?}", layout_verdict(&r.text, &r.expected))}));
    }
    let f = [LRec { owner: 1, ttl: 60, kind: Kind::Txt }, LRec { owner: 1, ttl: 3600, kind: Kind::Mx }];
    if let Some(r) = l2_render(&f, &[[0, 0, 1, 0, 2], [2, 0, 2, 4, 3]], 0) {
        sh.stats.sample(8, || json!({"part": "layout", "space": "L2", "text": r.text, "expected_hex": r.expected.iter().map(|e| hex(e)).collect::<Vec<_>>(), "verdict": format!("{:?}", layout_verdict(&r.text, &r.expected))}));
    }

    let mut nt = std::mem::take(&mut *sh.nontrivial.lock().unwrap());
    nt.sort_unstable();
    nt.dedup();
    sh.stats.distinct_many(nt);

    let counters = sh.stats.counters_json();
    let outcome_kinds = counters.as_object().map(|o| o.keys().filter(|k| k.contains(".end.")).count()).unwrap_or(0);
    ctx.finish(
        json!({
            "evaluations": sh.stats.evals(),
            "distinct_nontrivial": sh.stats.distinct_count(),
            "rule": "distinct inputs (FNV-1a of the text) that are either a totality case in which the strict reader returned at least one entry from the enumerated body and then had to decide more (a further entry or an error), or a layout rendering in the base style (L1: separator=space,line-end=lf,no sentinel; L2 with <=2 records: all records in plain style; P: every grouping structure written on one line), a limits-x-spelling case (L3, all of them), or a zone-route rendering with all record slots canonical; the remaining renderings are counted in evaluations only",
            "exhaustive": ctx.replay.is_none(),
            "bounds": {"byte_alphabet": String::from_utf8_lossy(ALPHA), "byte_len": byte_len,
                       "byte8_alphabet_hex": hex(ALPHA8), "byte8_len": byte8_len, "byte8_prefixes": [PREFIXES[0], PREFIXES[1], PREFIXES[3], PREFIXES[4], PREFIXES[5]],
                       "second_reader": "built by hash of the input through load / default+reserve+extend_from_slice x2 / From<&str> / new+BufMut::put_slice, always allow_invalid", "token_menu": TOKENS, "token_depth": tok_depth,
                       "parsed_try_from_depth": {"bytes": 4, "tokens": parsed_tok_depth}, "prefixes_bytes": &PREFIXES[..5], "prefixes_tokens": &PREFIXES[..3],
                       "layout_L1": "3 owners x 10 kinds (A, TXT, SOA, MX, TYPE65280, MX to origin, $INCLUDE, NSEC, NSEC3, SVCB), slots dollar-ttl(2) x owner(5) x class-ttl(5) x data-form(<=6) x separator(3) x continuation(1+4*gaps) x line-end(9) x sentinel(3)",
                       "layout_P": format!("parenthesised groups (RFC 1035 5.1): file $ORIGIN + context record + record + sentinel; record = 11 kinds (A, TXT, TXT with parentheses inside quoted / \\X / \\DDD strings, SOA, MX, TYPE65280 generic, $INCLUDE, NSEC, NSEC3, SVCB, MX to @) in 1-3 data forms x head (inherited owner + class + TTL, owner + TTL + class, owner only); structure = every family of <= {} groups '(' before token i .. ')' before token j (i = j: empty group) that are pairwise disjoint or nested (depth <= 3), i from the first boundary after the owner field / the leading blank (so also before class, TTL and type) to the boundary after the last token{}; filling = one line | no white space next to any parenthesis | every position inside a group filled with each of 7 fillers (lf, comment+lf, blank line, comment line containing ) ( and a quote, crlf, attached comment+lf, tab lf space) | one inside position at a time filled with each of the 7 fillers (three groups: {}){}; oracle: exactly the logical records. Damage: every structure of <= {} groups, on one line and with a line feed at every inside position, one '(' or ')' too many at every position (the neighbouring separator on either side): the reader ends with an error with a position inside the input, does not panic, both construction paths agree, and returns no more entries than logical lines end before the damage (depth counted by the harness)",
                                           if quick { "3 for entries with <= 8 token boundaries, else 2" } else { "3" },
                                           "",
                                           if quick { "lf only" } else { "all 7" },
                                           if quick { "" } else { " | two inside positions at a time x {lf, comment+lf}^2 for <= 2 groups" },
                                           if quick { "2 for entries with <= 8 token boundaries, else 1" } else { "2" }),
                       "layout_E": "escaped / quoted spellings of the tokens of the remaining field kinds (RFC 1035 5.1 \\X and \\DDD hold for every token): file $ORIGIN + record + sentinel; 14 records (DS, CDS, DNSKEY with algorithm number / mnemonic, SSHFP, TLSA, ZONEMD, NSEC3, NSEC3PARAM, NSEC, TYPE65280 and A as \\# n hex, MX, SOA); every token of kind integer (TTL, key tag, algorithm, flags, iterations, preference, serial.., generic length), mnemonic (type bitmap, algorithm), Base16 (salt; digests / fingerprints / generic data, mixed case), Base64 (key incl. + / and = padding), Base32hex (next hashed owner) x every character position x {\\X (non-digits), \\DDD, all characters escaped} x {unquoted, quoted} x {one word, cut into two words before / after the rewritten character where white space is allowed within the field (hex at octet boundaries)}; oracle: exactly the logical records (hand-encoded wire)",
                       "limits_L3": "label length {1,62,63,64,65} x {plain, one \\DDD / \\X / escaped dot at every octet, all \\DDD} x label {alone,first,middle,last} x {relative,absolute} x {owner, MX exchange, SOA mname, SOA rname, $ORIGIN, $INCLUDE origin}; name wire length {254,255,256} x {4 long labels, 125 one-octet labels} x {relative,absolute} x {plain, all \\DDD, one \\DDD / \\X in first/middle/last label at first/last octet} x {owner, MX exchange, $ORIGIN, $INCLUDE origin}; character string length {0,1,254,255,256} x {unquoted, quoted} x {plain, all \\DDD, one \\DDD / \\X / space / escaped quote at every octet} x {TXT only/first/second string, HINFO cpu/os}; integers {0,max-1,max,max+1,max+10,next power of ten,10*max(,99999999999)} x {plain, 1 or 3 leading zeros} x {TTL after/before/without class, $TTL, SOA serial/refresh/retry/expire/minimum, MX preference, SSHFP algorithm/type}; TTL-typed fields use 2^31-1 as the largest value that must be accepted and 2^32 as the smallest that must be rejected",
                       "zone_route_Z": if quick { "SOA + every sequence of <= 2 records from a 10-record menu (apex NS, A, TXT, second A, cut NS, glue A, DS, CNAME, A next to the CNAME, out-of-zone A); renderings SOA owner(2) x style(2), per record owner(3) x class-ttl(2) x style(2); routes try_from and new+set_origin+insert" } else { "SOA + every sequence of <= 3 records from a 10-record menu (apex NS, A, TXT, second A, cut NS, glue A, DS, CNAME, A next to the CNAME, out-of-zone A); renderings SOA owner(2) x style(2), per record owner(3) x class-ttl(2) x style(2); routes try_from and new+set_origin+insert" },
                       "generic_G": if quick { GENERIC_COVERAGE.replace("<K>", "2") } else { GENERIC_COVERAGE.replace("<K>", "3") },
                       "layout_L2_setup": "files of <= 2 records with all records in plain style are also read without the $ORIGIN line after set_origin(z.), and after set_origin(z.) + set_default_class(IN) (class may then be omitted from the first record on)",
                       "layout_L2": if quick { "files of 1 and 2 records over 3 owners x ttl{60,3600} x {A,TXT,SOA,MX,TYPE65280}; per record $TTL(3) x $ORIGIN-change(2, before record 2) x owner(3) x class-ttl(5) x style(4)" } else { "files of 1 and 2 records over 3 owners x ttl{60,3600} x {A,TXT,SOA,MX,TYPE65280} and of 3 records over 3 owners x ttl{60,3600} x {A,TXT}; per record $TTL(3) x $ORIGIN-change(2, before record 2) x owner(3) x class-ttl(5) x style(4)" }},
            "generic_renderings": {"G1": generic_cases[0], "G2": generic_cases[1], "G3_damaged": generic_cases[2]},
            "generic_failing": generic_failing,
            "zone_route_renderings": zone_cases,
            "zone_route_failing": zone_failing,
            "limits_cases": limits_cases,
            "limits_failing_cases": limits_failing,
            "escaped_field_renderings": escaped.0,
            "escaped_field_failing_renderings": escaped.1,
            "paren_group_renderings": pc.evals.load(AO::Relaxed),
            "paren_group_failing_renderings": pc.failing.load(AO::Relaxed),
            "paren_damage_cases": pc.damage.load(AO::Relaxed),
            "paren_damage_failing_cases": pc.damage_failing.load(AO::Relaxed),
            "layout_renderings_parsed": lc.renderings.load(AO::Relaxed),
            "layout_renderings_rejected_by_reference_semantics": lc.inadmissible.load(AO::Relaxed),
            "layout_failing_renderings": lc.failing.load(AO::Relaxed),
            "distinct_end_kinds": outcome_kinds,
            "counters": counters,
            "samples": sh.stats.samples(),
        }),
        &[
            "inputs are bounded: bytes over a 14-symbol alphabet, token strings over a 26-token menu, layout rewrites from the listed per-slot menus; longer inputs and other octets (e.g. non-ASCII, UTF-8 sequences) are not covered",
            "layout rewrites used are those whose equivalence follows from RFC 1035 5.1 and RFC 2308 4: omitted TTL = $TTL if a $TTL directive precedes, else last explicitly stated TTL; omitted class = last explicitly stated class; blank owner = last stated owner; files whose first record omits the TTL without $TTL, or omits the class, are not part of the relation",
            "parentheses are set off by white space in the layout renderings of L1, L2, Z and G; space P also writes every grouping without any white space next to the parentheses; a parenthesis before the owner field / a directive name is not part of the relation (RFC 1035 does not say whether the owner field may be grouped)",
            "space P, damage part: an end of file inside an open group and a ')' without '(' are taken to be errors (RFC 1035 5.1 defines parentheses only as pairs grouping data across line boundaries)",
            "limits: the limit cases are not combined with escaped digits (space E rewrites the digits of integer fields at their ordinary values); quoted domain names and escaped characters in the class / type words of the entry head are not part of the relation (RFC 1035 does not give them a meaning); TTL values between 2^31 and 2^32-1 are left to the implementation (RFC 2181 section 8)",
            "hang detection is a 120 s wall-clock watchdog per chunk of <=4096 cases",
        ],
    );
}
