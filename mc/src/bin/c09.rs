//! C09 (a) — readers see one committed version; commits atomic, aborts invisible.
//!
//! seqx at operation granularity: BFS over ALL interleavings of one writer
//! (successive writers allowed) and two readers to a depth bound, executed by
//! replay on the real in-memory zone. Oracles are differential:
//!  * stability: a reader's observation vector never changes while held;
//!  * visibility: a reader acquired after a commit walks exactly the
//!    committed content and finds every committed RRset;
//!  * aborts: nothing of an abandoned write is ever visible.
use domain::base::iana::Rtype;
use domain::zonetree::{ReadableZone, WritableZone, WritableZoneNode, Zone};
use mc::zfix::*;
use mc::*;
use rayon::prelude::*;
use serde_json::{json, Value};
use std::collections::{BTreeSet, HashSet};

#[derive(Clone, Copy, Debug, PartialEq, Eq, Hash, PartialOrd, Ord)]
enum Op {
    WOpen,
    /// open(create_diff = true)
    WOpenDiff,
    WUpd(u8, u8), // name index, value
    WRm(u8),
    WRemoveAll,
    /// turn name "c" into a CNAME (a node "special", versioned separately from the RRsets)
    WCname,
    /// commit(bump_soa_serial = true): the SOA serial of the new version is the old one + 1
    WCommitBump,
    WCommit,
    WCommitKeepNode,
    /// commit(), then open() again on the same WritableZone: the next batch of a
    /// multi-batch update (what ZoneUpdater does at every IXFR batch)
    WCommitReopen,
    /// a second writer asks for the zone (Zone::write() polled once): it must not
    /// be admitted while the first writer is still there
    W2Try,
    /// commit() of a diff-collecting writer while a node handle is still alive:
    /// the documented `arc_into_inner(diff).unwrap()` panic unwinds out of
    /// commit(); the writer dies by unwinding = a crash point inside commit
    WCommitFault,
    WStaleUpd(u8, u8),
    WDrop,
    RAcq(u8),
    RObs(u8),
    RRel(u8),
}

const NAMES: [&str; 3] = ["a", "b.a", "c"];
const QNAMES: [&str; 6] = ["a", "b.a", "c", "x.a", "y.b.a", "*.a"];

#[derive(Clone, Debug, PartialEq, Eq, Hash, PartialOrd, Ord)]
struct Model {
    committed: Vec<Content>,
    working: Option<Content>,
    diff_mode: bool,
    stale_node: bool,
    stale_written: bool,
    readers: [Option<usize>; 2],
    /// nodes that exist in the tree (never removed)
    nodes: BTreeSet<RelName>,
    reader_nodes: [BTreeSet<RelName>; 2],
}

struct Real {
    zone: Zone,
    rt: tokio::runtime::Runtime,
    writer: Option<(Box<dyn WritableZone>, Option<Box<dyn WritableZoneNode>>)>,
    stale: Option<Box<dyn WritableZoneNode>>,
    readers: [Option<(Box<dyn ReadableZone>, Obs)>; 2],
}

#[derive(Clone, PartialEq, Eq, Debug)]
struct Obs {
    answers: Vec<Observed>,
    walk: BTreeSet<(Vec<u8>, u16, Vec<u8>)>,
}

fn observe(r: &dyn ReadableZone) -> Obs {
    Obs { answers: QNAMES.iter().map(|q| query(r, &rel(q), Rtype::A)).collect(), walk: walk(r).0 }
}

fn initial_content() -> Content {
    let mut c = Content::base(1);
    c.add("a", Rd::A(1));
    c.add("*.a", Rd::A(9));
    c
}

fn nodes_of(c: &Content) -> BTreeSet<RelName> {
    let mut s = BTreeSet::new();
    for (n, d) in &c.names {
        if !d.is_empty() {
            for i in 1..=n.len() {
                s.insert(n[..i].to_vec());
            }
        }
    }
    s
}

fn enabled(m: &Model, op: Op, thorough: bool) -> bool {
    match op {
        Op::WOpen | Op::WOpenDiff => m.working.is_none(),
        Op::WCommitFault => m.working.is_some() && m.diff_mode,
        Op::WCommitReopen => m.working.is_some() && !m.diff_mode,
        Op::W2Try => m.working.is_some(),
        Op::WUpd(..) | Op::WRm(_) | Op::WRemoveAll | Op::WCommit | Op::WDrop | Op::WCname => m.working.is_some(),
        Op::WCommitBump => m.working.is_some() && !m.diff_mode,
        Op::WCommitKeepNode => thorough && m.working.is_some() && !m.stale_node && !m.diff_mode, // with a diff this is WCommitFault
        Op::WStaleUpd(..) => m.stale_node,
        Op::RAcq(i) => m.readers[i as usize].is_none(),
        Op::RObs(i) | Op::RRel(i) => m.readers[i as usize].is_some(),
    }
}

struct Viol {
    sig: String,
    what: String,
}

/// Apply `op` to model and real state; check oracles.
fn step(m: &mut Model, r: &mut Real, op: Op, out: &mut Vec<Viol>) {
    match op {
        Op::WOpen | Op::WOpenDiff => {
            let w = r.rt.block_on(r.zone.write());
            let node = r.rt.block_on(w.open(op == Op::WOpenDiff)).unwrap();
            r.writer = Some((w, Some(node)));
            m.working = Some(m.committed.last().unwrap().clone());
            m.diff_mode = op == Op::WOpenDiff;
        }
        Op::WCommitFault => {
            let (mut w, node) = r.writer.take().unwrap();
            let rtm = &r.rt;
            let res = std::panic::catch_unwind(std::panic::AssertUnwindSafe(|| rtm.block_on(w.commit(false)).map(|_| ())));
            // the writer dies here, by unwinding or (if commit came back) normally
            drop(w);
            drop(node);
            match res {
                Ok(Ok(())) => m.committed.push(m.working.take().unwrap()), // no fault: an ordinary commit
                Ok(Err(_)) | Err(_) => m.working = None,                   // commit never happened
            }
            m.diff_mode = false;
        }
        Op::WCname => {
            let name = rel("c");
            let (_, node) = r.writer.as_ref().unwrap();
            let apex = node.as_ref().unwrap();
            let old = m.working.clone().unwrap();
            let mut new = old.clone();
            new.names.insert(name.clone(), [Rd::Cname].into_iter().collect());
            r.rt.block_on(write_name(apex.as_ref(), &new, Some(&old), &name));
            m.working = Some(new);
            for i in 1..=name.len() {
                m.nodes.insert(name[..i].to_vec());
            }
        }
        Op::WUpd(n, v) if m.working.as_ref().unwrap().names.get(&rel(NAMES[n as usize])).map(|s| s.contains(&Rd::Cname)).unwrap_or(false) => {
            // the name is a CNAME in the working version: back to a regular node, then the data
            let name = rel(NAMES[n as usize]);
            let (_, node) = r.writer.as_ref().unwrap();
            let apex = node.as_ref().unwrap();
            let old = m.working.clone().unwrap();
            let mut new = old.clone();
            new.names.insert(name.clone(), [Rd::A(v)].into_iter().collect());
            r.rt.block_on(write_name(apex.as_ref(), &new, Some(&old), &name));
            m.working = Some(new);
        }
        Op::WRm(n) if m.working.as_ref().unwrap().names.get(&rel(NAMES[n as usize])).map(|s| s.contains(&Rd::Cname)).unwrap_or(false) => {
            let name = rel(NAMES[n as usize]);
            let (_, node) = r.writer.as_ref().unwrap();
            let apex = node.as_ref().unwrap();
            let old = m.working.clone().unwrap();
            let mut new = old.clone();
            new.names.remove(&name);
            r.rt.block_on(write_name(apex.as_ref(), &new, Some(&old), &name));
            m.working = Some(new);
        }
        Op::WUpd(n, v) => {
            let name = rel(NAMES[n as usize]);
            let (_, node) = r.writer.as_ref().unwrap();
            let apex = node.as_ref().unwrap();
            r.rt.block_on(async {
                let nd = node_for(apex.as_ref(), &name).await.unwrap();
                nd.update_rrset(rrset_of(&[Rd::A(v)])).await.unwrap();
                // the writer reads its own uncommitted write back
                match nd.get_rrset(Rtype::A).await {
                    Ok(Some(rs)) if rs.data().len() == 1 => {}
                    other => out.push(Viol { sig: "C09|writer|get_rrset-does-not-return-its-own-write".into(), what: format!("after update_rrset the writer's get_rrset(A) gave {:?}", other.map(|o| o.map(|r| r.data().len()))) }),
                }
            });
            let w = m.working.as_mut().unwrap();
            let set = w.names.entry(name.clone()).or_default();
            set.retain(|x| !matches!(x, Rd::A(_)));
            set.insert(Rd::A(v));
            for i in 1..=name.len() {
                m.nodes.insert(name[..i].to_vec());
            }
        }
        Op::WRm(n) => {
            let name = rel(NAMES[n as usize]);
            let (_, node) = r.writer.as_ref().unwrap();
            let apex = node.as_ref().unwrap();
            r.rt.block_on(async {
                let nd = node_for(apex.as_ref(), &name).await.unwrap();
                nd.remove_rrset(Rtype::A).await.unwrap();
            });
            let w = m.working.as_mut().unwrap();
            if let Some(set) = w.names.get_mut(&name) {
                set.retain(|x| !matches!(x, Rd::A(_)));
            }
            for i in 1..=name.len() {
                m.nodes.insert(name[..i].to_vec());
            }
        }
        Op::WRemoveAll => {
            let (_, node) = r.writer.as_ref().unwrap();
            r.rt.block_on(node.as_ref().unwrap().remove_all()).unwrap();
            m.working.as_mut().unwrap().names.clear();
        }
        Op::WCommitBump => {
            let (mut w, node) = r.writer.take().unwrap();
            drop(node);
            r.rt.block_on(w.commit(true)).unwrap();
            drop(w);
            let mut c = m.working.take().unwrap();
            let soa_of = |c: &Content| c.names.get(&vec![]).and_then(|s| s.iter().find_map(|r| if let Rd::Soa(x) = r { Some(*x) } else { None }));
            // documented: if the published version has a SOA and the new version has none or the
            // same one, the new version gets that SOA with the serial increased by one
            if let Some(old) = soa_of(m.committed.last().unwrap()) {
                if soa_of(&c).is_none() || soa_of(&c) == Some(old) {
                    let apex = c.names.entry(vec![]).or_default();
                    apex.retain(|r| !matches!(r, Rd::Soa(_)));
                    apex.insert(Rd::Soa(old.wrapping_add(1)));
                }
            }
            m.committed.push(c);
            m.diff_mode = false;
        }
        Op::WCommit | Op::WCommitKeepNode => {
            let (mut w, node) = r.writer.take().unwrap();
            if op == Op::WCommitKeepNode {
                r.stale = node;
                m.stale_node = true;
            } else {
                drop(node);
            }
            r.rt.block_on(w.commit(false)).unwrap();
            drop(w);
            m.committed.push(m.working.take().unwrap());
            m.diff_mode = false;
        }
        Op::WCommitReopen => {
            let (mut w, node) = r.writer.take().unwrap();
            drop(node);
            r.rt.block_on(w.commit(false)).unwrap();
            let node = r.rt.block_on(w.open(false)).unwrap();
            r.writer = Some((w, Some(node)));
            let c = m.working.clone().unwrap();
            m.committed.push(c);
        }
        Op::W2Try => {
            use futures_util::FutureExt;
            let second = {
                let _g = r.rt.enter();
                r.zone.write().now_or_never()
            };
            if let Some(w2) = second {
                drop(w2);
                out.push(Viol {
                    sig: "C09|writers-not-serialised|second-writer-admitted-while-the-first-is-still-open".into(),
                    what: format!("Zone::write() completed for a second writer although the first writer (working on top of version {}) has neither finished nor been dropped", m.committed.len() - 1),
                });
            }
        }
        Op::WStaleUpd(n, v) => {
            // a write through a node handle obtained before the commit: nothing
            // committed afterwards, so no reader (old or new) may ever see it
            let name = rel(NAMES[n as usize]);
            let apex = r.stale.as_ref().unwrap();
            r.rt.block_on(async {
                let nd = node_for(apex.as_ref(), &name).await.unwrap();
                nd.update_rrset(rrset_of(&[Rd::A(v)])).await.unwrap();
            });
            for i in 1..=name.len() {
                m.nodes.insert(name[..i].to_vec());
            }
            m.stale_written = true;
        }
        Op::WDrop => {
            let (w, node) = r.writer.take().unwrap();
            drop(node);
            drop(w);
            m.working = None;
            m.diff_mode = false;
        }
        Op::RAcq(i) => {
            let rd = r.zone.read();
            let obs = observe(rd.as_ref());
            let k = m.committed.len() - 1;
            m.readers[i as usize] = Some(k);
            m.reader_nodes[i as usize] = m.nodes.clone();
            // visibility: exactly the last committed content
            let c = &m.committed[k];
            let want = content_as_walk(c);
            if obs.walk != want {
                let stale_write = m.stale_node;
                out.push(Viol {
                    sig: format!("C09|new-reader|walk-differs-from-last-committed-version|missing={}|extra={}|after-stale-node-write={}", (want.difference(&obs.walk).count() > 0) as u8, (obs.walk.difference(&want).count() > 0) as u8, stale_write),
                    what: format!("reader acquired at version {k} walks {} records, committed content has {}", obs.walk.len(), want.len()),
                });
            }
            // the CNAME state of a name is a node "special" with its own version history
            let want_cname = !c.rrset(&rel("c"), Rtype::CNAME).is_empty();
            if (obs.answers[2].kind() == Kind::Cname) != want_cname {
                out.push(Viol { sig: format!("C09|new-reader|cname-state-differs-from-committed-version|committed-is-cname={want_cname}"), what: format!("reader at version {k}: c/A answered as {:?} but the committed version has CNAME at c: {want_cname}", obs.answers[2].kind()) });
            }
            for (qi, q) in QNAMES.iter().enumerate() {
                let own = c.rrset(&rel(q), Rtype::A);
                let got: BTreeSet<Vec<u8>> = obs.answers[qi].answer.iter().filter(|x| x.1 == 1).map(|x| x.2.clone()).collect();
                let _ = own;
                // Whether the right answer kind is given is C08's business (and has
                // known findings there). Here: whatever data is served must be held
                // by the committed content, never by uncommitted or abandoned work.
                let all: BTreeSet<Vec<u8>> = c.records().iter().filter(|(_, r)| matches!(r, Rd::A(_))).map(|(_, r)| r.wire()).collect();
                if !got.is_subset(&all) {
                    out.push(Viol { sig: format!("C09|new-reader|serves-data-not-in-committed-version|after-stale-node-write={}", m.stale_node), what: format!("reader at version {k}: {q}/A answers {:?} which no committed record holds", got) });
                }
            }
            r.readers[i as usize] = Some((rd, obs));
        }
        Op::RObs(i) => {
            let (rd, first) = r.readers[i as usize].as_ref().unwrap();
            let now = observe(rd.as_ref());
            if &now != first {
                // classify
                let pinned_nodes = &m.reader_nodes[i as usize];
                for (qi, q) in QNAMES.iter().enumerate() {
                    if now.answers[qi] != first.answers[qi] {
                        let qn = rel(q);
                        let created = (1..=qn.len()).any(|k| {
                            let p = qn[..k].to_vec();
                            !pinned_nodes.contains(&p) && m.nodes.contains(&p)
                        });
                        let (a, b) = (first.answers[qi].kind(), now.answers[qi].kind());
                        let only_shape = now.answers[qi].answer.is_empty() && b != Kind::Data;
                        if created && only_shape && matches!(b, Kind::NoData | Kind::NxDomain) {
                            out.push(Viol {
                                sig: format!("C09|pinned-reader|observation-changed|cause=node-created-by-later-writer-is-unversioned|->{:?}", b),
                                what: format!("reader pinned at version {}: {q}/A was {:?}, is now {:?} after a later writer created the node (no commit needed)", m.readers[i as usize].unwrap(), a, b),
                            });
                        } else {
                            out.push(Viol {
                                sig: format!("C09|pinned-reader|observation-changed|{:?}->{:?}|node-created={}|stale-node-write={}", a, b, created, m.stale_node),
                                what: format!("reader pinned at version {}: {q}/A was {:?} with {:?}, is now {:?} with {:?}", m.readers[i as usize].unwrap(), a, first.answers[qi].answer, b, now.answers[qi].answer),
                            });
                        }
                    }
                }
                if now.walk != first.walk {
                    out.push(Viol { sig: format!("C09|pinned-reader|walk-changed|stale-node-write={}", m.stale_node), what: format!("reader pinned at version {}: walk() had {} records, now {}", m.readers[i as usize].unwrap(), first.walk.len(), now.walk.len()) });
                }
            }
        }
        Op::RRel(i) => {
            r.readers[i as usize] = None;
            m.readers[i as usize] = None;
        }
    }
}

fn parse_op(t: &str) -> Op {
    let nums: Vec<u8> = t.split(|c: char| !c.is_ascii_digit()).filter(|x| !x.is_empty()).map(|x| x.parse().unwrap()).collect();
    let head = t.split('(').next().unwrap();
    match head {
        "WOpen" => Op::WOpen,
        "WOpenDiff" => Op::WOpenDiff,
        "WUpd" => Op::WUpd(nums[0], nums[1]),
        "WRm" => Op::WRm(nums[0]),
        "WRemoveAll" => Op::WRemoveAll,
        "WCname" => Op::WCname,
        "WCommitBump" => Op::WCommitBump,
        "WCommit" => Op::WCommit,
        "WCommitKeepNode" => Op::WCommitKeepNode,
        "WCommitFault" => Op::WCommitFault,
        "WCommitReopen" => Op::WCommitReopen,
        "W2Try" => Op::W2Try,
        "WStaleUpd" => Op::WStaleUpd(nums[0], nums[1]),
        "WDrop" => Op::WDrop,
        "RAcq" => Op::RAcq(nums[0]),
        "RObs" => Op::RObs(nums[0]),
        "RRel" => Op::RRel(nums[0]),
        _ => panic!("unknown operation {t} in replay file"),
    }
}

fn fresh() -> (Model, Real) {
    let c = initial_content();
    let zone = build_direct(&c, false);
    let m = Model { committed: vec![c.clone()], working: None, diff_mode: false, stale_node: false, stale_written: false, readers: [None, None], nodes: nodes_of(&c), reader_nodes: [BTreeSet::new(), BTreeSet::new()] };
    (m, Real { zone, rt: rt(), writer: None, stale: None, readers: [None, None] })
}

fn replay(hist: &[Op], out: &mut Vec<Viol>) -> (Model, Real) {
    let (mut m, mut r) = fresh();
    for (i, op) in hist.iter().enumerate() {
        let mut sink = Vec::new();
        step(&mut m, &mut r, *op, if i + 1 == hist.len() { out } else { &mut sink });
    }
    if m.stale_written {
        // one class: everything observed after a write through a node handle
        // that was kept across commit
        for v in out.iter_mut() {
            if !v.sig.contains("cause=node-created") {
                v.what = format!("{} [{}]", v.what, v.sig);
                v.sig = "C09|write-through-node-handle-kept-across-commit|modifies-a-published-version".into();
            }
        }
    }
    (m, r)
}

/// canonical digest of the real zone's private state (version vectors included)
fn zone_digest(r: &Real) -> u64 {
    let s = format!("{:#?}", r.zone);
    let mut lines: Vec<&str> = s.lines().map(|l| l.trim()).collect();
    lines.sort();
    fnv(lines.join("\n").as_bytes())
}

fn main() {
    let ctx = Ctx::new("C09", "model_checking");
    let stats = Stats::new();
    let thorough = !ctx.quick();
    let mut ops: Vec<Op> = vec![Op::WOpen, Op::WOpenDiff, Op::WUpd(0, 2), Op::WUpd(1, 3), Op::WUpd(2, 4), Op::WRm(0), Op::WRemoveAll, Op::WCname, Op::WCommitBump, Op::WCommit, Op::WCommitFault, Op::WCommitReopen, Op::W2Try, Op::WDrop, Op::RAcq(0), Op::RObs(0), Op::RRel(0), Op::RAcq(1), Op::RObs(1)];
    if thorough {
        ops.extend([Op::WUpd(0, 5), Op::WRm(1), Op::WCommitKeepNode, Op::WStaleUpd(0, 7), Op::WStaleUpd(2, 8), Op::RRel(1)]);
    }
    let depth = if thorough { 8 } else { 7 };

    if let Some(p) = &ctx.replay {
        // replay one stored history on a fresh real zone, without the explorer
        let v: Value = serde_json::from_str(&std::fs::read_to_string(p).expect("replay")).expect("json");
        let hist: Vec<Op> = v["case"]["ops"].as_array().expect("ops").iter().map(|o| parse_op(o.as_str().unwrap())).collect();
        println!("replaying {} operations: {:?}", hist.len(), hist);
        for n in 1..=hist.len() {
            let mut viol = Vec::new();
            match guard(|| {
                replay(&hist[..n], &mut viol);
            }) {
                Ok(()) => {}
                Err(p) => viol.push(Viol { sig: format!("C09|panic|{}", panic_class(&p)), what: p }),
            }
            for x in viol {
                println!("  after step {n} ({:?}): {}", hist[n - 1], x.what);
                ctx.violation(&x.sig, &x.what, json!({"ops": hist[..n].iter().map(|o| format!("{:?}", o)).collect::<Vec<_>>()}));
            }
        }
        ctx.finish_quiet();
    }

    let mut frontier: Vec<Vec<Op>> = vec![vec![]];
    let mut seen: HashSet<(u64, u64)> = HashSet::new();
    let mut states = 1u64;
    let mut transitions = 0u64;
    let mut samples: Vec<Value> = Vec::new();
    for d in 0..depth {
        let results: Vec<(Vec<Op>, u64, u64, Vec<Viol>, bool)> = frontier
            .par_iter()
            .flat_map_iter(|hist| {
                let mut sink = Vec::new();
                let (m, _r) = match guard(|| replay(hist, &mut sink)) {
                    Ok(x) => x,
                    Err(_) => return Vec::new().into_iter(),
                };
                let mut outv = Vec::new();
                for &op in &ops {
                    if !enabled(&m, op, thorough) {
                        continue;
                    }
                    let mut h2 = hist.clone();
                    h2.push(op);
                    let mut viol = Vec::new();
                    let res = guard(|| {
                        let (m2, r2) = replay(&h2, &mut viol);
                        let mut hasher = std::collections::hash_map::DefaultHasher::new();
                        use std::hash::{Hash, Hasher};
                        m2.hash(&mut hasher);
                        (hasher.finish(), zone_digest(&r2))
                    });
                    match res {
                        Ok((mk, zk)) => outv.push((h2, mk, zk, viol, false)),
                        Err(p) => {
                            outv.push((h2, 0, 0, vec![Viol { sig: format!("C09|panic|{}", panic_class(&p)), what: p }], true));
                        }
                    }
                }
                outv.into_iter()
            })
            .collect();
        let mut next = Vec::new();
        for (h, mk, zk, viol, panicked) in results {
            transitions += 1;
            stats.eval();
            let tainted = !viol.is_empty();
            for v in viol {
                ctx.violation(&v.sig, &v.what, json!({"ops": h.iter().map(|o| format!("{:?}", o)).collect::<Vec<_>>()}));
            }
            if panicked || tainted {
                continue; // do not explore through a violating state
            }
            if seen.insert((mk, zk)) {
                states += 1;
                stats.distinct(mk ^ zk);
                if samples.len() < 3 && h.len() >= 4 {
                    samples.push(json!(h.iter().map(|o| format!("{:?}", o)).collect::<Vec<_>>()));
                }
                next.push(h);
            }
        }
        stats.count_n(&format!("frontier.depth{}", d + 1), next.len() as u64);
        frontier = next;
    }
    if let Some(h) = frontier.last() {
        samples.push(json!(h.iter().map(|o| format!("{:?}", o)).collect::<Vec<_>>()));
    }
    ctx.finish(
        json!({
            "states": states,
            "transitions": transitions,
            "traces_validated_against_impl": transitions,
            "evaluations": transitions,
            "distinct_nontrivial": stats.distinct_count(),
            "rule": "BFS over all interleavings (operation granularity) of one writer at a time (open with and without diff collection/update (with read-back through the writer)/remove/remove_all/turning a name into a CNAME and back/commit with serial bump/commit/commit-then-reopen (multi-batch)/a second writer's attempt to get the zone while the first is open/commit that unwinds at its documented panic point (diff collected + node handle alive)/drop; thorough: also commit-keeping-the-node and writes through that stale node) and two readers (acquire/observe/release) to the depth bound, every history replayed on a fresh real zone; states deduplicated on (model state, sorted Debug rendering of the real zone incl. version vectors)",
            "exhaustive": true,
            "depth": depth,
            "alphabet": ops.iter().map(|o| format!("{:?}", o)).collect::<Vec<_>>(),
            "samples": samples,
            "counters": stats.counters_json(),
        }),
        &["operation granularity only (thread-level schedules are the loom engine's part)", "NODATA-vs-NXDOMAIN correctness of answers is C08's business; C09 compares observations with each other and record sets with the model"],
    );
}
