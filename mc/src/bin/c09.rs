//! C09 (a) — readers see one committed version; commits atomic, aborts invisible.
//!
//! seqx at operation granularity: BFS over ALL interleavings of one writer
//! (successive writers allowed) and two readers to a depth bound, executed by
//! replay on the real in-memory zone. Oracles are differential:
//!  * stability: a reader's observation vector never changes while held;
//!  * visibility: a reader acquired after a commit walks exactly the
//!    committed content and finds every committed RRset;
//!  * aborts: nothing of an abandoned write is ever visible.
//!
//! A reader's observation is taken through EVERY entry point of the
//! `ReadableZone` trait and over every question the content can answer:
//!  * questions: QNAMES (incl. the apex) x QTYPES (A, SOA, NS, CNAME), each
//!    answer compared in full (rcode, AA, answer, authority incl. the SOA of
//!    negative answers, additional) as rendered by `Answer::to_message`;
//!  * synchronous route: `query()` / `walk()`;
//!  * asynchronous route, awaited at once: `query_async()` / `walk_async()`
//!    must agree with the synchronous route of the same reader at the same
//!    moment (entry-point agreement), `is_async()` must not flip while held;
//!  * asynchronous route, deferred: futures of `query_async()` / `walk_async()`
//!    created when the reader is acquired are kept across the following
//!    writer steps and awaited at the next observation, or after the reader
//!    has been released: they must still show the version the reader was
//!    pinned to.
//! Observations, stored answers and pending futures are NOT part of the BFS
//! state key: for a correct library they are a function of the reader's
//! pinned version, which the model state holds.
//!
//! Part (u) — the same readers, the same observations and the same oracles,
//! but the writer is the library's own writer front end
//! `zonetree::update::ZoneUpdater` (a second BFS with its own alphabet):
//! new / apply(AddRecord | DeleteRecord) with the owner at the apex and below
//! it / apply(DeleteAllRecords) / apply(BeginBatchDelete) /
//! apply(BeginBatchAdd) / apply(Finished) / dropping the updater at any
//! point. The model follows the documentation of `ZoneUpdater::apply` and
//! `ZoneUpdate` only: the edits in progress become the current version at
//! BeginBatchDelete and at Finished and nowhere else, BeginBatchAdd and
//! Finished put their SOA into the version being written, dropping the
//! updater leaves the last committed version, a finished updater refuses
//! further updates and has given the zone back to other writers, an
//! unfinished one has not.
use domain::base::iana::Rtype;
use domain::zonetree::error::OutOfZone;
use domain::zonetree::types::{StoredName, StoredRecord, ZoneUpdate};
use domain::zonetree::update::ZoneUpdater;
use domain::zonetree::{Answer, ReadableZone, SharedRrset, WalkOp, WritableZone, WritableZoneNode, Zone};
use mc::zfix::*;
use mc::*;
use rayon::prelude::*;
use serde_json::{json, Value};
use std::collections::{BTreeSet, HashSet};
use std::future::Future;
use std::pin::Pin;
use std::sync::atomic::{AtomicU64, Ordering};
use std::sync::{Arc, Mutex};

#[derive(Clone, Copy, Debug, PartialEq, Eq, Hash, PartialOrd, Ord)]
enum Op {
    WOpen,
    /// open(create_diff = true)
    WOpenDiff,
    WUpd(u8, u8), // name index, value
    WRm(u8),
    WRemoveAll,
    /// turn name "c" into a CNAME (a node "special", versioned separately from the RRsets)
    WCname,
    /// commit(bump_soa_serial = true): the SOA serial of the new version is the old one + 1
    WCommitBump,
    WCommit,
    WCommitKeepNode,
    /// commit(), then open() again on the same WritableZone: the next batch of a
    /// multi-batch update (what ZoneUpdater does at every IXFR batch)
    WCommitReopen,
    /// a second writer asks for the zone (Zone::write() polled once): it must not
    /// be admitted while the first writer is still there
    W2Try,
    /// commit() of a diff-collecting writer while a node handle is still alive:
    /// the documented `arc_into_inner(diff).unwrap()` panic unwinds out of
    /// commit(); the writer dies by unwinding = a crash point inside commit
    WCommitFault,
    WStaleUpd(u8, u8),
    WDrop,
    /// ZoneUpdater::new(zone): while another (finished, still alive) updater
    /// exists it must nevertheless get the zone
    UNew,
    /// apply(AddRecord(urec(k)))
    UAdd(u8),
    /// apply(DeleteRecord(urec(k)))
    UDel(u8),
    /// apply(DeleteAllRecords)
    UDeleteAll,
    /// apply(BeginBatchDelete(SOA of the version being edited)): a commit point
    UBeginDel,
    /// apply(BeginBatchAdd(SOA with the next serial))
    UBeginAdd,
    /// apply(Finished(SOA with the next serial)): a commit point, closes the updater
    UFinished,
    /// the updater is dropped (before Finished: the edits in progress are abandoned)
    UDrop,
    RAcq(u8),
    RObs(u8),
    RRel(u8),
}

const NAMES: [&str; 3] = ["a", "b.a", "c"];
/// The records the updater alphabet adds and deletes: owner (relative, "" = the apex) and data.
fn urec(k: u8) -> (RelName, Rd) {
    match k {
        0 => (rel(""), Rd::A(7)),    // at the apex, not in the initial content
        1 => (rel("a"), Rd::A(2)),   // below the apex, joins the RRset of the initial content
        2 => (rel("a"), Rd::A(1)),   // below the apex, in the initial content
        3 => (rel(""), Rd::NsOut),   // at the apex, in the initial content
        4 => (rel("b.a"), Rd::A(3)), // below the apex, the nodes do not exist yet
        _ => panic!("no such record in the updater alphabet"),
    }
}
const UREC_ALL: u8 = 5;

/// Where an updater is in the sequences `ZoneUpdate` documents: nothing but
/// single updates so far / after BeginBatchDelete / after BeginBatchAdd.
const U_NONE: u8 = 0;
const U_NORMAL: u8 = 1;
const U_DEL: u8 = 2;
const U_ADD: u8 = 3;
/// Finished was applied; the updater value is still alive
const U_FINISHED: u8 = 4;
/// an update outside the documented sequences was applied: what the version
/// being written holds is not specified any more, what is committed still is
const U_UNSPEC: u8 = 5;

/// AXFR-like: DeleteAllRecords?, (AddRecord | DeleteRecord)*, Finished.
/// IXFR-like: (BeginBatchDelete, DeleteRecord*, BeginBatchAdd, AddRecord*)+, Finished;
/// BeginBatchDelete "if not already in batching mode" may follow single updates.
fn in_grammar(phase: u8, op: Op) -> bool {
    matches!((phase, op), (U_NORMAL, Op::UAdd(_) | Op::UDel(_) | Op::UDeleteAll | Op::UBeginDel | Op::UFinished) | (U_DEL, Op::UDel(_) | Op::UBeginAdd) | (U_ADD, Op::UAdd(_) | Op::UBeginDel | Op::UFinished))
}

/// Updates outside the documented sequences that are not documented to
/// commit anything: whatever the library makes of them (an error included),
/// nothing may become visible.
fn off_grammar_not_committing(phase: u8, op: Op) -> bool {
    matches!((phase, op), (U_NORMAL, Op::UBeginAdd) | (U_DEL, Op::UAdd(_) | Op::UDeleteAll) | (U_ADD, Op::UDel(_) | Op::UDeleteAll | Op::UBeginAdd))
}

fn soa_serial(c: &Content) -> Option<u32> {
    c.names.get(&vec![]).and_then(|s| s.iter().find_map(|r| if let Rd::Soa(x) = r { Some(*x) } else { None }))
}

/// the highest serial any version (committed or being written) has had
fn top_serial(m: &Model) -> u32 {
    m.committed.iter().chain(m.working.iter()).filter_map(soa_serial).max().unwrap_or(0)
}

fn put_soa(c: &mut Content, serial: u32) {
    let s = c.names.entry(vec![]).or_default();
    s.retain(|r| !matches!(r, Rd::Soa(_)));
    s.insert(Rd::Soa(serial));
}

const QNAMES: [&str; 7] = ["a", "b.a", "c", "x.a", "y.b.a", "*.a", ""];
/// every type the zone content of this harness can hold (A data, the apex SOA and NS, the CNAME at "c")
const QTYPES: [Rtype; 4] = [Rtype::A, Rtype::SOA, Rtype::NS, Rtype::CNAME];
/// index of (QNAMES[qi], QTYPES[ti]) in an observation vector
const fn ix(qi: usize, ti: usize) -> usize {
    qi * QTYPES.len() + ti
}
fn cases() -> impl Iterator<Item = (usize, usize, &'static str, Rtype)> {
    (0..QNAMES.len()).flat_map(|qi| (0..QTYPES.len()).map(move |ti| (qi, ti, QNAMES[qi], QTYPES[ti])))
}
fn show_q(q: &str) -> &str {
    if q.is_empty() {
        "@"
    } else {
        q
    }
}

#[derive(Clone, Debug, PartialEq, Eq, Hash, PartialOrd, Ord)]
struct Model {
    committed: Vec<Content>,
    working: Option<Content>,
    /// U_*: the writer is a ZoneUpdater in this phase (U_NONE: there is no updater)
    upd: u8,
    diff_mode: bool,
    stale_node: bool,
    stale_written: bool,
    readers: [Option<usize>; 2],
    /// nodes that exist in the tree (never removed)
    nodes: BTreeSet<RelName>,
    reader_nodes: [BTreeSet<RelName>; 2],
}

struct Real {
    zone: Zone,
    rt: tokio::runtime::Runtime,
    writer: Option<(Box<dyn WritableZone>, Option<Box<dyn WritableZoneNode>>)>,
    stale: Option<Box<dyn WritableZoneNode>>,
    updater: Option<ZoneUpdater<StoredName>>,
    readers: [Option<Held>; 2],
}

/// a reader that is being held: the reader, what it showed when it was
/// acquired, and futures of its asynchronous entry points that have been
/// created but not awaited yet
struct Held {
    rd: Box<dyn ReadableZone>,
    first: Taken,
    is_async: bool,
    /// None only in the state after the last step of a history (nothing follows)
    pending: Option<Pending>,
}

/// evidence counters of the observation oracles (verdict steps only)
static N_PINNED: AtomicU64 = AtomicU64::new(0);
static N_AGREE: AtomicU64 = AtomicU64::new(0);
static N_DEFERRED: AtomicU64 = AtomicU64::new(0);
static N_AFTER_RELEASE: AtomicU64 = AtomicU64::new(0);
static N_NEW_READER: AtomicU64 = AtomicU64::new(0);

type Walked = BTreeSet<(Vec<u8>, u16, Vec<u8>)>;
type Fut<T> = Pin<Box<dyn Future<Output = T> + Send + Sync>>;

/// One observation of a reader through one route: the full answers to all
/// `cases()` and the records its walk enumerates.
#[derive(Clone, PartialEq, Eq, Debug)]
struct Obs {
    answers: Vec<Observed>,
    walk: Walked,
}

/// An observation through the synchronous route as the reader handed it
/// out: the `Answer` values are rendered to messages only when a verdict
/// needs them (rendering is the expensive part, and most acquisitions are
/// replayed prefixes).
struct Taken {
    answers: Vec<Answer>,
    walk: Walked,
}

impl Taken {
    fn render(&self) -> Obs {
        Obs { answers: cases().zip(&self.answers).map(|((_, _, q, t), a)| observe_answer(a, &rel(q), t)).collect(), walk: self.walk.clone() }
    }
}

/// synchronous route: query() / walk()
fn take(r: &dyn ReadableZone) -> Taken {
    Taken { answers: cases().map(|(_, _, q, t)| r.query(abs_name(&rel(q)), t).expect("query: in zone")).collect(), walk: walk(r).0 }
}

fn observe(r: &dyn ReadableZone) -> Obs {
    take(r).render()
}

/// a WalkOp that collects what it is called with (same normal form as zfix::walk)
fn walk_collector() -> (WalkOp, Arc<Mutex<Walked>>) {
    let out: Arc<Mutex<Walked>> = Arc::new(Mutex::new(BTreeSet::new()));
    let o2 = out.clone();
    let op: WalkOp = Box::new(move |owner: StoredName, rrset: &SharedRrset, _at_cut: bool| {
        let mut g = o2.lock().unwrap();
        let ow: Vec<Vec<u8>> = owner.iter().filter(|l| !l.is_root()).map(|l| wire::lower(l.as_slice())).collect();
        for d in rrset.data() {
            let mut buf = Vec::new();
            use domain::base::rdata::ComposeRecordData;
            d.compose_canonical_rdata(&mut buf).unwrap();
            g.insert((wire::to_wire(&ow), rrset.rtype().to_int(), buf));
        }
    });
    (op, out)
}

/// futures of the asynchronous entry points, created but not awaited
struct Pending {
    queries: Vec<Fut<Result<Answer, OutOfZone>>>,
    walk: Fut<()>,
    walked: Arc<Mutex<Walked>>,
}

/// asynchronous route, first half: call query_async() for all cases and walk_async()
fn start_async(r: &dyn ReadableZone) -> Pending {
    let queries = cases().map(|(_, _, q, t)| r.query_async(abs_name(&rel(q)), t)).collect();
    let (op, walked) = walk_collector();
    Pending { queries, walk: r.walk_async(op), walked }
}

/// asynchronous route, second half: drive the futures on the harness's runtime
fn finish_async(rt: &tokio::runtime::Runtime, p: Pending) -> Obs {
    let answers = cases().zip(p.queries).map(|((_, _, q, t), f)| observe_answer(&rt.block_on(f).expect("query_async: in zone"), &rel(q), t)).collect();
    rt.block_on(p.walk);
    let walk = p.walked.lock().unwrap().clone();
    Obs { answers, walk }
}

/// Poll a future a bounded number of times: a future that only yields gets
/// through, one that waits for a lock somebody keeps does not.
fn poll_bounded<F: Future>(rt: &tokio::runtime::Runtime, fut: F, polls: usize) -> Option<F::Output> {
    let _g = rt.enter();
    let mut fut = std::pin::pin!(fut);
    let waker = futures_util::task::noop_waker();
    let mut cx = std::task::Context::from_waker(&waker);
    for _ in 0..polls {
        if let std::task::Poll::Ready(x) = fut.as_mut().poll(&mut cx) {
            return Some(x);
        }
    }
    None
}

/// which parts of two full answers differ
fn differs(a: &Observed, b: &Observed) -> String {
    let mut v = Vec::new();
    if a.rcode != b.rcode {
        v.push("rcode");
    }
    if a.aa != b.aa {
        v.push("aa");
    }
    if a.answer != b.answer {
        v.push("answer");
    }
    if a.authority != b.authority {
        v.push("authority");
    }
    if a.additional != b.additional {
        v.push("additional");
    }
    if a.dup != b.dup {
        v.push("dup");
    }
    v.join("+")
}

fn brief(o: &Observed) -> String {
    let soa: Vec<u32> = o.authority.iter().chain(o.answer.iter()).filter(|r| r.1 == 6 && r.2.len() >= 20).map(|r| u32::from_be_bytes(r.2[r.2.len() - 20..r.2.len() - 16].try_into().unwrap())).collect();
    format!("{:?} rcode={} answer={:?} authority={} rec (SOA serials {:?}) additional={} rec", o.kind(), o.rcode, o.answer.iter().map(|r| (r.1, &r.2)).collect::<Vec<_>>(), o.authority.len(), soa, o.additional.len())
}

/// `now` (taken through `via`) must be what the reader showed when it was acquired
fn check_pinned(m: &Model, i: usize, via_q: &str, via_w: &str, first: &Obs, now: &Obs, out: &mut Vec<Viol>) {
    match via_q {
        "query" => &N_PINNED,
        v if v.contains("released") => &N_AFTER_RELEASE,
        _ => &N_DEFERRED,
    }
    .fetch_add(1, Ordering::Relaxed);
    if now == first {
        return;
    }
    let pinned_nodes = &m.reader_nodes[i];
    let pinned = m.readers[i].unwrap();
    let later_commit = m.committed.len() - 1 > pinned;
    for (qi, ti, q, t) in cases() {
        let (f, n) = (&first.answers[ix(qi, ti)], &now.answers[ix(qi, ti)]);
        if f == n {
            continue;
        }
        let qn = rel(q);
        let created = (1..=qn.len()).any(|k| {
            let p = qn[..k].to_vec();
            !pinned_nodes.contains(&p) && m.nodes.contains(&p)
        });
        let (a, b) = (f.kind(), n.kind());
        let only_shape = n.answer.is_empty() && b != Kind::Data;
        if created && only_shape && matches!(b, Kind::NoData | Kind::NxDomain) {
            out.push(Viol {
                sig: format!("C09|pinned-reader|observation-changed|cause=node-created-by-later-writer-is-unversioned|->{:?}", b),
                what: format!("reader pinned at version {pinned}: {}/{t} was {:?}, is now {:?} (through {via_q}) after a later writer created the node (no commit needed)", show_q(q), a, b),
            });
        } else {
            out.push(Viol {
                sig: format!("C09|pinned-reader|observation-changed|{:?}->{:?}|node-created={}|stale-node-write={}|via={via_q}|qtype={t}|differs={}|later-commit={later_commit}", a, b, created, m.stale_node, differs(f, n)),
                what: format!("reader pinned at version {pinned} (current version {}): {}/{t} was [{}] when the reader was acquired, is [{}] now through {via_q}", m.committed.len() - 1, show_q(q), brief(f), brief(n)),
            });
        }
    }
    if now.walk != first.walk {
        out.push(Viol {
            sig: format!("C09|pinned-reader|walk-changed|stale-node-write={}|via={via_w}|later-commit={later_commit}", m.stale_node),
            what: format!("reader pinned at version {pinned} (current version {}): walk() had {} records when the reader was acquired, {via_w} now has {} ({} gone, {} new)", m.committed.len() - 1, first.walk.len(), now.walk.len(), first.walk.difference(&now.walk).count(), now.walk.difference(&first.walk).count()),
        });
    }
}

/// the asynchronous entry points, awaited at once, must show what the
/// synchronous ones show at the same moment
fn check_agreement(m: &Model, i: usize, sync: &Obs, asy: &Obs, out: &mut Vec<Viol>) {
    N_AGREE.fetch_add(1, Ordering::Relaxed);
    if sync == asy {
        return;
    }
    let pinned = m.readers[i].unwrap();
    let later_commit = m.committed.len() - 1 > pinned;
    for (qi, ti, q, t) in cases() {
        let (s, a) = (&sync.answers[ix(qi, ti)], &asy.answers[ix(qi, ti)]);
        if s != a {
            out.push(Viol {
                sig: format!("C09|reader|entry-points-disagree|query_async-vs-query|{:?}-vs-{:?}|qtype={t}|differs={}|later-commit={later_commit}|writer-open={}", a.kind(), s.kind(), differs(s, a), m.working.is_some()),
                what: format!("reader pinned at version {pinned} (current version {}): {}/{t} is [{}] through query() but [{}] through query_async() awaited at once", m.committed.len() - 1, show_q(q), brief(s), brief(a)),
            });
        }
    }
    if sync.walk != asy.walk {
        out.push(Viol {
            sig: format!("C09|reader|entry-points-disagree|walk_async-vs-walk|missing={}|extra={}|later-commit={later_commit}|writer-open={}", (sync.walk.difference(&asy.walk).count() > 0) as u8, (asy.walk.difference(&sync.walk).count() > 0) as u8, m.working.is_some()),
            what: format!("reader pinned at version {pinned} (current version {}): walk() enumerates {} records, walk_async() awaited at once {} ({} missing, {} extra)", m.committed.len() - 1, sync.walk.len(), asy.walk.len(), sync.walk.difference(&asy.walk).count(), asy.walk.difference(&sync.walk).count()),
        });
    }
}

fn initial_content() -> Content {
    let mut c = Content::base(1);
    c.add("a", Rd::A(1));
    c.add("*.a", Rd::A(9));
    c
}

fn nodes_of(c: &Content) -> BTreeSet<RelName> {
    let mut s = BTreeSet::new();
    for (n, d) in &c.names {
        if !d.is_empty() {
            for i in 1..=n.len() {
                s.insert(n[..i].to_vec());
            }
        }
    }
    s
}

fn enabled(m: &Model, op: Op, thorough: bool) -> bool {
    // the low-level writer of part (a)
    let w_open = m.working.is_some() && m.upd == U_NONE;
    match op {
        Op::WOpen | Op::WOpenDiff => m.working.is_none() && m.upd == U_NONE,
        Op::WCommitFault => w_open && m.diff_mode,
        Op::WCommitReopen => w_open && !m.diff_mode,
        Op::W2Try => m.working.is_some(),
        Op::WUpd(..) | Op::WRm(_) | Op::WRemoveAll | Op::WCommit | Op::WDrop | Op::WCname => w_open,
        Op::WCommitBump => w_open && !m.diff_mode,
        Op::WCommitKeepNode => thorough && w_open && !m.stale_node && !m.diff_mode, // with a diff this is WCommitFault
        Op::WStaleUpd(..) => m.stale_node,
        // the updater of part (u)
        Op::UNew => m.working.is_none() && matches!(m.upd, U_NONE | U_FINISHED),
        Op::UAdd(_) | Op::UDel(_) | Op::UDeleteAll | Op::UBeginDel | Op::UBeginAdd | Op::UFinished => in_grammar(m.upd, op) || (thorough && off_grammar_not_committing(m.upd, op)) || (m.upd == U_FINISHED && op == Op::UAdd(0)),
        Op::UDrop => m.upd != U_NONE,
        Op::RAcq(i) => m.readers[i as usize].is_none(),
        Op::RObs(i) | Op::RRel(i) => m.readers[i as usize].is_some(),
    }
}

struct Viol {
    sig: String,
    what: String,
}

/// Apply `op` to model and real state; check oracles. `fin`: this is the
/// last step of the history, the one whose verdict is wanted (earlier steps
/// were judged when they were the last one): only then the oracles and the
/// observations that nothing later depends on are evaluated.
fn step(m: &mut Model, r: &mut Real, op: Op, fin: bool, out: &mut Vec<Viol>) {
    match op {
        Op::WOpen | Op::WOpenDiff => {
            let w = r.rt.block_on(r.zone.write());
            let node = r.rt.block_on(w.open(op == Op::WOpenDiff)).unwrap();
            r.writer = Some((w, Some(node)));
            m.working = Some(m.committed.last().unwrap().clone());
            m.diff_mode = op == Op::WOpenDiff;
        }
        Op::WCommitFault => {
            let (mut w, node) = r.writer.take().unwrap();
            let rtm = &r.rt;
            let res = std::panic::catch_unwind(std::panic::AssertUnwindSafe(|| rtm.block_on(w.commit(false)).map(|_| ())));
            // the writer dies here, by unwinding or (if commit came back) normally
            drop(w);
            drop(node);
            match res {
                Ok(Ok(())) => m.committed.push(m.working.take().unwrap()), // no fault: an ordinary commit
                Ok(Err(_)) | Err(_) => m.working = None,                   // commit never happened
            }
            m.diff_mode = false;
        }
        Op::WCname => {
            let name = rel("c");
            let (_, node) = r.writer.as_ref().unwrap();
            let apex = node.as_ref().unwrap();
            let old = m.working.clone().unwrap();
            let mut new = old.clone();
            new.names.insert(name.clone(), [Rd::Cname].into_iter().collect());
            r.rt.block_on(write_name(apex.as_ref(), &new, Some(&old), &name));
            m.working = Some(new);
            for i in 1..=name.len() {
                m.nodes.insert(name[..i].to_vec());
            }
        }
        Op::WUpd(n, v) if m.working.as_ref().unwrap().names.get(&rel(NAMES[n as usize])).map(|s| s.contains(&Rd::Cname)).unwrap_or(false) => {
            // the name is a CNAME in the working version: back to a regular node, then the data
            let name = rel(NAMES[n as usize]);
            let (_, node) = r.writer.as_ref().unwrap();
            let apex = node.as_ref().unwrap();
            let old = m.working.clone().unwrap();
            let mut new = old.clone();
            new.names.insert(name.clone(), [Rd::A(v)].into_iter().collect());
            r.rt.block_on(write_name(apex.as_ref(), &new, Some(&old), &name));
            m.working = Some(new);
        }
        Op::WRm(n) if m.working.as_ref().unwrap().names.get(&rel(NAMES[n as usize])).map(|s| s.contains(&Rd::Cname)).unwrap_or(false) => {
            let name = rel(NAMES[n as usize]);
            let (_, node) = r.writer.as_ref().unwrap();
            let apex = node.as_ref().unwrap();
            let old = m.working.clone().unwrap();
            let mut new = old.clone();
            new.names.remove(&name);
            r.rt.block_on(write_name(apex.as_ref(), &new, Some(&old), &name));
            m.working = Some(new);
        }
        Op::WUpd(n, v) => {
            let name = rel(NAMES[n as usize]);
            let (_, node) = r.writer.as_ref().unwrap();
            let apex = node.as_ref().unwrap();
            r.rt.block_on(async {
                let nd = node_for(apex.as_ref(), &name).await.unwrap();
                nd.update_rrset(rrset_of(&[Rd::A(v)])).await.unwrap();
                // the writer reads its own uncommitted write back
                match nd.get_rrset(Rtype::A).await {
                    Ok(Some(rs)) if rs.data().len() == 1 => {}
                    other => out.push(Viol { sig: "C09|writer|get_rrset-does-not-return-its-own-write".into(), what: format!("after update_rrset the writer's get_rrset(A) gave {:?}", other.map(|o| o.map(|r| r.data().len()))) }),
                }
            });
            let w = m.working.as_mut().unwrap();
            let set = w.names.entry(name.clone()).or_default();
            set.retain(|x| !matches!(x, Rd::A(_)));
            set.insert(Rd::A(v));
            for i in 1..=name.len() {
                m.nodes.insert(name[..i].to_vec());
            }
        }
        Op::WRm(n) => {
            let name = rel(NAMES[n as usize]);
            let (_, node) = r.writer.as_ref().unwrap();
            let apex = node.as_ref().unwrap();
            r.rt.block_on(async {
                let nd = node_for(apex.as_ref(), &name).await.unwrap();
                nd.remove_rrset(Rtype::A).await.unwrap();
            });
            let w = m.working.as_mut().unwrap();
            if let Some(set) = w.names.get_mut(&name) {
                set.retain(|x| !matches!(x, Rd::A(_)));
            }
            for i in 1..=name.len() {
                m.nodes.insert(name[..i].to_vec());
            }
        }
        Op::WRemoveAll => {
            let (_, node) = r.writer.as_ref().unwrap();
            r.rt.block_on(node.as_ref().unwrap().remove_all()).unwrap();
            m.working.as_mut().unwrap().names.clear();
        }
        Op::WCommitBump => {
            let (mut w, node) = r.writer.take().unwrap();
            drop(node);
            r.rt.block_on(w.commit(true)).unwrap();
            drop(w);
            let mut c = m.working.take().unwrap();
            let soa_of = |c: &Content| c.names.get(&vec![]).and_then(|s| s.iter().find_map(|r| if let Rd::Soa(x) = r { Some(*x) } else { None }));
            // documented: if the published version has a SOA and the new version has none or the
            // same one, the new version gets that SOA with the serial increased by one
            if let Some(old) = soa_of(m.committed.last().unwrap()) {
                if soa_of(&c).is_none() || soa_of(&c) == Some(old) {
                    let apex = c.names.entry(vec![]).or_default();
                    apex.retain(|r| !matches!(r, Rd::Soa(_)));
                    apex.insert(Rd::Soa(old.wrapping_add(1)));
                }
            }
            m.committed.push(c);
            m.diff_mode = false;
        }
        Op::WCommit | Op::WCommitKeepNode => {
            let (mut w, node) = r.writer.take().unwrap();
            if op == Op::WCommitKeepNode {
                r.stale = node;
                m.stale_node = true;
            } else {
                drop(node);
            }
            r.rt.block_on(w.commit(false)).unwrap();
            drop(w);
            m.committed.push(m.working.take().unwrap());
            m.diff_mode = false;
        }
        Op::WCommitReopen => {
            let (mut w, node) = r.writer.take().unwrap();
            drop(node);
            r.rt.block_on(w.commit(false)).unwrap();
            let node = r.rt.block_on(w.open(false)).unwrap();
            r.writer = Some((w, Some(node)));
            let c = m.working.clone().unwrap();
            m.committed.push(c);
        }
        Op::W2Try => {
            use futures_util::FutureExt;
            let second = {
                let _g = r.rt.enter();
                r.zone.write().now_or_never()
            };
            if let Some(w2) = second {
                drop(w2);
                out.push(Viol {
                    sig: "C09|writers-not-serialised|second-writer-admitted-while-the-first-is-still-open".into(),
                    what: format!("Zone::write() completed for a second writer although the first writer (working on top of version {}) has neither finished nor been dropped", m.committed.len() - 1),
                });
            }
        }
        Op::WStaleUpd(n, v) => {
            // a write through a node handle obtained before the commit: nothing
            // committed afterwards, so no reader (old or new) may ever see it
            let name = rel(NAMES[n as usize]);
            let apex = r.stale.as_ref().unwrap();
            r.rt.block_on(async {
                let nd = node_for(apex.as_ref(), &name).await.unwrap();
                nd.update_rrset(rrset_of(&[Rd::A(v)])).await.unwrap();
            });
            for i in 1..=name.len() {
                m.nodes.insert(name[..i].to_vec());
            }
            m.stale_written = true;
        }
        Op::WDrop => {
            let (w, node) = r.writer.take().unwrap();
            drop(node);
            drop(w);
            m.working = None;
            m.diff_mode = false;
        }
        Op::UNew => {
            // Nobody else has the zone open (model), so the updater must get it at
            // once - also when a finished updater is still alive.
            let got = poll_bounded(&r.rt, ZoneUpdater::<StoredName>::new(r.zone.clone()), 16);
            match got {
                Some(Ok(u)) => r.updater = Some(u), // (a finished one goes away now)
                Some(Err(_)) => out.push(Viol { sig: format!("C09|updater|new|zone-cannot-be-opened-for-writing|finished-updater-alive={}", m.upd == U_FINISHED), what: format!("ZoneUpdater::new failed on a zone no writer has open (version {})", m.committed.len() - 1) }),
                None => out.push(Viol { sig: format!("C09|updater|new|zone-not-given-back|finished-updater-alive={}", m.upd == U_FINISHED), what: format!("ZoneUpdater::new does not complete although no writer has the zone open (version {}; a finished updater is still alive: {})", m.committed.len() - 1, m.upd == U_FINISHED) }),
            }
            m.working = Some(m.committed.last().unwrap().clone());
            m.upd = U_NORMAL;
            m.diff_mode = false;
        }
        Op::UAdd(_) | Op::UDel(_) | Op::UDeleteAll | Op::UBeginDel | Op::UBeginAdd | Op::UFinished => {
            let next = top_serial(m) + 1;
            let soa = |serial: u32| -> StoredRecord { record_of(&vec![], &Rd::Soa(serial)) };
            let update = match op {
                Op::UAdd(k) => ZoneUpdate::AddRecord(record_of(&urec(k).0, &urec(k).1)),
                Op::UDel(k) => ZoneUpdate::DeleteRecord(record_of(&urec(k).0, &urec(k).1)),
                Op::UDeleteAll => ZoneUpdate::DeleteAllRecords,
                Op::UBeginDel => ZoneUpdate::BeginBatchDelete(soa(m.working.as_ref().and_then(soa_serial).unwrap_or(next - 1))),
                Op::UBeginAdd => ZoneUpdate::BeginBatchAdd(soa(next)),
                _ => ZoneUpdate::Finished(soa(next)),
            };
            let accepted = r.rt.block_on(r.updater.as_mut().unwrap().apply(update)).is_ok();
            let phase = m.upd;
            let opname = format!("{:?}", op);
            let opname = opname.split('(').next().unwrap().to_string();
            // nodes on the way to the owner are created (see the known findings)
            if let (Op::UAdd(k) | Op::UDel(k), true) = (op, phase != U_FINISHED) {
                let name = urec(k).0;
                for i in 1..=name.len() {
                    m.nodes.insert(name[..i].to_vec());
                }
            }
            if phase == U_FINISHED {
                // documented: after Finished further calls to apply() fail
                if accepted {
                    out.push(Viol { sig: "C09|updater|apply|update-accepted-after-Finished".into(), what: format!("apply({opname}) succeeded on an updater that has already applied Finished (version {})", m.committed.len() - 1) });
                }
                return;
            }
            if !in_grammar(phase, op) {
                // outside the documented sequences: only "nothing becomes visible" is left to check
                m.upd = U_UNSPEC;
                return;
            }
            // Refusals the documentation does not exclude: deleting a record the
            // version does not hold, adding one it holds, a batch on top of a version
            // without SOA. What the version being written holds afterwards is not specified.
            let held = |k: u8| m.working.as_ref().unwrap().names.get(&urec(k).0).map(|s| s.contains(&urec(k).1)).unwrap_or(false);
            let may_refuse = match op {
                Op::UAdd(k) => held(k),
                Op::UDel(k) => !held(k),
                Op::UBeginDel => m.working.as_ref().and_then(soa_serial).is_none(),
                _ => false,
            };
            if !accepted && may_refuse {
                m.upd = U_UNSPEC;
                return;
            }
            if !accepted {
                out.push(Viol { sig: format!("C09|updater|apply|documented-update-sequence-refused|op={opname}|phase={phase}"), what: format!("apply({:?}) failed in phase {phase} of an updater working on top of version {}", op, m.committed.len() - 1) });
                return;
            }
            let w = m.working.as_mut().unwrap();
            match op {
                Op::UAdd(k) => {
                    let (name, rd) = urec(k);
                    w.names.entry(name).or_default().insert(rd);
                }
                Op::UDel(k) => {
                    let (name, rd) = urec(k);
                    if let Some(set) = w.names.get_mut(&name) {
                        set.remove(&rd);
                        if set.is_empty() {
                            w.names.remove(&name);
                        }
                    }
                }
                Op::UDeleteAll => w.names.clear(),
                Op::UBeginDel => {
                    // "will also commit any edits in progress and re-open the zone for editing again"
                    let c = w.clone();
                    m.committed.push(c);
                    m.upd = U_DEL;
                }
                Op::UBeginAdd => {
                    // "the SOA record to use for the new version of the zone"
                    put_soa(w, next);
                    m.upd = U_ADD;
                }
                _ => {
                    // Finished: "changes to the zone are committed when Finished is received"
                    put_soa(w, next);
                    let c = m.working.take().unwrap();
                    m.committed.push(c);
                    m.upd = U_FINISHED;
                }
            }
        }
        Op::UDrop => {
            // before Finished: "rolled back if ZoneUpdater is dropped before receiving Finished"
            drop(r.updater.take());
            m.working = None;
            m.upd = U_NONE;
        }
        Op::RAcq(i) => {
            let rd = r.zone.read();
            let first = take(rd.as_ref());
            let is_async = rd.is_async();
            let k = m.committed.len() - 1;
            m.readers[i as usize] = Some(k);
            m.reader_nodes[i as usize] = m.nodes.clone();
            if fin {
                // entry-point agreement for a brand-new reader
                let obs = first.render();
                let asy = finish_async(&r.rt, start_async(rd.as_ref()));
                check_agreement(m, i as usize, &obs, &asy, out);
                new_reader_oracles(m, k, &obs, out);
            }
            // futures created now, awaited after whatever comes next
            let pending = if fin { None } else { Some(start_async(rd.as_ref())) };
            r.readers[i as usize] = Some(Held { rd, first, is_async, pending });
        }
        Op::RObs(i) => {
            if !fin {
                return; // an observation changes nothing; its verdict was given when it was the last step
            }
            let rt = &r.rt;
            let h = r.readers[i as usize].as_mut().unwrap();
            let first = h.first.render();
            // 1. futures created earlier (at acquisition, or at the previous observation), awaited now
            let deferred = finish_async(rt, h.pending.take().expect("a held reader has pending futures"));
            check_pinned(m, i as usize, "query_async-future-created-earlier-awaited-now", "walk_async-future-created-earlier-awaited-now", &first, &deferred, out);
            // 2. the synchronous route now
            let now = observe(h.rd.as_ref());
            check_pinned(m, i as usize, "query", "walk", &first, &now, out);
            // 3. the asynchronous route now, awaited at once
            let asy = finish_async(rt, start_async(h.rd.as_ref()));
            check_agreement(m, i as usize, &now, &asy, out);
            if h.rd.is_async() != h.is_async {
                out.push(Viol { sig: "C09|pinned-reader|is_async-changed-while-held".into(), what: format!("reader pinned at version {}: is_async() was {} when acquired, is {} now", m.readers[i as usize].unwrap(), h.is_async, !h.is_async) });
            }
        }
        Op::RRel(i) => {
            let h = r.readers[i as usize].take().unwrap();
            if fin {
                // the reader goes away first; futures it handed out earlier are awaited afterwards
                let Held { rd, first, pending, .. } = h;
                drop(rd);
                let first = first.render();
                let deferred = finish_async(&r.rt, pending.expect("a held reader has pending futures"));
                check_pinned(m, i as usize, "query_async-future-awaited-after-reader-released", "walk_async-future-awaited-after-reader-released", &first, &deferred, out);
            }
            m.readers[i as usize] = None;
        }
    }
}

/// visibility: a reader acquired now shows exactly the last committed content
fn new_reader_oracles(m: &Model, k: usize, obs: &Obs, out: &mut Vec<Viol>) {
    N_NEW_READER.fetch_add(1, Ordering::Relaxed);
    let c = &m.committed[k];
    let want = content_as_walk(c);
    if obs.walk != want {
        let stale_write = m.stale_node;
        out.push(Viol {
            sig: format!("C09|new-reader|walk-differs-from-last-committed-version|missing={}|extra={}|after-stale-node-write={}", (want.difference(&obs.walk).count() > 0) as u8, (obs.walk.difference(&want).count() > 0) as u8, stale_write),
            what: format!("reader acquired at version {k} walks {} records, committed content has {}", obs.walk.len(), want.len()),
        });
    }
    // the CNAME state of a name is a node "special" with its own version history
    let want_cname = !c.rrset(&rel("c"), Rtype::CNAME).is_empty();
    for ti in [0, 3] {
        // c/A is answered with the CNAME, c/CNAME with the CNAME itself
        let o = &obs.answers[ix(2, ti)];
        if (o.kind() == Kind::Cname) != want_cname {
            out.push(Viol { sig: format!("C09|new-reader|cname-state-differs-from-committed-version|committed-is-cname={want_cname}"), what: format!("reader at version {k}: c/{} answered as {:?} but the committed version has CNAME at c: {want_cname}", QTYPES[ti], o.kind()) });
        }
    }
    // Whether the right answer kind is given is C08's business (and has
    // known findings there). Here: whatever data is served, in whichever
    // section (the SOA of a negative answer included), must be held by the
    // committed content, never by an older version, uncommitted or abandoned work.
    let all: BTreeSet<(u16, Vec<u8>)> = c.records().iter().map(|(_, r)| (r.rtype().to_int(), r.wire())).collect();
    for (qi, ti, q, t) in cases() {
        let o = &obs.answers[ix(qi, ti)];
        for (section, set) in [("answer", &o.answer), ("authority", &o.authority), ("additional", &o.additional)] {
            for rec in set {
                if !all.contains(&(rec.1, rec.2.clone())) {
                    out.push(Viol { sig: format!("C09|new-reader|serves-data-not-in-committed-version|after-stale-node-write={}|section={section}|rtype={}", m.stale_node, Rtype::from_int(rec.1)), what: format!("reader at version {k}: the {section} section for {}/{t} holds type {} data {:?} which no record of the committed version holds", show_q(q), Rtype::from_int(rec.1), rec.2) });
                }
            }
        }
        // the apex SOA and NS sets are ordinary RRsets of the version: asked for directly they are served as they are
        if q.is_empty() && (t == Rtype::SOA || t == Rtype::NS) {
            let own: BTreeSet<Vec<u8>> = c.rrset(&vec![], t).iter().map(|r| r.wire()).collect();
            let got: BTreeSet<Vec<u8>> = o.answer.iter().filter(|x| x.1 == t.to_int()).map(|x| x.2.clone()).collect();
            if own != got {
                out.push(Viol { sig: format!("C09|new-reader|apex-rrset-differs-from-committed-version|qtype={t}|after-stale-node-write={}", m.stale_node), what: format!("reader at version {k}: @/{t} answers {:?}, the committed version holds {:?}", got, own) });
            }
        }
    }
}

fn parse_op(t: &str) -> Op {
    let nums: Vec<u8> = t.split(|c: char| !c.is_ascii_digit()).filter(|x| !x.is_empty()).map(|x| x.parse().unwrap()).collect();
    let head = t.split('(').next().unwrap();
    match head {
        "WOpen" => Op::WOpen,
        "WOpenDiff" => Op::WOpenDiff,
        "WUpd" => Op::WUpd(nums[0], nums[1]),
        "WRm" => Op::WRm(nums[0]),
        "WRemoveAll" => Op::WRemoveAll,
        "WCname" => Op::WCname,
        "WCommitBump" => Op::WCommitBump,
        "WCommit" => Op::WCommit,
        "WCommitKeepNode" => Op::WCommitKeepNode,
        "WCommitFault" => Op::WCommitFault,
        "WCommitReopen" => Op::WCommitReopen,
        "W2Try" => Op::W2Try,
        "WStaleUpd" => Op::WStaleUpd(nums[0], nums[1]),
        "WDrop" => Op::WDrop,
        "UNew" => Op::UNew,
        "UAdd" => Op::UAdd(nums[0]),
        "UDel" => Op::UDel(nums[0]),
        "UDeleteAll" => Op::UDeleteAll,
        "UBeginDel" => Op::UBeginDel,
        "UBeginAdd" => Op::UBeginAdd,
        "UFinished" => Op::UFinished,
        "UDrop" => Op::UDrop,
        "RAcq" => Op::RAcq(nums[0]),
        "RObs" => Op::RObs(nums[0]),
        "RRel" => Op::RRel(nums[0]),
        _ => panic!("unknown operation {t} in replay file"),
    }
}

fn fresh() -> (Model, Real) {
    let c = initial_content();
    let zone = build_direct(&c, false);
    let m = Model { committed: vec![c.clone()], working: None, upd: U_NONE, diff_mode: false, stale_node: false, stale_written: false, readers: [None, None], nodes: nodes_of(&c), reader_nodes: [BTreeSet::new(), BTreeSet::new()] };
    (m, Real { zone, rt: rt(), writer: None, stale: None, updater: None, readers: [None, None] })
}

fn replay(hist: &[Op], out: &mut Vec<Viol>) -> (Model, Real) {
    let (mut m, mut r) = fresh();
    for (i, op) in hist.iter().enumerate() {
        let mut sink = Vec::new();
        step(&mut m, &mut r, *op, i + 1 == hist.len(), if i + 1 == hist.len() { out } else { &mut sink });
    }
    if m.stale_written {
        // one class: everything observed after a write through a node handle
        // that was kept across commit
        for v in out.iter_mut() {
            if !v.sig.contains("cause=node-created") {
                v.what = format!("{} [{}]", v.what, v.sig);
                v.sig = "C09|write-through-node-handle-kept-across-commit|modifies-a-published-version".into();
            }
        }
    }
    (m, r)
}

/// canonical digest of the real zone's private state (version vectors included)
fn zone_digest(r: &Real) -> u64 {
    let s = format!("{:#?}", r.zone);
    let mut lines: Vec<&str> = s.lines().map(|l| l.trim()).collect();
    lines.sort();
    fnv(lines.join("\n").as_bytes())
}

struct Explored {
    states: u64,
    transitions: u64,
    samples: Vec<Value>,
}

/// BFS over all histories of `ops` to `depth`, every history replayed on a fresh real zone.
fn explore(ctx: &Ctx, stats: &Stats, ops: &[Op], depth: usize, thorough: bool, prefix: &str) -> Explored {
    let mut frontier: Vec<Vec<Op>> = vec![vec![]];
    let mut seen: HashSet<(u64, u64)> = HashSet::new();
    let mut states = 1u64;
    let mut transitions = 0u64;
    let mut samples: Vec<Value> = Vec::new();
    for d in 0..depth {
        let results: Vec<(Vec<Op>, u64, u64, Vec<Viol>, bool)> = frontier
            .par_iter()
            .flat_map_iter(|hist| {
                let mut sink = Vec::new();
                let (m, _r) = match guard(|| replay(hist, &mut sink)) {
                    Ok(x) => x,
                    Err(_) => return Vec::new().into_iter(),
                };
                let mut outv = Vec::new();
                for &op in ops {
                    if !enabled(&m, op, thorough) {
                        continue;
                    }
                    let mut h2 = hist.clone();
                    h2.push(op);
                    let mut viol = Vec::new();
                    let res = guard(|| {
                        let (m2, r2) = replay(&h2, &mut viol);
                        let mut hasher = std::collections::hash_map::DefaultHasher::new();
                        use std::hash::{Hash, Hasher};
                        m2.hash(&mut hasher);
                        (hasher.finish(), zone_digest(&r2))
                    });
                    match res {
                        Ok((mk, zk)) => outv.push((h2, mk, zk, viol, false)),
                        Err(p) => {
                            outv.push((h2, 0, 0, vec![Viol { sig: format!("C09|panic|{}", panic_class(&p)), what: p }], true));
                        }
                    }
                }
                outv.into_iter()
            })
            .collect();
        let mut next = Vec::new();
        for (h, mk, zk, viol, panicked) in results {
            transitions += 1;
            stats.eval();
            let tainted = !viol.is_empty();
            for v in viol {
                ctx.violation(&v.sig, &v.what, json!({"ops": h.iter().map(|o| format!("{:?}", o)).collect::<Vec<_>>()}));
            }
            if panicked || tainted {
                continue; // do not explore through a violating state
            }
            if seen.insert((mk, zk)) {
                states += 1;
                stats.distinct(mk ^ zk);
                if samples.len() < 3 && h.len() >= 4 {
                    samples.push(json!(h.iter().map(|o| format!("{:?}", o)).collect::<Vec<_>>()));
                }
                next.push(h);
            }
        }
        stats.count_n(&format!("{prefix}frontier.depth{}", d + 1), next.len() as u64);
        frontier = next;
    }
    if let Some(h) = frontier.last() {
        samples.push(json!(h.iter().map(|o| format!("{:?}", o)).collect::<Vec<_>>()));
    }
    Explored { states, transitions, samples }
}

fn main() {
    let ctx = Ctx::new("C09", "model_checking");
    let stats = Stats::new();
    let thorough = !ctx.quick();
    let mut ops: Vec<Op> = vec![Op::WOpen, Op::WOpenDiff, Op::WUpd(0, 2), Op::WUpd(1, 3), Op::WUpd(2, 4), Op::WRm(0), Op::WRemoveAll, Op::WCname, Op::WCommitBump, Op::WCommit, Op::WCommitFault, Op::WCommitReopen, Op::W2Try, Op::WDrop, Op::RAcq(0), Op::RObs(0), Op::RRel(0), Op::RAcq(1), Op::RObs(1)];
    if thorough {
        ops.extend([Op::WUpd(0, 5), Op::WRm(1), Op::WCommitKeepNode, Op::WStaleUpd(0, 7), Op::WStaleUpd(2, 8), Op::RRel(1)]);
    }
    let depth = if thorough { 8 } else { 7 };

    if let Some(p) = &ctx.replay {
        // replay one stored history on a fresh real zone, without the explorer
        let v: Value = serde_json::from_str(&std::fs::read_to_string(p).expect("replay")).expect("json");
        let hist: Vec<Op> = v["case"]["ops"].as_array().expect("ops").iter().map(|o| parse_op(o.as_str().unwrap())).collect();
        println!("replaying {} operations: {:?}", hist.len(), hist);
        for n in 1..=hist.len() {
            let mut viol = Vec::new();
            match guard(|| {
                replay(&hist[..n], &mut viol);
            }) {
                Ok(()) => {}
                Err(p) => viol.push(Viol { sig: format!("C09|panic|{}", panic_class(&p)), what: p }),
            }
            for x in viol {
                println!("  after step {n} ({:?}): {}", hist[n - 1], x.what);
                ctx.violation(&x.sig, &x.what, json!({"ops": hist[..n].iter().map(|o| format!("{:?}", o)).collect::<Vec<_>>()}));
            }
        }
        ctx.finish_quiet();
    }

    let a = explore(&ctx, &stats, &ops, depth, thorough, "");
    // part (u): the writer is a ZoneUpdater
    let mut uops: Vec<Op> = vec![Op::UNew, Op::UAdd(0), Op::UAdd(1), Op::UDel(2), Op::UDel(3), Op::UDeleteAll, Op::UBeginDel, Op::UBeginAdd, Op::UFinished, Op::UDrop, Op::W2Try, Op::RAcq(0), Op::RObs(0), Op::RRel(0), Op::RAcq(1), Op::RObs(1)];
    if thorough {
        uops.extend((0..UREC_ALL).flat_map(|k| [Op::UAdd(k), Op::UDel(k)]).filter(|o| !uops.contains(o)).collect::<Vec<_>>());
        uops.push(Op::RRel(1));
    }
    let udepth = if thorough { 8 } else { 7 };
    let u = explore(&ctx, &stats, &uops, udepth, thorough, "updater.");
    let (states, transitions) = (a.states + u.states, a.transitions + u.transitions);
    let samples = a.samples;
    let per = (QNAMES.len() * QTYPES.len() + 1) as u64; // full answers + the walk
    for (k, c) in [("observe.new-reader-vs-committed-content", &N_NEW_READER), ("observe.held-reader-sync-vs-acquisition", &N_PINNED), ("observe.async-awaited-at-once-vs-sync", &N_AGREE), ("observe.async-future-kept-across-steps-vs-acquisition", &N_DEFERRED), ("observe.async-future-awaited-after-release-vs-acquisition", &N_AFTER_RELEASE)] {
        stats.count_n(k, c.load(Ordering::Relaxed));
        stats.count_n("observe.answers-and-walks-compared", c.load(Ordering::Relaxed) * per);
    }
    ctx.finish(
        json!({
            "states": states,
            "transitions": transitions,
            "traces_validated_against_impl": transitions,
            "evaluations": transitions,
            "distinct_nontrivial": stats.distinct_count(),
            "rule": "BFS over all interleavings (operation granularity) of one writer at a time (open with and without diff collection/update (with read-back through the writer)/remove/remove_all/turning a name into a CNAME and back/commit with serial bump/commit/commit-then-reopen (multi-batch)/a second writer's attempt to get the zone while the first is open/commit that unwinds at its documented panic point (diff collected + node handle alive)/drop; thorough: also commit-keeping-the-node and writes through that stale node) and two readers (acquire/observe/release) to the depth bound, every history replayed on a fresh real zone; states deduplicated on (model state, sorted Debug rendering of the real zone incl. version vectors; observations and pending futures are not part of the key). A reader's observation = full answers (rcode, AA, answer, authority incl. the SOA of negative answers, additional; via Answer::to_message) to 7 names (incl. the apex) x 4 types (A, SOA, NS, CNAME) + the walk, taken through every ReadableZone entry point: query()/walk(); query_async()/walk_async() awaited at once (must agree with the synchronous route at the same moment); query_async()/walk_async() futures created at acquisition and kept across the following writer steps, awaited at the next observation or after the reader was released (must show the pinned version); is_async() stable while held. New readers: walk equals the committed content, every record in every section of every answer is held by the committed version, apex SOA/NS answers equal the committed RRsets. Part (u): a second BFS of the same kind (same readers, observations, oracles and state key) in which the writer is zonetree::update::ZoneUpdater: new (also while a finished updater is still alive: the zone must have been given back) / apply(AddRecord), apply(DeleteRecord) of records at the apex and below it, present and absent in the version edited / apply(DeleteAllRecords) / apply(BeginBatchDelete) / apply(BeginBatchAdd) / apply(Finished) / apply after Finished (must be refused) / drop of the updater at any point / a second writer's attempt to get the zone while the updater has it, in the sequences the ZoneUpdate documentation describes (single updates then Finished; single updates then batches; batches of BeginBatchDelete, deletes, BeginBatchAdd, adds; thorough: also non-committing updates outside these sequences, after which only the committed content is specified). Model from the documentation only: the edits in progress become the current version at BeginBatchDelete and at Finished and nowhere else, BeginBatchAdd and Finished put their SOA into the version being written, a drop before Finished leaves the last committed version",
            "updater_part": {"depth": udepth, "alphabet": uops.iter().map(|o| format!("{:?}", o)).collect::<Vec<_>>(), "records": (0..UREC_ALL).map(|k| format!("{}: {} {:?}", k, show(&urec(k).0), urec(k).1)).collect::<Vec<_>>(), "states": u.states, "transitions": u.transitions, "samples": u.samples},
            "observation": {"qnames": QNAMES.iter().map(|q| show_q(q)).collect::<Vec<_>>(), "qtypes": QTYPES.iter().map(|t| t.to_string()).collect::<Vec<_>>(), "entry_points": ["query", "walk", "query_async (awaited at once)", "walk_async (awaited at once)", "query_async (future kept across later steps)", "walk_async (future kept across later steps)", "query_async/walk_async (future awaited after release)", "is_async"], "questions_per_observation": QNAMES.len() * QTYPES.len()},
            "exhaustive": true,
            "depth": depth,
            "alphabet": ops.iter().map(|o| format!("{:?}", o)).collect::<Vec<_>>(),
            "samples": samples,
            "counters": stats.counters_json(),
        }),
        &["operation granularity only (thread-level schedules are the loom engine's part)", "NODATA-vs-NXDOMAIN correctness of answers is C08's business; C09 compares observations with each other and record sets with the model"],
    );
}
