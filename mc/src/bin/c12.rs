//! C12 — DNSSEC signatures made by the signer verify; the signed octets
//! follow RFC 4034.
//!
//! Exhaustive enumeration (no sampling) of
//!   * RRsets: per record type a small value list; every sequence of length
//!     1..=3 over it (so every permutation and every duplicate pattern), seven
//!     owner shapes (apex, a.z, *.z, *.a.z, sub.*.z, *.*.z, *.sub.*.z) x owner case forms, TTL menu,
//!     inception/expiration menu (incl. wrap across 2^32, reversed, the
//!     undefined 2^31 distance), signer-name case, class, every algorithm the
//!     ring backend can sign with (fixed key files of /repo/test-data),
//!     three signer entry points (sign_rrset, SortedRecords ->
//!     sign_sorted_rrset_in, sign_sorted_zone_records);
//!   * mixed-case names in RDATA: every ordered pair over a 27-name
//!     mixed-case menu in every name field of every name-bearing type;
//!   * multi-step signing histories: every sequence (to length 3) of
//!     sign_sorted_rrset_in calls sharing ONE scratch buffer, and
//!     sign_sorted_zone_records with every key list to length 3 (two
//!     algorithms, repeated keys) over zones of one or two RRsets;
//!   * faults at the signing primitive and dirty caller state (P8): the keys
//!     are `SigningKey<_, Faulty>` where `Faulty` implements the public
//!     `SignRaw` trait around a real ring key pair and returns the trait's
//!     error at a chosen call. Every call sequence to length 3 (thorough 4)
//!     of sign_sorted_rrset_in over {two keys} x {two RRsets} on ONE scratch
//!     Vec, each call with sign_raw succeeding or failing (all 2^n patterns)
//!     or refused for a reversed validity period, x what the caller left in
//!     the scratch Vec (nothing / one octet / unrelated octets / a complete
//!     signed-data image, on entry or before every call); every sequence to
//!     length 2 (thorough 3) over five entry points (sign_sorted_rrset_in,
//!     sign_rrset, Rrset::sign, sign_sorted_zone_records, in-place
//!     sign_zone) with the failure at every sign_raw position of a call, on
//!     state the caller keeps (scratch, key objects, Rrset / SortedRecords
//!     objects, a zone collection that in-place signing grows); every failed
//!     call is retried once on the same state at the end of the history;
//!   * key representations: BIND private-key text round trip and variants,
//!     KeyPair::from_bytes per algorithm (and every foreign / bit-flipped
//!     public key, which must be refused), sign_raw, generate();
//!   * every public construction route of SortedRecords (insert, extend,
//!     collect, remove_*, update_data) before signing;
//!   * every legitimate resolver-side transformation from a fixed menu
//!     (all permutations, duplicate removal, owner / RDATA-name / signer-name
//!     case changes, TTL decrement, wildcard expansion, round trip through an
//!     uncompressed and a compressed message, all combined);
//!   * fault enumeration: EVERY single-bit flip of every RR's wire form, of
//!     the RRSIG RDATA (fields, signer name, signature) and of the DNSKEY.
//!
//! Oracle (all written here, nothing taken from the library):
//!   * an RFC 4034 §3.1.8.1 / §6.2 / §6.3 / RFC 4035 §5.3.2 / RFC 6840 §5.1
//!     construction of the signed octets (own lower-casing by the RFC type
//!     list, own memcmp sort + dedup, original TTL, label count / wildcard
//!     owner reconstruction);
//!   * the signature must verify over THOSE octets with `ring` called
//!     directly (public key decoded from the .key file with an own base64
//!     decoder);
//!   * `RrsigExt::signed_data` must produce exactly those octets and
//!     `verify_signed_data` must return Ok after every legitimate transform;
//!   * key tag == RFC 4034 App. B written out; DS digest == ring::digest over
//!     owner | RDATA composed by hand;
//!   * each bit flip is classified by the independent construction:
//!     different signed octets / signature / key => verification must fail,
//!     identical signed octets => verification must still succeed;
//!   * P8: a call whose sign_raw failed returns Err and leaves no RRSIG (and
//!     an unchanged zone collection); every other call returns Ok and each
//!     of its RRSIGs passes the same field / ring-over-independent-octets /
//!     signed_data / verify_signed_data checks, whatever happened earlier on
//!     the same scratch / key / record objects.
use bytes::Bytes;
use domain::base::cmp::CanonicalOrd;
use domain::base::iana::{DigestAlgorithm, Rtype, SecurityAlgorithm};
use domain::base::name::{FlattenInto, Name, ParsedName, ToName};
use domain::base::rdata::ComposeRecordData;
use domain::base::{Message, Record, RecordData, Ttl};
use domain::crypto::sign::{KeyPair, SecretKeyBytes, SignError, SignRaw, Signature};
use domain::dnssec::sign::denial::config::DenialConfig;
use domain::dnssec::sign::keys::signingkey::SigningKey;
use domain::dnssec::sign::records::{DefaultSorter, RecordsIter, Rrset, SortedRecords};
use domain::dnssec::sign::signatures::rrsigs::{
    sign_rrset, sign_sorted_rrset_in, sign_sorted_zone_records, GenerateRrsigConfig,
};
use domain::dnssec::sign::traits::{Signable, SignableZoneInPlace};
use domain::dnssec::sign::SigningConfig;
use domain::dnssec::validator::base::{DnskeyExt, RrsigExt};
use domain::rdata::dnssec::Timestamp;
use domain::rdata::{AllRecordData, Dnskey, Rrsig, ZoneRecordData};
use mc::*;
use octseq::OctetsFrom;
use rayon::prelude::*;
use serde_json::{json, Value};
use std::cell::{Cell, RefCell};
use std::collections::BTreeMap;
use std::sync::Arc;

type LName = Name<Bytes>;
type ZData = ZoneRecordData<Bytes, LName>;
type ZRec = Record<LName, ZData>;
type VData = AllRecordData<Bytes, ParsedName<Bytes>>;
type VRec = Record<LName, VData>;
type LSig = Rrsig<Bytes, LName>;
type SKey = SigningKey<Bytes, KeyPair>;

const KEYDIR: &str = "/repo/test-data/dnssec-keys";

// ===================================================================
// raw (harness-side) representation
// ===================================================================

/// One RDATA field: opaque octets or a domain name (label list, absolute).
#[derive(Clone, Debug, PartialEq, Eq, Hash, PartialOrd, Ord)]
enum F {
    B(Vec<u8>),
    N(Vec<Vec<u8>>),
}

/// RDATA layout element, used to split received RDATA independently.
#[derive(Clone, Copy, Debug, PartialEq)]
enum L {
    Fix(usize),
    Name,
    CharStr,
    Rest,
}

/// What RFC 4034 §6.2 (as corrected by RFC 6840 §5.1) says about names
/// embedded in the RDATA of a type.
#[derive(Clone, Copy, Debug, PartialEq)]
enum Canon {
    /// not in the list: RDATA is used as is
    AsIs,
    /// in the list: embedded names are lower-cased
    Lower,
    /// NSEC: RFC 4034 says lower-case, RFC 6840 says do not: either accepted
    Open,
}

/// The RFC list, by type code (own transcription of RFC 4034 §6.2 item 3;
/// HINFO has no names; NSEC per RFC 6840 §5.1 is open).
fn rfc_canon(rtype: u16) -> Canon {
    match rtype {
        2 | 3 | 4 | 5 | 6 | 7 | 8 | 9 | 12 | 14 | 15 | 17 | 18 | 21 | 24 | 26 | 30 | 35 | 36
        | 33 | 39 | 38 | 46 => Canon::Lower,
        47 => Canon::Open,
        _ => Canon::AsIs,
    }
}

#[derive(Clone, Debug, PartialEq, Eq, Hash)]
struct RawRR {
    owner: Vec<Vec<u8>>,
    rtype: u16,
    class: u16,
    ttl: u32,
    fields: Vec<F>,
}

fn lower_labels(l: &[Vec<u8>]) -> Vec<Vec<u8>> {
    l.iter()
        .map(|x| {
            x.iter()
                .map(|b| if (b'A'..=b'Z').contains(b) { b + 32 } else { *b })
                .collect()
        })
        .collect()
}
fn upper_labels(l: &[Vec<u8>]) -> Vec<Vec<u8>> {
    l.iter()
        .map(|x| {
            x.iter()
                .map(|b| if (b'a'..=b'z').contains(b) { b - 32 } else { *b })
                .collect()
        })
        .collect()
}
fn name_wire(l: &[Vec<u8>]) -> Vec<u8> {
    let mut v = Vec::new();
    for x in l {
        v.push(x.len() as u8);
        v.extend_from_slice(x);
    }
    v.push(0);
    v
}
fn name_text(l: &[Vec<u8>]) -> String {
    if l.is_empty() {
        return ".".into();
    }
    let mut s = String::new();
    for x in l {
        for &b in x {
            if b.is_ascii_graphic() && b != b'.' && b != b'\\' {
                s.push(b as char);
            } else {
                s.push_str(&format!("\\{b:03}"));
            }
        }
        s.push('.');
    }
    s
}
/// "a.B.z" -> labels (absolute; "." -> root)
fn labels(s: &str) -> Vec<Vec<u8>> {
    s.split('.')
        .filter(|x| !x.is_empty())
        .map(|x| x.as_bytes().to_vec())
        .collect()
}

impl RawRR {
    fn rdata_plain(&self) -> Vec<u8> {
        let mut v = Vec::new();
        for f in &self.fields {
            match f {
                F::B(b) => v.extend_from_slice(b),
                F::N(n) => v.extend_from_slice(&name_wire(n)),
            }
        }
        v
    }
    /// Canonical RDATA by the RFC list. `open_lower` selects the RFC 4034
    /// reading (lower-case) for NSEC instead of the RFC 6840 one.
    fn rdata_canon(&self, open_lower: bool) -> Vec<u8> {
        let lower = match rfc_canon(self.rtype) {
            Canon::Lower => true,
            Canon::Open => open_lower,
            Canon::AsIs => false,
        };
        let mut v = Vec::new();
        for f in &self.fields {
            match f {
                F::B(b) => v.extend_from_slice(b),
                F::N(n) => {
                    if lower {
                        v.extend_from_slice(&name_wire(&lower_labels(n)))
                    } else {
                        v.extend_from_slice(&name_wire(n))
                    }
                }
            }
        }
        v
    }
    fn json(&self) -> Value {
        json!({"owner": name_text(&self.owner), "type": self.rtype, "class": self.class, "ttl": self.ttl, "rdata": hex(&self.rdata_plain())})
    }
}

/// Split RDATA octets by a layout. None when the octets do not fit.
fn split_rdata(layout: &[L], rd: &[u8]) -> Option<Vec<F>> {
    let mut pos = 0usize;
    let mut out = Vec::new();
    for l in layout {
        match *l {
            L::Fix(n) => {
                out.push(F::B(rd.get(pos..pos + n)?.to_vec()));
                pos += n;
            }
            L::CharStr => {
                let n = *rd.get(pos)? as usize;
                out.push(F::B(rd.get(pos..pos + 1 + n)?.to_vec()));
                pos += 1 + n;
            }
            L::Rest => {
                out.push(F::B(rd.get(pos..)?.to_vec()));
                pos = rd.len();
            }
            L::Name => {
                let mut labs = Vec::new();
                let mut total = 0usize;
                loop {
                    let n = *rd.get(pos)? as usize;
                    if n == 0 {
                        pos += 1;
                        total += 1;
                        break;
                    }
                    if n > 63 {
                        return None;
                    }
                    labs.push(rd.get(pos + 1..pos + 1 + n)?.to_vec());
                    pos += 1 + n;
                    total += 1 + n;
                }
                if total > 255 {
                    return None;
                }
                out.push(F::N(labs));
            }
        }
    }
    if pos != rd.len() {
        return None;
    }
    Some(out)
}

/// RRSIG RDATA fields as the harness sees them.
#[derive(Clone, Debug, PartialEq, Eq)]
struct SigF {
    tc: u16,
    alg: u8,
    labels: u8,
    ottl: u32,
    exp: u32,
    inc: u32,
    tag: u16,
    signer: Vec<Vec<u8>>,
    sig: Vec<u8>,
}

impl SigF {
    fn head(&self) -> Vec<u8> {
        let mut v = Vec::new();
        v.extend_from_slice(&self.tc.to_be_bytes());
        v.push(self.alg);
        v.push(self.labels);
        v.extend_from_slice(&self.ottl.to_be_bytes());
        v.extend_from_slice(&self.exp.to_be_bytes());
        v.extend_from_slice(&self.inc.to_be_bytes());
        v.extend_from_slice(&self.tag.to_be_bytes());
        v
    }
    fn as_rr(&self, owner: &[Vec<u8>], class: u16, ttl: u32) -> RawRR {
        RawRR {
            owner: owner.to_vec(),
            rtype: 46,
            class,
            ttl,
            fields: vec![F::B(self.head()), F::N(self.signer.clone()), F::B(self.sig.clone())],
        }
    }
    fn from_fields(f: &[F]) -> Option<SigF> {
        let (h, n, s) = match f {
            [F::B(h), F::N(n), F::B(s)] if h.len() == 18 => (h, n, s),
            _ => return None,
        };
        Some(SigF {
            tc: u16::from_be_bytes([h[0], h[1]]),
            alg: h[2],
            labels: h[3],
            ottl: u32::from_be_bytes([h[4], h[5], h[6], h[7]]),
            exp: u32::from_be_bytes([h[8], h[9], h[10], h[11]]),
            inc: u32::from_be_bytes([h[12], h[13], h[14], h[15]]),
            tag: u16::from_be_bytes([h[16], h[17]]),
            signer: n.clone(),
            sig: s.clone(),
        })
    }
    fn json(&self) -> Value {
        json!({"type_covered": self.tc, "alg": self.alg, "labels": self.labels, "orig_ttl": self.ottl, "exp": self.exp, "inc": self.inc,
               "key_tag": self.tag, "signer": name_text(&self.signer), "sig": hex(&self.sig)})
    }
}

// ===================================================================
// the independent RFC constructions
// ===================================================================

/// RFC 4034 §3.1.8.1 signed data, with RFC 4035 §5.3.2 owner reconstruction,
/// RFC 4034 §6.2 canonical RR form and §6.3 ordering + duplicate removal.
/// Returns None when the RRSIG Labels field exceeds the number of labels of
/// an owner (RFC 4035 §5.3.2: such an RRSIG must not be used; no octets are
/// defined).
fn ref_octets(s: &SigF, rrs: &[RawRR], open_lower: bool) -> Option<Vec<u8>> {
    let (mut out, mut items) = ref_parts(s, rrs, open_lower, false, false)?;
    // §6.3: RDATA as left-justified unsigned octet sequences; absence of an
    // octet sorts before a zero octet == slice order of [u8].
    items.sort();
    items.dedup();
    for (_, it) in items {
        out.extend_from_slice(&it);
    }
    Some(out)
}

/// RRSIG_RDATA prefix and the RR(i) items (canonical RDATA, whole item), in
/// the order given, duplicates kept. `no_lower` builds the items WITHOUT the
/// §6.2 lower-casing of RDATA names (only used to diagnose a mismatch).
fn ref_parts(s: &SigF, rrs: &[RawRR], open_lower: bool, no_lower: bool, signer_as_is: bool) -> Option<(Vec<u8>, Vec<(Vec<u8>, Vec<u8>)>)> {
    let mut out = s.head();
    if signer_as_is {
        out.extend_from_slice(&name_wire(&s.signer));
    } else {
        out.extend_from_slice(&name_wire(&lower_labels(&s.signer)));
    }
    let mut items: Vec<(Vec<u8>, Vec<u8>)> = Vec::new();
    for rr in rrs {
        let n = rr.owner.len();
        let k = s.labels as usize;
        if k > n {
            return None;
        }
        let low = lower_labels(&rr.owner);
        let mut name = Vec::new();
        if k < n {
            name.extend_from_slice(b"\x01*");
            name.extend_from_slice(&name_wire(&low[n - k..]));
        } else {
            name.extend_from_slice(&name_wire(&low));
        }
        let rd = if no_lower { rr.rdata_plain() } else { rr.rdata_canon(open_lower) };
        let mut item = name;
        item.extend_from_slice(&rr.rtype.to_be_bytes());
        item.extend_from_slice(&rr.class.to_be_bytes());
        item.extend_from_slice(&s.ottl.to_be_bytes());
        item.extend_from_slice(&(rd.len() as u16).to_be_bytes());
        item.extend_from_slice(&rd);
        items.push((rd, item));
    }
    Some((out, items))
}

/// When the library's octets are not the RFC ones: find out which deviation
/// from the construction reproduces them (keeps violation classes narrow and
/// the report useful). `test` says whether candidate octets are the library's.
fn diagnose(s: &SigF, rrs: &[RawRR], open_lower: bool, test: &dyn Fn(&[u8]) -> bool) -> String {
    for signer_as_is in [false, true] {
        for no_lower in [false, true] {
            for keep_dups in [false, true] {
                let Some((prefix, mut items)) = ref_parts(s, rrs, open_lower, no_lower, signer_as_is) else { continue };
                items.sort();
                if !keep_dups {
                    items.dedup();
                }
                for p in perms(items.len()) {
                    let mut o = prefix.clone();
                    for &i in &p {
                        o.extend_from_slice(&items[i].1);
                    }
                    if test(&o) {
                        let mut v = Vec::new();
                        if signer_as_is {
                            v.push("signer-name-not-lower-cased");
                        }
                        if keep_dups && items.windows(2).any(|w| w[0] == w[1]) {
                            v.push("duplicate-RRs-kept");
                        }
                        if no_lower {
                            v.push("rdata-names-not-lower-cased");
                        }
                        if p.windows(2).any(|w| w[0] > w[1]) {
                            v.push("RRs-not-in-canonical-order");
                        }
                        if v.is_empty() {
                            v.push("same-octets?");
                        }
                        return v.join("+");
                    }
                }
            }
        }
    }
    "other".into()
}

/// Violation class for "octets are not the RFC ones". `component` is
/// "signer" or "signed_data"; `ctxname` the signer entry point or the
/// transformation after which it was seen.
fn octets_class(component: &str, ctxname: &str, spec: &TypeSpec, d: &str) -> String {
    let base = format!("C12|{component}|octets-not-RFC4034-3.1.8.1");
    if d.contains("duplicate-RRs-kept") {
        // other deviations on top of kept duplicates show up by themselves in
        // the duplicate-free cases. sign_rrset never removes duplicates; the
        // SortedRecords pipelines are supposed to, so there the type matters.
        if ctxname == "sign_rrset" {
            format!("{base}|{ctxname}|duplicate-RRs-kept")
        } else {
            format!("{base}|{ctxname}|type={}|duplicate-RRs-kept", spec.mn)
        }
    } else if ctxname.contains("update_data") && d == "RRs-not-in-canonical-order" {
        format!("{base}|SortedRecords::update_data|{d}")
    } else if d == "signer-name-not-lower-cased" {
        format!("{base}|{d}")
    } else if spec.lib_unknown_listed && d == "rdata-names-not-lower-cased" {
        format!("{base}|RFC4034-6.2-listed-type-without-library-type|{d}")
    } else if d == "other" && component == "signer" && ctxname.contains('#') {
        // multi-step histories: the position in the history is the structure
        format!("{base}|{ctxname}|other")
    } else if component == "signer" && ctxname.starts_with("fault-history") && (d == "other" || d.starts_with("sign_raw-was-handed")) {
        // histories with injected sign_raw failures / caller-dirtied scratch:
        // entry point and what happened before the call are the structure
        format!("{base}|{ctxname}|{d}")
    } else if d == "other" && component == "signed_data" {
        format!("{base}|other|after={ctxname}")
    } else {
        format!("{base}|type={}|{d}", spec.mn)
    }
}

/// true when all RRs have the same owner (case-insensitively), type, class.
fn is_rrset(rrs: &[RawRR], rtype: u16) -> bool {
    rrs.iter().all(|r| {
        r.rtype == rtype && r.class == rrs[0].class && lower_labels(&r.owner) == lower_labels(&rrs[0].owner)
    })
}

/// RFC 4034 Appendix B, over the DNSKEY RDATA octets.
fn keytag_app_b(rdata: &[u8]) -> u16 {
    let mut ac: u64 = 0;
    for (i, &b) in rdata.iter().enumerate() {
        ac += if i & 1 == 1 { b as u64 } else { (b as u64) << 8 };
    }
    ac += (ac >> 16) & 0xFFFF;
    (ac & 0xFFFF) as u16
}

/// Own base64 decoder (RFC 4648 §4), strict enough for the key files.
fn b64(s: &str) -> Vec<u8> {
    let mut acc: u32 = 0;
    let mut bits = 0;
    let mut out = Vec::new();
    for c in s.bytes() {
        let v = match c {
            b'A'..=b'Z' => c - b'A',
            b'a'..=b'z' => c - b'a' + 26,
            b'0'..=b'9' => c - b'0' + 52,
            b'+' => 62,
            b'/' => 63,
            b'=' => break,
            _ => continue,
        } as u32;
        acc = (acc << 6) | v;
        bits += 6;
        if bits >= 8 {
            bits -= 8;
            out.push((acc >> bits) as u8);
            acc &= (1 << bits) - 1;
        }
    }
    out
}

/// RFC 3110 §2: split the public key field of an RSA DNSKEY into exponent and
/// modulus (own reading; no validity judgement beyond "the octets are there").
fn rsa_split(pubkey: &[u8]) -> Option<(&[u8], &[u8])> {
    let (l, off) = match pubkey {
        [] => return None,
        [0, hi, lo, ..] => (u16::from_be_bytes([*hi, *lo]) as usize, 3),
        [0, ..] => return None,
        [l, ..] => (*l as usize, 1),
    };
    if pubkey.len() < off + l {
        return None;
    }
    Some((&pubkey[off..off + l], &pubkey[off + l..]))
}

/// Verification with ring called directly (not through the library).
fn ring_verify(alg: u8, pubkey: &[u8], msg: &[u8], sig: &[u8]) -> bool {
    use ring::signature as rs;
    match alg {
        5 | 7 | 8 | 10 => {
            // RFC 3110 §2 public key format; RFC 3110 / 5702: PKCS#1 v1.5 with
            // SHA-1 (5, 7), SHA-256 (8), SHA-512 (10); 1024-bit keys and up
            let Some((e, n)) = rsa_split(pubkey) else { return false };
            let params = match alg {
                5 | 7 => &rs::RSA_PKCS1_1024_8192_SHA1_FOR_LEGACY_USE_ONLY,
                8 => &rs::RSA_PKCS1_1024_8192_SHA256_FOR_LEGACY_USE_ONLY,
                _ => &rs::RSA_PKCS1_1024_8192_SHA512_FOR_LEGACY_USE_ONLY,
            };
            rs::RsaPublicKeyComponents { n, e }.verify(params, msg, sig).is_ok()
        }
        13 | 14 => {
            let mut k = vec![4u8];
            k.extend_from_slice(pubkey);
            let a: &'static dyn rs::VerificationAlgorithm = if alg == 13 {
                &rs::ECDSA_P256_SHA256_FIXED
            } else {
                &rs::ECDSA_P384_SHA384_FIXED
            };
            rs::UnparsedPublicKey::new(a, k).verify(msg, sig).is_ok()
        }
        15 => rs::UnparsedPublicKey::new(&rs::ED25519, pubkey).verify(msg, sig).is_ok(),
        _ => false,
    }
}

// ===================================================================
// own message writer (with optional compression)
// ===================================================================

struct MsgOut {
    bytes: Vec<u8>,
    /// per RR: (start of RR, start of RDATA, end of RR)
    spans: Vec<(usize, usize, usize)>,
}

/// RFC 3597 §4: only the RFC 1035 types may have compressed RDATA names.
fn rdata_compressible(rtype: u16) -> bool {
    matches!(rtype, 2 | 3 | 4 | 5 | 6 | 7 | 8 | 9 | 12 | 14 | 15)
}

fn build_msg(rrs: &[RawRR], compress: bool) -> MsgOut {
    let mut m = vec![0u8; 12];
    m[2] = 0x84; // QR, AA
    m[6..8].copy_from_slice(&(rrs.len() as u16).to_be_bytes());
    let mut dict: Vec<(Vec<Vec<u8>>, usize)> = Vec::new();
    let mut spans = Vec::new();
    fn put_name(m: &mut Vec<u8>, dict: &mut Vec<(Vec<Vec<u8>>, usize)>, n: &[Vec<u8>], compress: bool) {
        for i in 0..n.len() {
            let suf = lower_labels(&n[i..]);
            if compress {
                if let Some((_, off)) = dict.iter().find(|(d, _)| *d == suf) {
                    m.push(0xC0 | (*off >> 8) as u8);
                    m.push(*off as u8);
                    return;
                }
            }
            if m.len() < 0x4000 {
                dict.push((suf, m.len()));
            }
            m.push(n[i].len() as u8);
            m.extend_from_slice(&n[i]);
        }
        m.push(0);
    }
    for rr in rrs {
        let start = m.len();
        put_name(&mut m, &mut dict, &rr.owner, compress);
        m.extend_from_slice(&rr.rtype.to_be_bytes());
        m.extend_from_slice(&rr.class.to_be_bytes());
        m.extend_from_slice(&rr.ttl.to_be_bytes());
        let lenpos = m.len();
        m.extend_from_slice(&[0, 0]);
        let rds = m.len();
        for f in &rr.fields {
            match f {
                F::B(b) => m.extend_from_slice(b),
                F::N(n) => {
                    let c = compress && rdata_compressible(rr.rtype);
                    if c {
                        put_name(&mut m, &mut dict, n, true);
                    } else {
                        // never a pointer target either: keep it simple
                        let mut nodict = Vec::new();
                        put_name(&mut m, &mut nodict, n, false);
                    }
                }
            }
        }
        let rdlen = (m.len() - rds) as u16;
        m[lenpos..lenpos + 2].copy_from_slice(&rdlen.to_be_bytes());
        spans.push((start, rds, m.len()));
    }
    MsgOut { bytes: m, spans }
}

// ===================================================================
// library adapters (everything here is the subject; called under guard)
// ===================================================================

fn lname(l: &[Vec<u8>]) -> LName {
    Name::from_octets(Bytes::from(name_wire(l))).expect("harness name")
}

/// Signer-side records: parse an uncompressed message, flatten.
fn lib_zrecs(msg: &[u8]) -> Result<Vec<ZRec>, String> {
    let m = Message::from_octets(Bytes::copy_from_slice(msg)).map_err(|e| format!("message: {e}"))?;
    let mut out = Vec::new();
    for item in m.answer().map_err(|e| format!("answer: {e}"))? {
        let pr = item.map_err(|e| format!("record: {e}"))?;
        let rec = pr
            .to_record::<ZoneRecordData<Bytes, ParsedName<Bytes>>>()
            .map_err(|e| format!("rdata: {e}"))?
            .ok_or_else(|| "rdata: not a zone record type".to_string())?;
        let data: ZData = rec.data().clone().flatten_into();
        out.push(Record::new(pr.owner().to_name::<Bytes>(), pr.class(), pr.ttl(), data));
    }
    Ok(out)
}

/// Validator-side records, exactly as dnssec::validator::group builds them:
/// the first `n` answers as AllRecordData with ParsedName, the next one (if
/// `with_sig`) as RRSIG.
fn lib_vrecs(msg: &[u8], n: usize, with_sig: bool) -> Result<(Vec<VRec>, Option<LSig>), String> {
    let m = Message::from_octets(Bytes::copy_from_slice(msg)).map_err(|e| format!("message: {e}"))?;
    let mut out = Vec::new();
    let mut sig = None;
    for (i, item) in m.answer().map_err(|e| format!("answer: {e}"))?.enumerate() {
        let pr = item.map_err(|e| format!("record: {e}"))?;
        if i < n {
            let rec = pr
                .to_record::<VData>()
                .map_err(|e| format!("rdata: {e}"))?
                .ok_or_else(|| "rdata: none".to_string())?;
            out.push(Record::new(pr.owner().to_name::<Bytes>(), pr.class(), pr.ttl(), rec.data().clone()));
        } else if i == n && with_sig {
            let rec = pr
                .to_record::<Rrsig<Bytes, ParsedName<Bytes>>>()
                .map_err(|e| format!("rrsig rdata: {e}"))?
                .ok_or_else(|| "rrsig: not an RRSIG".to_string())?;
            let r = rec.data();
            sig = Some(
                Rrsig::new(
                    r.type_covered(),
                    r.algorithm(),
                    r.labels(),
                    r.original_ttl(),
                    r.expiration(),
                    r.inception(),
                    r.key_tag(),
                    r.signer_name().to_name::<Bytes>(),
                    Bytes::copy_from_slice(r.signature().as_ref()),
                )
                .map_err(|e| format!("rrsig new: {e}"))?,
            );
        }
    }
    if out.len() != n || (with_sig && sig.is_none()) {
        return Err("record count".into());
    }
    Ok((out, sig))
}

fn lib_sig_from(s: &SigF) -> LSig {
    Rrsig::new(
        Rtype::from_int(s.tc),
        SecurityAlgorithm::from_int(s.alg),
        s.labels,
        Ttl::from_secs(s.ottl),
        Timestamp::from(s.exp),
        Timestamp::from(s.inc),
        s.tag,
        lname(&s.signer),
        Bytes::from(s.sig.clone()),
    )
    .expect("rrsig")
}

fn sigf_of(r: &LSig) -> SigF {
    SigF {
        tc: r.type_covered().to_int(),
        alg: r.algorithm().to_int(),
        labels: r.labels(),
        ottl: r.original_ttl().as_secs(),
        exp: r.expiration().into_int(),
        inc: r.inception().into_int(),
        tag: r.key_tag(),
        signer: name_labels(r.signer_name()),
        sig: r.signature().as_ref().to_vec(),
    }
}

/// Labels of a library name read from its uncompressed octets (own reader).
fn name_labels(n: &LName) -> Vec<Vec<u8>> {
    wire::validate_name(n.as_slice(), true).expect("library name is a valid absolute name")
}

fn lib_signed_data<D>(sig: &LSig, recs: &mut [Record<LName, D>]) -> Vec<u8>
where
    D: RecordData + CanonicalOrd + ComposeRecordData + Sized,
{
    let mut buf = Vec::new();
    sig.signed_data(&mut buf, recs).expect("Vec never short");
    buf
}

// ===================================================================
// keys
// ===================================================================

struct KeyMat {
    alg: u8,
    tag_file: u16,
    owner_file: Vec<Vec<u8>>,
    flags: u16,
    pubkey: Vec<u8>,
    /// DNSKEY RDATA composed by hand from the hand-decoded fields
    rdata: Vec<u8>,
    dnskey: Dnskey<Bytes>,
    /// one signing key per signer-name variant; empty when the ring backend
    /// cannot sign with this algorithm
    signers: Vec<SKey>,
    ds_text: Option<String>,
    key_text: String,
    priv_text: String,
}

const SIGNER_NAMES: [&str; 2] = ["z.", "Z."];

fn load_key(alg: u8, tag: u16, can_sign: bool) -> KeyMat {
    let base = format!("{KEYDIR}/Ktest.+{alg:03}+{tag:05}");
    let key_text = std::fs::read_to_string(format!("{base}.key")).expect("key file");
    let ds_text = std::fs::read_to_string(format!("{base}.ds")).ok();
    // own parse of the .key line
    let line = key_text
        .lines()
        .find(|l| !l.trim().is_empty() && !l.trim_start().starts_with(';'))
        .expect("key line");
    let line = line.split(';').next().unwrap();
    let tok: Vec<&str> = line.split_whitespace().collect();
    let di = tok.iter().position(|t| *t == "DNSKEY").expect("DNSKEY token");
    let owner_file = labels(tok[0]);
    let flags: u16 = tok[di + 1].parse().unwrap();
    let proto: u8 = tok[di + 2].parse().unwrap();
    let a: u8 = tok[di + 3].parse().unwrap();
    assert_eq!(a, alg);
    let pubkey = b64(&tok[di + 4..].concat());
    let mut rdata = Vec::new();
    rdata.extend_from_slice(&flags.to_be_bytes());
    rdata.push(proto);
    rdata.push(alg);
    rdata.extend_from_slice(&pubkey);
    let dnskey = Dnskey::new(flags, proto, SecurityAlgorithm::from_int(alg), Bytes::from(pubkey.clone())).unwrap();
    let mut signers = Vec::new();
    let priv_text = std::fs::read_to_string(format!("{base}.private")).unwrap_or_default();
    if can_sign {
        for sn in SIGNER_NAMES {
            let secret = SecretKeyBytes::parse_from_bind(&priv_text).expect("private key parses");
            let pubrec = domain::dnssec::common::parse_from_bind::<Vec<u8>>(&key_text).expect("public key parses");
            let kp = KeyPair::from_bytes(&secret, pubrec.data()).expect("key pair imports");
            signers.push(SigningKey::new(lname(&labels(sn)), flags, kp));
        }
    }
    KeyMat { alg, tag_file: tag, owner_file, flags, pubkey, rdata, dnskey, signers, ds_text, key_text, priv_text }
}

// ===================================================================
// type / value menu
// ===================================================================

struct TypeSpec {
    rtype: u16,
    mn: &'static str,
    layout: Vec<L>,
    values: Vec<Vec<F>>,
    /// in the RFC 4034 §6.2 list but parsed by the library as unknown data
    lib_unknown_listed: bool,
    /// mixed-case name values (see `mixed_names`): values[0] with each name
    /// field in turn replaced by every name of the mixed-case name menu
    mixed: Vec<Vec<F>>,
}

/// The mixed-case name menu: first label = every string of length 2 over
/// {a, A, b}, second label in {z, Z, y}. Every ordered pair of these is used,
/// so all relations "first raw difference is case-only / real" x "a later
/// octet differs for real / only in case / not at all" occur, in the first
/// label and across labels.
fn mixed_names() -> Vec<Vec<Vec<u8>>> {
    let mut v = Vec::new();
    for a in [b'a', b'A', b'b'] {
        for b in [b'a', b'A', b'b'] {
            for t in [b'z', b'Z', b'y'] {
                v.push(vec![vec![a, b], vec![t]]);
            }
        }
    }
    v
}

fn mixed_values(template: &[F]) -> Vec<Vec<F>> {
    let mut out = Vec::new();
    for (i, f) in template.iter().enumerate() {
        if matches!(f, F::N(_)) {
            for n in mixed_names() {
                let mut v = template.to_vec();
                v[i] = F::N(n);
                out.push(v);
            }
        }
    }
    out
}

fn fb(b: &[u8]) -> F {
    F::B(b.to_vec())
}
fn fnm(s: &str) -> F {
    F::N(labels(s))
}
fn fcs(s: &[u8]) -> F {
    let mut v = vec![s.len() as u8];
    v.extend_from_slice(s);
    F::B(v)
}
fn cat(parts: &[&[u8]]) -> Vec<u8> {
    parts.concat()
}
fn nw(s: &str) -> Vec<u8> {
    name_wire(&labels(s))
}
fn fill(n: usize, start: u8) -> Vec<u8> {
    (0..n).map(|i| start.wrapping_add(i as u8)).collect()
}

/// The four names used in name-bearing RDATA: v0/v1 are case twins (the same
/// record after §6.2 lower-casing, different records for types outside the
/// list); ab.z vs b.z order differently by name order and by octet order.
const NM: [&str; 4] = ["b.z", "B.Z", "ab.z", "ns1.z"];

fn type_menu(quick: bool) -> Vec<TypeSpec> {
    let mut t: Vec<TypeSpec> = Vec::new();
    let mut add = |rtype: u16, mn: &'static str, layout: Vec<L>, values: Vec<Vec<F>>, unk: bool| {
        let mixed = mixed_values(&values[0]);
        t.push(TypeSpec { rtype, mn, layout, values, lib_unknown_listed: unk, mixed });
    };
    let single = |_: ()| -> Vec<Vec<F>> { NM.iter().map(|n| vec![fnm(n)]).collect() };
    let pref_name = |_: ()| -> Vec<Vec<F>> {
        vec![
            vec![fb(&[0, 10]), fnm(NM[0])],
            vec![fb(&[0, 10]), fnm(NM[1])],
            vec![fb(&[0, 10]), fnm(NM[2])],
            vec![fb(&[1, 0]), fnm("a.z")],
        ]
    };
    let two = |_: ()| -> Vec<Vec<F>> {
        vec![
            vec![fnm("b.z"), fnm("c.z")],
            vec![fnm("B.Z"), fnm("C.z")],
            vec![fnm("ab.z"), fnm("c.z")],
            vec![fnm("b.z"), fnm("ab.z")],
        ]
    };
    add(1, "A", vec![L::Fix(4)], vec![vec![fb(&[192, 0, 2, 1])], vec![fb(&[192, 0, 2, 2])], vec![fb(&[10, 0, 0, 255])], vec![fb(&[255, 0, 0, 1])]], false);
    let v6 = |last: u8, first: u8| {
        let mut a = [0u8; 16];
        a[0] = first;
        a[15] = last;
        vec![fb(&a)]
    };
    add(28, "AAAA", vec![L::Fix(16)], vec![v6(1, 0x20), v6(2, 0x20), v6(0, 0), v6(1, 0xff)], false);
    add(2, "NS", vec![L::Name], single(()), false);
    add(5, "CNAME", vec![L::Name], single(()), false);
    add(15, "MX", vec![L::Fix(2), L::Name], pref_name(()), false);
    let soa_tail = |serial: u32| {
        let mut v = serial.to_be_bytes().to_vec();
        for x in [7200u32, 3600, 1209600, 300] {
            v.extend_from_slice(&x.to_be_bytes());
        }
        v
    };
    add(
        6,
        "SOA",
        vec![L::Name, L::Name, L::Fix(20)],
        vec![
            vec![fnm("b.z"), fnm("h.z"), fb(&soa_tail(1))],
            vec![fnm("B.Z"), fnm("H.Z"), fb(&soa_tail(1))],
            vec![fnm("ab.z"), fnm("h.z"), fb(&soa_tail(1))],
            vec![fnm("b.z"), fnm("h.z"), fb(&soa_tail(0x0100_0000))],
        ],
        false,
    );
    add(16, "TXT", vec![L::Rest], vec![vec![fb(b"\x01a")], vec![fb(b"\x01A")], vec![fb(b"\x01a\x01b")], vec![fb(b"\x02ab")]], false);
    add(
        33,
        "SRV",
        vec![L::Fix(6), L::Name],
        vec![
            vec![fb(&[0, 0, 0, 0, 0, 80]), fnm(NM[0])],
            vec![fb(&[0, 0, 0, 0, 0, 80]), fnm(NM[1])],
            vec![fb(&[0, 0, 0, 0, 0, 80]), fnm(NM[2])],
            vec![fb(&[0, 1, 0, 0, 1, 187]), fnm(NM[0])],
        ],
        false,
    );
    let ds = |tag: u16, alg: u8, dt: u8, n: usize, s: u8| vec![fb(&cat(&[&tag.to_be_bytes(), &[alg, dt], &fill(n, s)]))];
    let ds_vals = vec![ds(12345, 13, 2, 32, 0x11), ds(12345, 13, 2, 32, 0x12), ds(12344, 8, 1, 20, 0x80), ds(12345, 13, 4, 48, 0x11)];
    add(43, "DS", vec![L::Rest], ds_vals.clone(), false);
    let dk = |flags: u16, alg: u8, n: usize, s: u8| vec![fb(&cat(&[&flags.to_be_bytes(), &[3, alg], &fill(n, s)]))];
    let dk_vals = vec![dk(257, 15, 32, 0x40), dk(256, 15, 32, 0x40), dk(257, 13, 64, 0xf0), dk(256, 8, 260, 0x03)];
    add(48, "DNSKEY", vec![L::Rest], dk_vals.clone(), false);
    let bm3: &[u8] = b"\x00\x06\x40\x00\x00\x00\x00\x03";
    add(
        47,
        "NSEC",
        vec![L::Name, L::Rest],
        vec![
            vec![fnm(NM[0]), fb(bm3)],
            vec![fnm(NM[1]), fb(bm3)],
            vec![fnm(NM[0]), fb(b"\x00\x01\x40")],
            vec![fnm(NM[2]), fb(bm3)],
        ],
        false,
    );
    let svcb = |_: ()| -> Vec<Vec<F>> {
        vec![
            vec![fb(&cat(&[&[0, 1], &nw("b.z")]))],
            vec![fb(&cat(&[&[0, 1], &nw("B.Z")]))],
            vec![fb(&cat(&[&[0, 1], &nw("ab.z")]))],
            vec![fb(&cat(&[&[0, 1], &nw("b.z"), &[0, 1, 0, 3, 2, b'h', b'2']]))],
        ]
    };
    add(64, "SVCB", vec![L::Rest], svcb(()), false);
    // --- thorough adds the rest of the zone types
    if !quick {
        for (c, m) in [(3u16, "MD"), (4, "MF"), (7, "MB"), (8, "MG"), (9, "MR"), (12, "PTR"), (39, "DNAME")] {
            add(c, m, vec![L::Name], single(()), false);
        }
        add(14, "MINFO", vec![L::Name, L::Name], two(()), false);
        add(17, "RP", vec![L::Name, L::Name], two(()), false);
        add(
            13,
            "HINFO",
            vec![L::CharStr, L::CharStr],
            vec![vec![fcs(b"cpu"), fcs(b"os")], vec![fcs(b"CPU"), fcs(b"os")], vec![fcs(b"c"), fcs(b"puos")], vec![fcs(b""), fcs(b"")]],
            false,
        );
        let naptr = |flags: &[u8], repl: &str| vec![fb(&[0, 100, 0, 10]), fcs(flags), fcs(b"E2U+sip"), fcs(b""), fnm(repl)];
        add(
            35,
            "NAPTR",
            vec![L::Fix(4), L::CharStr, L::CharStr, L::CharStr, L::Name],
            vec![naptr(b"u", NM[0]), naptr(b"u", NM[1]), naptr(b"U", NM[0]), naptr(b"u", NM[2])],
            false,
        );
        add(59, "CDS", vec![L::Rest], ds_vals.clone(), false);
        add(60, "CDNSKEY", vec![L::Rest], dk_vals.clone(), false);
        let n3 = |flags: u8, iter: u16, salt: &[u8]| {
            vec![fb(&cat(&[&[1, flags], &iter.to_be_bytes(), &[salt.len() as u8], salt, &[20], &fill(20, 0x30), b"\x00\x01\x40"]))]
        };
        add(50, "NSEC3", vec![L::Rest], vec![n3(0, 0, b""), n3(1, 0, b""), n3(0, 0, b"\xab\xcd"), n3(0, 10, b"")], false);
        let n3p = |flags: u8, iter: u16, salt: &[u8]| vec![fb(&cat(&[&[1, flags], &iter.to_be_bytes(), &[salt.len() as u8], salt]))];
        add(51, "NSEC3PARAM", vec![L::Rest], vec![n3p(0, 0, b""), n3p(0, 10, b""), n3p(0, 0, b"\xab\xcd"), n3p(1, 0, b"")], false);
        add(65, "HTTPS", vec![L::Rest], svcb(()), false);
        add(
            45,
            "IPSECKEY",
            vec![L::Rest],
            vec![
                vec![fb(&cat(&[&[10, 3, 2], &nw("gw.z"), &[1, 2, 3, 4]]))],
                vec![fb(&cat(&[&[10, 3, 2], &nw("GW.Z"), &[1, 2, 3, 4]]))],
                vec![fb(&cat(&[&[10, 0, 2], &[1, 2, 3, 4]]))],
                vec![fb(&cat(&[&[10, 1, 2], &[192, 0, 2, 1], &[1, 2, 3, 4]]))],
            ],
            false,
        );
        let caa = |flags: u8, tag: &[u8], val: &[u8]| vec![fb(&cat(&[&[flags, tag.len() as u8], tag, val]))];
        add(257, "CAA", vec![L::Rest], vec![caa(0, b"issue", b"ca.z"), caa(0, b"issue", b"CA.Z"), caa(128, b"issue", b"ca.z"), caa(0, b"iodef", b"mailto:x@z")], false);
        add(
            52,
            "TLSA",
            vec![L::Rest],
            vec![
                vec![fb(&cat(&[&[3, 1, 1], &fill(32, 1)]))],
                vec![fb(&cat(&[&[3, 1, 1], &fill(32, 2)]))],
                vec![fb(&cat(&[&[2, 0, 1], &fill(32, 1)]))],
                vec![fb(&cat(&[&[3, 1, 2], &fill(64, 1)]))],
            ],
            false,
        );
        add(
            44,
            "SSHFP",
            vec![L::Rest],
            vec![
                vec![fb(&cat(&[&[1, 1], &fill(20, 1)]))],
                vec![fb(&cat(&[&[1, 2], &fill(32, 1)]))],
                vec![fb(&cat(&[&[4, 2], &fill(32, 1)]))],
                vec![fb(&cat(&[&[1, 1], &fill(20, 2)]))],
            ],
            false,
        );
        add(61, "OPENPGPKEY", vec![L::Rest], vec![vec![fb(b"\x99\x01")], vec![fb(b"\x99\x02")], vec![fb(b"\x99")], vec![fb(b"\x99\x01\x00")]], false);
        let zmd = |serial: u32, alg: u8, n: usize| vec![fb(&cat(&[&serial.to_be_bytes(), &[1, alg], &fill(n, 0x50)]))];
        add(63, "ZONEMD", vec![L::Rest], vec![zmd(1, 1, 48), zmd(2, 1, 48), zmd(1, 2, 64), zmd(1, 240, 12)], false);
        add(65280, "TYPE65280", vec![L::Rest], vec![vec![fb(b"\x01A\x01z\x00")], vec![fb(b"\x01a\x01z\x00")], vec![fb(b"")], vec![fb(b"\x00")]], false);
        // in the RFC 4034 §6.2 list, but the library has no type for them
        add(18, "AFSDB", vec![L::Fix(2), L::Name], pref_name(()), true);
        add(21, "RT", vec![L::Fix(2), L::Name], pref_name(()), true);
        add(36, "KX", vec![L::Fix(2), L::Name], pref_name(()), true);
        add(
            26,
            "PX",
            vec![L::Fix(2), L::Name, L::Name],
            vec![
                vec![fb(&[0, 1]), fnm("b.z"), fnm("c.z")],
                vec![fb(&[0, 1]), fnm("B.Z"), fnm("C.Z")],
                vec![fb(&[0, 1]), fnm("ab.z"), fnm("c.z")],
                vec![fb(&[0, 2]), fnm("b.z"), fnm("c.z")],
            ],
            true,
        );
    }
    // RRSIG RRsets: the signer has to refuse them (RFC 4035 §2.2)
    let rs = |signer: &str, s: u8| {
        let h = SigF { tc: 1, alg: 13, labels: 1, ottl: 3600, exp: T0 + DAY, inc: T0 - DAY, tag: 4711, signer: vec![], sig: vec![] }.head();
        vec![fb(&h), fnm(signer), fb(&fill(64, s))]
    };
    add(46, "RRSIG", vec![L::Fix(18), L::Name, L::Rest], vec![rs("z", 1), rs("Z", 1), rs("z", 2), rs("z", 3)], false);
    drop(add);
    if quick {
        for s in t.iter_mut() {
            s.values.truncate(3);
        }
    }
    t
}

const T0: u32 = 1_700_000_000;
const DAY: u32 = 86_400;

#[derive(Clone, Copy, PartialEq, Debug)]
enum Period {
    /// expiration >= inception in serial arithmetic: the signer must sign
    Valid,
    /// expiration < inception: refusing is fine
    Reversed,
    /// distance exactly 2^31: RFC 1982 leaves the comparison undefined
    Undefined,
}

/// (inception, expiration, kind)
fn time_menu(quick: bool) -> Vec<(u32, u32, Period)> {
    let mut v = vec![
        (T0 - DAY, T0 + DAY, Period::Valid),
        (T0, T0, Period::Valid),
        (0xFFFF_FF00, 0x0000_0100, Period::Valid),
        (T0 + DAY, T0 - DAY, Period::Reversed),
    ];
    if !quick {
        v.extend_from_slice(&[
            (0x7FFF_FFFF, 0x8000_0001, Period::Valid),
            (0, 0x7FFF_FFFF, Period::Valid),
            (0x0000_0100, 0xFFFF_FF00, Period::Reversed),
            (0, 0x8000_0000, Period::Undefined),
        ]);
    }
    v
}

/// Owner shapes. The last three carry an asterisk label that is NOT the
/// leftmost one (RFC 4592 2.1.3: such a label is an ordinary label): RFC 4034
/// 3.1.3 leaves only a LEFTMOST `*` out of the RRSIG Labels count.
const OWNERS: [&str; 7] = ["z", "a.z", "*.z", "*.a.z", "sub.*.z", "*.*.z", "*.sub.*.z"];

/// owner case forms: 0 = lower, 1 = upper, 2 = alternating per record
fn owner_of(oi: usize, oc: usize, idx: usize) -> Vec<Vec<u8>> {
    let l = labels(OWNERS[oi]);
    match oc {
        0 => l,
        1 => upper_labels(&l),
        _ => {
            if idx % 2 == 0 {
                upper_labels(&l)
            } else {
                l
            }
        }
    }
}

// ===================================================================
// cases
// ===================================================================

struct Env {
    ctx: Arc<Ctx>,
    stats: Stats,
    types: Vec<TypeSpec>,
    keys: Vec<KeyMat>,
    times: Vec<(u32, u32, Period)>,
    verbose: bool,
    quick: bool,
}

#[derive(Default)]
struct Local {
    counts: BTreeMap<String, u64>,
    evals: u64,
}
impl Local {
    fn c(&mut self, k: &str) {
        *self.counts.entry(k.to_string()).or_insert(0) += 1;
    }
    fn merge(mut self, o: Local) -> Local {
        for (k, v) in o.counts {
            *self.counts.entry(k).or_insert(0) += v;
        }
        self.evals += o.evals;
        self
    }
}

#[derive(Clone, Debug, PartialEq)]
struct Case {
    ti: usize,
    seq: Vec<usize>,
    oi: usize,
    oc: usize,
    ttl: u32,
    tm: usize,
    si: usize,
    class: u16,
    ki: usize,
    /// 1 = sign_rrset, 2 = SortedRecords + sign_sorted_rrset_in,
    /// 3 = sign_sorted_zone_records
    entry: u8,
    /// seq indexes the mixed-case name values of the type instead of `values`
    mixed: bool,
}

impl Case {
    fn json(&self, env: &Env) -> Value {
        json!({"part": "sign", "tier": if env.quick { "quick" } else { "thorough" }, "type": env.types[self.ti].mn, "ti": self.ti, "seq": self.seq, "oi": self.oi, "oc": self.oc, "ttl": self.ttl,
               "tm": self.tm, "si": self.si, "class": self.class, "ki": self.ki, "alg": env.keys[self.ki].alg, "entry": self.entry, "mixed": self.mixed,
               "owner": OWNERS[self.oi], "inception": env.times[self.tm].0, "expiration": env.times[self.tm].1})
    }
    fn from_json(v: &Value) -> Case {
        let u = |k: &str| v[k].as_u64().unwrap_or(0) as usize;
        Case {
            ti: u("ti"),
            seq: v["seq"].as_array().map(|a| a.iter().map(|x| x.as_u64().unwrap() as usize).collect()).unwrap_or_default(),
            oi: u("oi"),
            oc: u("oc"),
            ttl: u("ttl") as u32,
            tm: u("tm"),
            si: u("si"),
            class: u("class") as u16,
            ki: u("ki"),
            entry: u("entry") as u8,
            mixed: v["mixed"].as_bool().unwrap_or(false),
        }
    }
    fn hash(&self) -> u64 {
        fnv(format!("{self:?}").as_bytes())
    }
    fn rrs(&self, env: &Env) -> Vec<RawRR> {
        let spec = &env.types[self.ti];
        self.seq
            .iter()
            .enumerate()
            .map(|(i, &vi)| RawRR {
                owner: owner_of(self.oi, self.oc, i),
                rtype: spec.rtype,
                class: self.class,
                ttl: self.ttl,
                fields: if self.mixed { spec.mixed[vi].clone() } else { spec.values[vi].clone() },
            })
            .collect()
    }
}

fn entry_name(e: u8) -> &'static str {
    match e {
        1 => "sign_rrset",
        2 => "sorted+sign_sorted_rrset_in",
        3 => "sign_sorted_zone_records",
        10 => "sorted[insert]+sign_sorted_rrset_in",
        11 => "sorted[default+extend]+sign_sorted_rrset_in",
        12 => "sorted[extend-one-by-one]+sign_sorted_rrset_in",
        13 => "sorted[collect]+sign_sorted_rrset_in",
        14 => "sorted[from+remove_all+extend]+sign_sorted_rrset_in",
        15 => "sorted[from+remove_first*+insert]+sign_sorted_rrset_in",
        16 => "sorted[from+update_data]+sign_sorted_rrset_in",
        _ => "sign_sorted_zone_records",
    }
}

/// Length of a signature made with a key: RFC 3110 §3 / RFC 5702 §3 (as long
/// as the modulus), RFC 6605 §4, RFC 8080 §4.
fn sig_len(alg: u8, pubkey: &[u8]) -> usize {
    match alg {
        5 | 7 | 8 | 10 => rsa_split(pubkey).map(|(_, n)| n.len()).unwrap_or(0),
        13 | 15 => 64,
        14 => 96,
        _ => 0,
    }
}

#[derive(Clone, Copy, PartialEq, Debug)]
enum Form {
    /// the very ZRec objects the signer saw (re-parsed, flattened)
    Direct,
    /// through an uncompressed message into validator records
    Plain,
    /// through a compressed message into validator records
    Comp,
    /// through a compressed message, flattened into zone records
    CompFlat,
    /// records, RRSIG and DNSKEY converted to the Vec<u8> octets type
    VecOcts,
}

struct Signed {
    rrs: Vec<RawRR>,
    sig: SigF,
    /// accepted reference octets (1 entry; 2 for NSEC until pinned)
    refs: Vec<Vec<u8>>,
}

/// (owner labels, type, class, ttl, RDATA) of every record of a collection
type Pubd = Vec<(Vec<Vec<u8>>, u16, u16, u32, Vec<u8>)>;

/// What the signer pipeline publishes next to the RRSIG: for sign_rrset the
/// records as given; for the SortedRecords pipelines the contents of the
/// collection (it removes what it considers duplicates).
fn published_of(sorted: &SortedRecords<LName, ZData>) -> Pubd {
    sorted
        .iter()
        .map(|r| {
            let mut rd = Vec::new();
            r.data().compose_rdata(&mut rd).expect("vec");
            (name_labels(r.owner()), r.rtype().to_int(), r.class().to_int(), r.ttl().as_secs(), rd)
        })
        .collect()
}

/// A value of the type that is not (even case-insensitively) one of the
/// case's records: the stand-in that the update_data route replaces.
fn placeholder_for(env: &Env, c: &Case) -> Option<Vec<F>> {
    if c.entry != 16 {
        return None;
    }
    let spec = &env.types[c.ti];
    let fold = |f: &Vec<F>| RawRR { owner: vec![], rtype: 2, class: 1, ttl: 0, fields: f.clone() }.rdata_canon(false);
    let used: Vec<Vec<u8>> = c.seq.iter().map(|&i| fold(&spec.values[i])).collect();
    // updating a record to data another record already has makes a duplicate
    // by the caller's own doing: not a route to judge
    if used[1..].contains(&used[0]) {
        return None;
    }
    spec.values.iter().find(|v| !used.contains(&fold(v))).cloned()
}

/// Build the collection of one RRset's records along one of the public
/// construction routes of SortedRecords, checking the bookkeeping methods on
/// the way. Errors starting with "ROUTE:" are violations of their own.
fn sorted_by_route(route: u8, zrecs: &[ZRec], placeholder: Option<ZRec>, apex: &LName, rtype: u16) -> Result<SortedRecords<LName, ZData>, String> {
    let owner = zrecs[0].owner().clone();
    let class = zrecs[0].class();
    let rt = Rtype::from_int(rtype);
    let sorted: SortedRecords<LName, ZData> = match route {
        10 => {
            let mut s = SortedRecords::new();
            for r in zrecs {
                // Err = "already there": a duplicate, which is fine
                let _ = s.insert(r.clone());
            }
            s
        }
        11 => {
            let mut s: SortedRecords<LName, ZData> = Default::default();
            s.extend(zrecs.iter().cloned());
            s
        }
        12 => {
            let mut s = SortedRecords::new();
            for r in zrecs {
                s.extend(std::iter::once(r.clone()));
            }
            s
        }
        13 => zrecs.iter().cloned().collect(),
        14 => {
            let mut s: SortedRecords<LName, ZData> = SortedRecords::from(zrecs.to_vec());
            if s.remove_all_by_name_class_rtype(&owner, Some(class), Some(Rtype::from_int(rtype ^ 0x4000))) {
                return Err("ROUTE:remove_all-of-absent-type-returned-true|".into());
            }
            if !s.remove_all_by_name_class_rtype(&owner, Some(class), Some(rt)) {
                return Err("ROUTE:remove_all-of-present-rrset-returned-false|".into());
            }
            if !s.is_empty() || s.len() != 0 || s.rrsets().count() != 0 {
                return Err(format!("ROUTE:remove_all-left-records|{} left", s.len()));
            }
            s.extend(zrecs.iter().cloned());
            s
        }
        15 => {
            let mut s: SortedRecords<LName, ZData> = SortedRecords::from(zrecs.to_vec());
            let n = s.len();
            for k in 0..n {
                if !s.remove_first_by_name_class_rtype(&owner, None, Some(rt)) {
                    return Err(format!("ROUTE:remove_first-returned-false-with-records-left|after {k} of {n}"));
                }
                if s.len() != n - k - 1 {
                    return Err(format!("ROUTE:remove_first-did-not-remove-exactly-one|len {} after {} removals of {n}", s.len(), k + 1));
                }
            }
            if s.remove_first_by_name_class_rtype(&owner, Some(class), None) {
                return Err("ROUTE:remove_first-on-empty-returned-true|".into());
            }
            for r in zrecs {
                let _ = s.insert(r.clone());
            }
            s
        }
        _ => {
            // the first record enters as a stand-in and gets its data by update_data
            let Some(ph) = placeholder else { return Err("NO-PLACEHOLDER".into()) };
            let mut v = zrecs.to_vec();
            let real = v[0].data().clone();
            let phd = ph.data().clone();
            v[0] = ph;
            let mut s: SortedRecords<LName, ZData> = SortedRecords::from(v);
            s.update_data(|r| r.data() == &phd, real);
            s
        }
    };
    // bookkeeping agrees with the contents
    let n = sorted.iter().count();
    if sorted.len() != n || sorted.is_empty() != (n == 0) || (&*sorted).len() != n {
        return Err("ROUTE:len/is_empty/deref-disagree|".into());
    }
    let at_apex = wire::labels_eq_ci(&name_labels(&owner), &name_labels(apex));
    if sorted.find_apex_rtype(apex, rt).is_some() != at_apex {
        return Err(format!("ROUTE:find_apex_rtype-wrong|owner {owner} apex {apex}"));
    }
    if sorted.find_soa().is_some() != (rtype == 6) {
        return Err("ROUTE:find_soa-wrong|".into());
    }
    Ok(sorted)
}

/// Run the signer for one case and check the RRSIG. Returns the signature
/// when one was made and it passed the independent checks.
fn sign_case(env: &Env, c: &Case, l: &mut Local) -> Option<Signed> {
    let spec = &env.types[c.ti];
    let key = &env.keys[c.ki];
    let skey = &key.signers[c.si];
    let (inc, exp, period) = env.times[c.tm];
    let rrs = c.rrs(env);
    let en = entry_name(c.entry);
    l.evals += 1;
    let msg = build_msg(&rrs, false);
    let zrecs = match guard(|| lib_zrecs(&msg.bytes)) {
        Ok(Ok(z)) if z.len() == rrs.len() => z,
        other => {
            let w = match other {
                Ok(Ok(_)) => "count".to_string(),
                Ok(Err(e)) => e,
                Err(p) => p,
            };
            env.ctx.violation(
                &format!("C12|input|type={}|library-cannot-read-generated-record", spec.mn),
                &format!("the generated {} record set could not be turned into library records: {w}", spec.mn),
                c.json(env),
            );
            return None;
        }
    };
    let apex = lname(&labels("z"));
    let res = guard(|| -> Result<(Option<Record<LName, LSig>>, Option<Pubd>), String> {
        let (i, e) = (Timestamp::from(inc), Timestamp::from(exp));
        match c.entry {
            1 => {
                let rrset = Rrset::new_from_owned(&zrecs).map_err(|e| format!("{e:?}"))?;
                sign_rrset(skey, &rrset, i, e).map(|r| (Some(r), None)).map_err(|e| format!("{e:?}"))
            }
            2 | 10..=16 => {
                let sorted: SortedRecords<LName, ZData> = if c.entry == 2 {
                    SortedRecords::from(zrecs.clone())
                } else {
                    let placeholder = placeholder_for(env, c).map(|f| {
                        let m = build_msg(&[RawRR { fields: f, ..rrs[0].clone() }], false);
                        lib_zrecs(&m.bytes).expect("placeholder readable").remove(0)
                    });
                    sorted_by_route(c.entry, &zrecs, placeholder, &apex, spec.rtype)?
                };
                let sets: Vec<_> = sorted.rrsets().collect();
                if sets.len() != 1 {
                    return Err(format!("SortedRecords split one RRset into {}", sets.len()));
                }
                let mut scratch = Vec::new();
                let p = published_of(&sorted);
                sign_sorted_rrset_in(skey, &sets[0], i, e, &mut scratch).map(|r| (Some(r), Some(p))).map_err(|e| format!("{e:?}"))
            }
            _ => {
                let sorted: SortedRecords<LName, ZData> = SortedRecords::from(zrecs.clone());
                let cfg = GenerateRrsigConfig::new(i, e);
                let mut v = sign_sorted_zone_records(&apex, sorted.owner_rrs(), &[skey], &cfg).map_err(|e| format!("{e:?}"))?;
                if v.len() > 1 {
                    return Err(format!("{} RRSIGs for one RRset and one key", v.len()));
                }
                Ok((v.pop(), Some(published_of(&sorted))))
            }
        }
    });
    let rec = match res {
        Err(p) => {
            env.ctx.violation(&format!("C12|{en}|panic|{}", panic_class(&p)), &format!("signer panicked: {p}"), c.json(env));
            return None;
        }
        Ok(Err(e)) if e == "NO-PLACEHOLDER" => {
            l.c("routes:update_data-skipped(no unused value)");
            return None;
        }
        Ok(Err(e)) if e.starts_with("ROUTE:") => {
            env.ctx.violation(&format!("C12|SortedRecords|{}", e.split('|').next().unwrap_or("")), &format!("{en}: {e}"), c.json(env));
            return None;
        }
        Ok(Err(e)) => {
            let kind = e.split('(').next().unwrap_or("").to_string();
            if spec.rtype == 46 && kind == "RrsigRrsMustNotBeSigned" {
                l.c("signer:rrsig-rrset-refused");
                return None;
            }
            if period != Period::Valid && kind == "InvalidSignatureValidityPeriod" {
                l.c(&format!("signer:period-{period:?}-refused"));
                return None;
            }
            env.ctx.violation(
                &format!("C12|{en}|sign-error|{kind}|period={period:?}"),
                &format!("signer returned {e} for a signable RRset ({} at {}, inception {inc}, expiration {exp})", spec.mn, OWNERS[c.oi]),
                c.json(env),
            );
            return None;
        }
        Ok(Ok((None, _))) => {
            l.c("signer:zone-walk-skipped-rrset");
            return None;
        }
        Ok(Ok((Some(r), p))) => (r, p),
    };
    let (rec, published) = rec;
    let input_canon: Vec<Vec<u8>> = {
        let mut v: Vec<Vec<u8>> = rrs.iter().map(|r| r.rdata_canon(false)).collect();
        v.sort();
        v.dedup();
        v
    };
    let rrs: Vec<RawRR> = match published {
        None => rrs,
        Some(p) => p
            .into_iter()
            .map(|(owner, _, class, ttl, rd)| RawRR { owner, rtype: spec.rtype, class, ttl, fields: split_rdata(&spec.layout, &rd).expect("library RDATA follows the layout") })
            .collect(),
    };
    {
        let mut v: Vec<Vec<u8>> = rrs.iter().map(|r| r.rdata_canon(false)).collect();
        v.sort();
        v.dedup();
        if v.len() < input_canon.len() {
            // not judged here (C12 is about what is signed verifying)
            l.c("sorted-records:dropped-a-record-that-is-distinct-in-canonical-form");
        }
        if v.iter().any(|x| !input_canon.contains(x)) {
            env.ctx.violation(
                &format!("C12|{en}|published-rrset|record-not-in-input"),
                &format!("SortedRecords holds a {} record that was not put in", spec.mn),
                c.json(env),
            );
            return None;
        }
    }
    l.c(&format!("signer:signed:{en}"));
    if period != Period::Valid {
        l.c(&format!("signer:period-{period:?}-signed"));
    }
    if spec.rtype == 46 {
        l.c("signer:rrsig-rrset-signed");
    }
    let x = Expect { en, spec, key, si: c.si, inc, exp, ttl: c.ttl, class: c.class, hash: c.hash(), seen: None };
    let cj = c.json(env);
    judge_rrsig(env, &x, rrs, &rec, &cj, l)
}

/// What an RRSIG is expected to look like.
struct Expect<'a> {
    /// signer entry point (and position in a multi-step history)
    en: &'a str,
    spec: &'a TypeSpec,
    key: &'a KeyMat,
    si: usize,
    inc: u32,
    exp: u32,
    ttl: u32,
    class: u16,
    hash: u64,
    /// P8: the octets the signing primitive was handed during the call that
    /// made the RRSIG (observed at the SignRaw interface); only used to say
    /// HOW the signed data deviates once the signature failed to verify
    seen: Option<&'a [Vec<u8>]>,
}

/// Check one RRSIG record made by the signer for the published RRset `rrs`:
/// every field, and the signature over the independent octets with ring.
fn judge_rrsig(env: &Env, x: &Expect, rrs: Vec<RawRR>, rec: &Record<LName, LSig>, cj: &Value, l: &mut Local) -> Option<Signed> {
    let (en, spec, key, inc, exp) = (x.en, x.spec, x.key, x.inc, x.exp);
    let sig = sigf_of(rec.data());
    // ---- RRSIG RR and fields (RFC 4035 §2.2, RFC 4034 §3.1)
    let want_labels = {
        let o = &rrs[0].owner;
        (if o.first().map(|x| x.as_slice()) == Some(b"*") { o.len() - 1 } else { o.len() }) as u8
    };
    let mut bad: Vec<(&str, String)> = Vec::new();
    if lower_labels(&name_labels(rec.owner())) != lower_labels(&rrs[0].owner) {
        bad.push(("rr-owner", format!("{} vs {}", rec.owner(), name_text(&rrs[0].owner))));
    }
    if rec.class().to_int() != x.class {
        bad.push(("rr-class", format!("{}", rec.class())));
    }
    if rec.ttl().as_secs() != x.ttl {
        bad.push(("rr-ttl", format!("{}", rec.ttl().as_secs())));
    }
    if sig.tc != spec.rtype {
        bad.push(("type-covered", format!("{}", sig.tc)));
    }
    if sig.alg != key.alg {
        bad.push(("algorithm", format!("{}", sig.alg)));
    }
    if sig.labels != want_labels {
        bad.push(("labels", format!("{} expected {want_labels}", sig.labels)));
    }
    if sig.ottl != x.ttl {
        bad.push(("original-ttl", format!("{}", sig.ottl)));
    }
    if sig.exp != exp || sig.inc != inc {
        bad.push(("validity", format!("{}..{}", sig.inc, sig.exp)));
    }
    if sig.tag != keytag_app_b(&key.rdata) {
        bad.push(("key-tag", format!("{} expected {}", sig.tag, keytag_app_b(&key.rdata))));
    }
    if lower_labels(&sig.signer) != lower_labels(&labels(SIGNER_NAMES[x.si])) {
        bad.push(("signer-name", name_text(&sig.signer)));
    }
    if sig.sig.len() != sig_len(key.alg, &key.pubkey) {
        bad.push(("signature-length", format!("{}", sig.sig.len())));
    }
    for (f, w) in &bad {
        env.ctx.violation(
            &format!("C12|{en}|rrsig-field|{f}"),
            &format!("RRSIG made for {} at {} has wrong {f}: {w}", spec.mn, name_text(&rrs[0].owner)),
            cj.clone(),
        );
    }
    if !bad.is_empty() {
        return None;
    }
    // ---- the signature must be over the RFC octets (ring called directly)
    let mut refs = vec![ref_octets(&sig, &rrs, false).expect("labels <= owner labels")];
    if rfc_canon(spec.rtype) == Canon::Open {
        let alt = ref_octets(&sig, &rrs, true).unwrap();
        if alt != refs[0] {
            refs.push(alt);
        }
    }
    let good: Vec<Vec<u8>> = refs.iter().filter(|r| ring_verify(key.alg, &key.pubkey, r, &sig.sig)).cloned().collect();
    if good.is_empty() {
        let mut d = diagnose(&sig, &rrs, false, &|o| ring_verify(key.alg, &key.pubkey, o, &sig.sig));
        if let (true, Some(seen)) = (d == "other", x.seen) {
            // which of the octet strings handed to sign_raw was signed, and
            // how does it relate to the reference octets?
            if let Some(sd) = seen.iter().find(|sd| ring_verify(key.alg, &key.pubkey, sd, &sig.sig)) {
                d = if sd.len() > refs[0].len() && sd.ends_with(&refs[0]) {
                    "sign_raw-was-handed-left-over-octets-before-the-signed-data".into()
                } else if sd.len() > refs[0].len() && sd.starts_with(&refs[0]) {
                    "sign_raw-was-handed-extra-octets-after-the-signed-data".into()
                } else {
                    "sign_raw-was-handed-other-octets".into()
                };
            }
        }
        let class = octets_class("signer", en, spec, &d);
        env.ctx.violation(
            &class,
            &format!(
                "{en}: the signature made for {} {:?} at {} does not verify (ring, directly) over the independently constructed signed data {}; diagnosis: {d}",
                spec.mn,
                rrs.iter().map(|r| hex(&r.rdata_plain())).collect::<Vec<_>>(),
                name_text(&rrs[0].owner),
                hex(&refs[0])
            ),
            cj.clone(),
        );
        return None;
    }
    if refs.len() > 1 {
        l.c(if good[0] == refs[0] { "nsec:signed-per-RFC6840(case kept)" } else { "nsec:signed-per-RFC4034(lower-cased)" });
    }
    env.stats.distinct(x.hash);
    // What a validator is handed is a set: RFC 2181 5 / RFC 4034 6.3 allow a
    // validator to treat duplicate RRs as a protocol error, so they are not a
    // legitimate thing to deliver (the library's own validator drops them
    // while grouping, before signed_data).
    let mut set: Vec<RawRR> = Vec::new();
    let open_lower = refs.len() > 1 && good[0] != refs[0];
    for r in rrs {
        if !set.iter().any(|x| x.rdata_canon(open_lower) == r.rdata_canon(open_lower)) {
            set.push(r);
        }
    }
    Some(Signed { rrs: set, sig, refs: good })
}

// ===================================================================
// legitimate resolver-side transformations
// ===================================================================

fn perms(n: usize) -> Vec<Vec<usize>> {
    match n {
        1 => vec![vec![0]],
        2 => vec![vec![0, 1], vec![1, 0]],
        3 => vec![vec![0, 1, 2], vec![0, 2, 1], vec![1, 0, 2], vec![1, 2, 0], vec![2, 0, 1], vec![2, 1, 0]],
        _ => vec![(0..n).collect()],
    }
}

fn map_rdata_names(rr: &RawRR, f: &dyn Fn(&[Vec<u8>]) -> Vec<Vec<u8>>) -> RawRR {
    let mut r = rr.clone();
    for fl in r.fields.iter_mut() {
        if let F::N(n) = fl {
            *n = f(n);
        }
    }
    r
}

fn wildcard_expand(rr: &RawRR, with: &[&[u8]]) -> RawRR {
    let mut r = rr.clone();
    let mut o: Vec<Vec<u8>> = with.iter().map(|x| x.to_vec()).collect();
    o.extend_from_slice(&rr.owner[1..]);
    r.owner = o;
    r
}

fn transforms(s: &Signed) -> Vec<(String, Vec<RawRR>, SigF, Form)> {
    let mut out: Vec<(String, Vec<RawRR>, SigF, Form)> = Vec::new();
    let rrs = &s.rrs;
    let sig = &s.sig;
    let n = rrs.len();
    let lower_type = rfc_canon(rrs[0].rtype) == Canon::Lower;
    out.push(("identity".into(), rrs.clone(), sig.clone(), Form::Direct));
    out.push(("identity-vec-octets".into(), rrs.clone(), sig.clone(), Form::VecOcts));
    // every permutation
    let mut seen: Vec<Vec<RawRR>> = Vec::new();
    for p in perms(n) {
        let v: Vec<RawRR> = p.iter().map(|&i| rrs[i].clone()).collect();
        if !seen.contains(&v) {
            seen.push(v.clone());
            out.push(("permute".into(), v, sig.clone(), Form::Plain));
        }
    }
    // owner case
    for (lab, f) in [("owner-upper", upper_labels as fn(&[Vec<u8>]) -> Vec<Vec<u8>>), ("owner-lower", lower_labels)] {
        let v: Vec<RawRR> = rrs.iter().map(|r| RawRR { owner: f(&r.owner), ..r.clone() }).collect();
        out.push((lab.into(), v, sig.clone(), Form::Plain));
    }
    // RDATA name case (only where §6.2 canonicalises them)
    if lower_type && rrs.iter().any(|r| r.fields.iter().any(|f| matches!(f, F::N(_)))) {
        out.push(("rdata-names-upper".into(), rrs.iter().map(|r| map_rdata_names(r, &upper_labels)).collect(), sig.clone(), Form::Plain));
        out.push(("rdata-names-lower".into(), rrs.iter().map(|r| map_rdata_names(r, &lower_labels)).collect(), sig.clone(), Form::Plain));
    }
    // signer name case
    out.push(("signer-upper".into(), rrs.clone(), SigF { signer: upper_labels(&sig.signer), ..sig.clone() }, Form::Plain));
    out.push(("signer-lower".into(), rrs.clone(), SigF { signer: lower_labels(&sig.signer), ..sig.clone() }, Form::Plain));
    // TTL decrement
    let t = rrs[0].ttl;
    let mut ttls = vec![];
    if t > 0 {
        ttls = vec![t - 1, t / 2, 0];
        ttls.dedup();
    }
    for nt in ttls {
        out.push((format!("ttl-decrement"), rrs.iter().map(|r| RawRR { ttl: nt, ..r.clone() }).collect(), sig.clone(), Form::Plain));
    }
    // wildcard expansion
    let wild = rrs[0].owner.first().map(|x| x.as_slice()) == Some(b"*");
    if wild {
        out.push(("wildcard-expand-1".into(), rrs.iter().map(|r| wildcard_expand(r, &[b"x"])).collect(), sig.clone(), Form::Plain));
        out.push(("wildcard-expand-2".into(), rrs.iter().map(|r| wildcard_expand(r, &[b"Q", b"y"])).collect(), sig.clone(), Form::Plain));
    }
    // compressed message
    out.push(("compressed".into(), rrs.clone(), sig.clone(), Form::Comp));
    let mut rev = rrs.clone();
    rev.reverse();
    out.push(("compressed-reversed".into(), rev.clone(), sig.clone(), Form::Comp));
    out.push(("compressed-flattened".into(), rrs.clone(), sig.clone(), Form::CompFlat));
    // everything at once
    {
        let mut v: Vec<RawRR> = rev
            .iter()
            .map(|r| {
                let mut r = if lower_type { map_rdata_names(r, &upper_labels) } else { r.clone() };
                if wild {
                    r = wildcard_expand(&r, &[b"x"]);
                }
                r.owner = upper_labels(&r.owner);
                r.ttl = r.ttl.saturating_sub(1);
                r
            })
            .collect();
        // and drop canonical duplicates
        let mut w: Vec<RawRR> = Vec::new();
        for r in v.drain(..) {
            if !w.iter().any(|x| x.rdata_canon(false) == r.rdata_canon(false)) {
                w.push(r);
            }
        }
        out.push(("combined".into(), w, SigF { signer: upper_labels(&sig.signer), ..sig.clone() }, Form::Comp));
    }
    out
}

/// RFC 4035 §5.3.2/§5.3.4: expanded from a wildcard iff Labels < owner labels;
/// the closest encloser is then the rightmost Labels labels.
fn ref_closest_encloser(sig: &SigF, owner: &[Vec<u8>]) -> Option<Vec<Vec<u8>>> {
    let k = sig.labels as usize;
    if k < owner.len() {
        Some(lower_labels(&owner[owner.len() - k..]))
    } else {
        None
    }
}

struct LibOut {
    octets: Vec<u8>,
    verify: Result<(), String>,
    wce: Option<Vec<Vec<u8>>>,
}

/// Hand the (transformed) RRset and RRSIG to the validation primitives.
fn lib_validate(rrs: &[RawRR], sig: &SigF, form: Form, dnskey: &Dnskey<Bytes>) -> Result<LibOut, String> {
    let n = rrs.len();
    match form {
        Form::Direct | Form::CompFlat => {
            let m = build_msg(rrs, form == Form::CompFlat);
            let mut recs = lib_zrecs(&m.bytes)?;
            let lsig = lib_sig_from(sig);
            let wce = lsig.wildcard_closest_encloser(&recs[0]).map(|n| lower_labels(&name_labels(&n)));
            let octets = lib_signed_data(&lsig, &mut recs);
            let verify = lsig.verify_signed_data(dnskey, &octets).map_err(|e| format!("{e:?}"));
            Ok(LibOut { octets, verify, wce })
        }
        Form::VecOcts => {
            type VN = Name<Vec<u8>>;
            let m = build_msg(rrs, false);
            let mut recs: Vec<Record<VN, ZoneRecordData<Vec<u8>, VN>>> = Vec::new();
            for r in lib_zrecs(&m.bytes)? {
                recs.push(Record::try_octets_from(r).map_err(|_| "octets conversion".to_string())?);
            }
            let lsig: Rrsig<Vec<u8>, VN> = Rrsig::try_octets_from(lib_sig_from(sig)).map_err(|_| "octets conversion".to_string())?;
            let dk: Dnskey<Vec<u8>> = dnskey.clone().convert();
            let wce = lsig.wildcard_closest_encloser(&recs[0]).map(|n| lower_labels(&name_labels(&n)));
            let mut octets = Vec::new();
            lsig.signed_data(&mut octets, &mut recs).expect("Vec never short");
            let verify = lsig.verify_signed_data(&dk, &octets).map_err(|e| format!("{e:?}"));
            Ok(LibOut { octets, verify, wce })
        }
        Form::Plain | Form::Comp => {
            let mut all = rrs.to_vec();
            all.push(sig.as_rr(&rrs[0].owner, rrs[0].class, rrs[0].ttl));
            let m = build_msg(&all, form == Form::Comp);
            let (mut recs, lsig) = lib_vrecs(&m.bytes, n, true)?;
            let lsig = lsig.unwrap();
            let wce = lsig.wildcard_closest_encloser(&recs[0]).map(|n| lower_labels(&name_labels(&n)));
            let octets = lib_signed_data(&lsig, &mut recs);
            let verify = lsig.verify_signed_data(dnskey, &octets).map_err(|e| format!("{e:?}"));
            Ok(LibOut { octets, verify, wce })
        }
    }
}

/// `level`: 2 = the whole transformation menu; 1 = the reduced menu of the
/// multi-step histories; 0 = the records as signed only (P8)
fn check_transforms(env: &Env, spec: &TypeSpec, key: &KeyMat, cj: &Value, s: &Signed, level: u8, l: &mut Local) {
    for (label, rrs_t, sig_t, form) in transforms(s) {
        if level == 1 && !matches!(label.as_str(), "identity" | "identity-vec-octets" | "compressed-reversed" | "combined") {
            continue;
        }
        if level == 0 && label != "identity" {
            continue;
        }
        l.evals += 1;
        l.c(&format!("transform:{label}"));
        // harness self-check: a legitimate transformation does not change the
        // reference octets
        let open_lower = s.refs[0] != ref_octets(&s.sig, &s.rrs, false).unwrap();
        let r = ref_octets(&sig_t, &rrs_t, open_lower).expect("labels fit");
        assert!(r == s.refs[0], "harness: transformation {label} changed the reference octets");
        let out = match guard(|| lib_validate(&rrs_t, &sig_t, form, &key.dnskey)) {
            Err(p) => {
                env.ctx.violation(
                    &format!("C12|validate|panic|{}", panic_class(&p)),
                    &format!("validation primitives panicked after '{label}': {p}"),
                    json!({"part": "transform", "case": cj.clone(), "transform": label}),
                );
                continue;
            }
            Ok(Err(e)) => {
                env.ctx.violation(
                    &format!("C12|validate|{label}|form={form:?}|records-unreadable"),
                    &format!("library could not read the transformed records: {e}"),
                    json!({"part": "transform", "case": cj.clone(), "transform": label}),
                );
                continue;
            }
            Ok(Ok(o)) => o,
        };
        let replay = || json!({"part": "transform", "case": cj.clone(), "transform": label, "rrs": rrs_t.iter().map(|r| r.json()).collect::<Vec<_>>(), "rrsig": sig_t.json()});
        let octets_ok = s.refs.contains(&out.octets);
        if !octets_ok {
            let d = diagnose(&sig_t, &rrs_t, open_lower, &|o| o == &out.octets[..]);
            let class = octets_class("signed_data", &label, spec, &d);
            env.ctx.violation(
                &class,
                &format!(
                    "signed_data for {} at {} after '{label}' (records as {form:?}) = {} but the independent construction gives {}; diagnosis: {d}",
                    spec.mn,
                    name_text(&rrs_t[0].owner),
                    hex(&out.octets),
                    hex(&s.refs[0])
                ),
                replay(),
            );
        }
        if let Err(e) = &out.verify {
            // a consequence of the octets when those are already wrong
            if octets_ok {
                env.ctx.violation(
                    &format!("C12|verify_signed_data|type={}|correct-octets-but-legitimate-transformation-does-not-verify", spec.mn),
                    &format!("verify_signed_data = Err({e}) for {} at {} after the legitimate transformation '{label}' ({form:?}) although signed_data produced the right octets", spec.mn, name_text(&rrs_t[0].owner)),
                    replay(),
                );
            } else {
                l.c("verify:fails-because-signed_data-octets-differ");
            }
        } else {
            l.c("verify:ok-after-legit-transform");
            if !octets_ok {
                env.ctx.violation(
                    &format!("C12|verify_signed_data|type={}|verified-over-octets-that-are-not-RFC4034", spec.mn),
                    &format!("verify_signed_data = Ok over octets that differ from the independent construction after '{label}'"),
                    replay(),
                );
            }
        }
        let want = ref_closest_encloser(&sig_t, &rrs_t[0].owner);
        if out.wce != want {
            env.ctx.violation(
                &format!("C12|wildcard_closest_encloser|{label}|expected={}|got={}", want.is_some(), out.wce.is_some()),
                &format!(
                    "wildcard_closest_encloser for owner {} labels {} = {:?}, RFC 4035 5.3.2 gives {:?}",
                    name_text(&rrs_t[0].owner),
                    sig_t.labels,
                    out.wce.as_ref().map(|n| name_text(n)),
                    want.as_ref().map(|n| name_text(n))
                ),
                replay(),
            );
        }
        l.c(if want.is_some() { "wce:some" } else { "wce:none" });
    }
}

// ===================================================================
// multi-step signing histories (shared scratch buffer, several keys)
// ===================================================================

#[derive(Clone, Debug)]
struct Multi {
    /// type, sequence, owner, TTL, period, signer name, class (ki/entry unused)
    base: Case,
    /// 4 = successive sign_sorted_rrset_in calls sharing ONE scratch Vec;
    /// 5 = one sign_sorted_zone_records call with the keys of `steps`
    mode: u8,
    /// (key index, sign the OTHER RRset `o.z TXT` instead of the case's [mode 4])
    steps: Vec<(usize, bool)>,
    /// mode 5: 0 = the zone holds the case's RRset only; 1 = also the other
    /// RRset; 2 = also records outside the zone, sorting before (`a.y`) and
    /// after (`zz`) it, which must not be signed
    zone: u8,
    /// mode 5: hand the records over as RecordsIter::new_from_refs (slice of
    /// references) instead of SortedRecords::owner_rrs
    refs: bool,
}

impl Multi {
    fn json(&self, env: &Env) -> Value {
        json!({"part": "multi", "case": self.base.json(env), "mode": self.mode, "zone": self.zone, "refs": self.refs,
               "steps": self.steps.iter().map(|&(ki, o)| json!([env.keys[ki].alg, o])).collect::<Vec<_>>()})
    }
}

fn multi_case(env: &Env, m: &Multi, l: &mut Local) {
    let c = &m.base;
    let spec = &env.types[c.ti];
    let ospec = env.types.iter().find(|t| t.rtype == 16).expect("TXT in the menu");
    let (inc, exp, _) = env.times[c.tm];
    let main = c.rrs(env);
    let other = vec![RawRR { owner: labels("o.z"), rtype: 16, class: c.class, ttl: c.ttl, fields: ospec.values[0].clone() }];
    let outside: Vec<RawRR> = ["a.y", "zz"].iter().map(|o| RawRR { owner: labels(o), rtype: 16, class: c.class, ttl: c.ttl, fields: ospec.values[0].clone() }).collect();
    let cj = m.json(env);
    l.evals += 1;
    let (zm, zo, zx) = match guard(|| (lib_zrecs(&build_msg(&main, false).bytes), lib_zrecs(&build_msg(&other, false).bytes), lib_zrecs(&build_msg(&outside, false).bytes))) {
        Ok((Ok(a), Ok(b), Ok(x))) => (a, b, x),
        _ => {
            env.ctx.violation(&format!("C12|input|type={}|library-cannot-read-generated-record", spec.mn), "multi-step: generated records unreadable", cj);
            return;
        }
    };
    let (i, e) = (Timestamp::from(inc), Timestamp::from(exp));
    let apex = lname(&labels("z"));
    let to_rrs = |sp: &TypeSpec, p: &Pubd, owner: &[Vec<u8>]| -> Vec<RawRR> {
        p.iter()
            .filter(|(o, t, ..)| *t == sp.rtype && lower_labels(o) == lower_labels(owner))
            .map(|(o, t, class, ttl, rd)| RawRR { owner: o.clone(), rtype: *t, class: *class, ttl: *ttl, fields: split_rdata(&sp.layout, rd).expect("library RDATA follows the layout") })
            .collect()
    };
    let judge = |en: &str, sp: &TypeSpec, ki: usize, rrs: Vec<RawRR>, rec: &Record<LName, LSig>, tag: String, l: &mut Local| {
        l.evals += 1;
        let x = Expect { en, spec: sp, key: &env.keys[ki], si: c.si, inc, exp, ttl: c.ttl, class: c.class, hash: fnv(format!("{m:?}|{tag}").as_bytes()), seen: None };
        if let Some(s) = judge_rrsig(env, &x, rrs, rec, &cj, l) {
            l.c(&format!("multi:verified:{en}"));
            check_transforms(env, sp, &env.keys[ki], &cj, &s, 1, l);
        }
    };
    if m.mode == 4 {
        let res = guard(|| -> Result<(Vec<Result<Record<LName, LSig>, String>>, Pubd, Pubd), String> {
            let sm: SortedRecords<LName, ZData> = SortedRecords::from(zm.clone());
            let so: SortedRecords<LName, ZData> = SortedRecords::from(zo.clone());
            let setm: Vec<_> = sm.rrsets().collect();
            let seto: Vec<_> = so.rrsets().collect();
            if setm.len() != 1 || seto.len() != 1 {
                return Err("SortedRecords split one RRset".into());
            }
            // ONE scratch buffer for the whole history, as the documentation of
            // sign_sorted_rrset_in invites
            let mut scratch = Vec::new();
            let mut out = Vec::new();
            for &(ki, oth) in &m.steps {
                let skey = &env.keys[ki].signers[c.si];
                let set = if oth { &seto[0] } else { &setm[0] };
                out.push(sign_sorted_rrset_in(skey, set, i, e, &mut scratch).map_err(|e| format!("{e:?}")));
            }
            Ok((out, published_of(&sm), published_of(&so)))
        });
        let (recs, pm, po) = match res {
            Err(p) => {
                env.ctx.violation(&format!("C12|sign_sorted_rrset_in|reused-scratch|panic|{}", panic_class(&p)), &format!("signer panicked: {p}"), cj);
                return;
            }
            Ok(Err(e)) => {
                env.ctx.violation("C12|sign_sorted_rrset_in|reused-scratch|setup", &e, cj);
                return;
            }
            Ok(Ok(v)) => v,
        };
        for (j, (r, &(ki, oth))) in recs.iter().zip(&m.steps).enumerate() {
            let pos = if j == 0 { "call#1" } else { "call#2+" };
            let en = format!("sign_sorted_rrset_in|reused-scratch|{pos}");
            match r {
                Err(e) => {
                    let kind = e.split('(').next().unwrap_or("").to_string();
                    env.ctx.violation(&format!("C12|{en}|sign-error|{kind}"), &format!("step {j}: signer returned {e}"), cj.clone());
                }
                Ok(rec) => {
                    let (sp, rrs) = if oth { (ospec, to_rrs(ospec, &po, &other[0].owner)) } else { (spec, to_rrs(spec, &pm, &main[0].owner)) };
                    judge(&en, sp, ki, rrs, rec, format!("{j}"), l);
                }
            }
        }
    } else {
        let res = guard(|| -> Result<(Vec<Record<LName, LSig>>, Pubd), String> {
            let mut all = zm.clone();
            if m.zone >= 1 {
                all.extend(zo.clone());
            }
            if m.zone >= 2 {
                all.extend(zx.clone());
            }
            let sorted: SortedRecords<LName, ZData> = SortedRecords::from(all);
            let keys: Vec<&SKey> = m.steps.iter().map(|&(ki, _)| &env.keys[ki].signers[c.si]).collect();
            let cfg = GenerateRrsigConfig::new(i, e);
            let v = if m.refs {
                let refs: Vec<&ZRec> = sorted.iter().collect();
                sign_sorted_zone_records(&apex, RecordsIter::new_from_refs(&refs), &keys, &cfg).map_err(|e| format!("{e:?}"))?
            } else {
                sign_sorted_zone_records(&apex, sorted.owner_rrs(), &keys, &cfg).map_err(|e| format!("{e:?}"))?
            };
            Ok((v, published_of(&sorted)))
        });
        let (sigs, p) = match res {
            Err(pn) => {
                env.ctx.violation(&format!("C12|sign_sorted_zone_records|multi-key|panic|{}", panic_class(&pn)), &format!("signer panicked: {pn}"), cj);
                return;
            }
            Ok(Err(e)) => {
                let kind = e.split('(').next().unwrap_or("").to_string();
                env.ctx.violation(&format!("C12|sign_sorted_zone_records|multi-key|sign-error|{kind}"), &format!("signer returned {e}"), cj);
                return;
            }
            Ok(Ok(v)) => v,
        };
        let mut claimed = vec![false; sigs.len()];
        let mut groups: Vec<(&TypeSpec, Vec<RawRR>)> = vec![(spec, to_rrs(spec, &p, &main[0].owner))];
        if m.zone >= 1 {
            groups.push((ospec, to_rrs(ospec, &p, &other[0].owner)));
        }
        for (gi, (sp, rrs)) in groups.into_iter().enumerate() {
            let mine: Vec<usize> = (0..sigs.len())
                .filter(|&k| sigs[k].data().type_covered().to_int() == sp.rtype && lower_labels(&name_labels(sigs[k].owner())) == lower_labels(&rrs[0].owner))
                .collect();
            if mine.is_empty() {
                l.c("multi:zone-walk-skipped-rrset");
                continue;
            }
            let mut used = vec![false; m.steps.len()];
            for k in mine {
                claimed[k] = true;
                let alg = sigs[k].data().algorithm().to_int();
                match (0..m.steps.len()).find(|&j| !used[j] && env.keys[m.steps[j].0].alg == alg) {
                    None => {
                        env.ctx.violation(
                            "C12|sign_sorted_zone_records|multi-key|RRSIG-for-no-given-key",
                            &format!("an RRSIG with algorithm {alg} for {} was returned that matches none of the (remaining) signing keys", sp.mn),
                            cj.clone(),
                        );
                    }
                    Some(j) => {
                        used[j] = true;
                        let en = format!("sign_sorted_zone_records|{}", if j == 0 { "key#1" } else { "key#2+" });
                        judge(&en, sp, m.steps[j].0, rrs.clone(), &sigs[k], format!("{gi}|{j}"), l);
                    }
                }
            }
            if used.iter().any(|u| !u) {
                env.ctx.violation(
                    "C12|sign_sorted_zone_records|multi-key|no-RRSIG-for-a-given-key",
                    &format!("{} keys were given but only {} RRSIGs cover {} at {}", m.steps.len(), used.iter().filter(|u| **u).count(), sp.mn, name_text(&rrs[0].owner)),
                    cj.clone(),
                );
            }
        }
        if claimed.iter().any(|c| !c) {
            env.ctx.violation("C12|sign_sorted_zone_records|multi-key|RRSIG-for-no-RRset-of-the-zone", "an RRSIG was returned that covers none of the zone's RRsets", cj.clone());
        }
    }
}

fn run_multi(env: &Env, cases: &[Multi]) -> Local {
    cases
        .par_iter()
        .with_max_len(8)
        .fold(Local::default, |mut l, c| {
            multi_case(env, c, &mut l);
            l
        })
        .reduce(Local::default, Local::merge)
}

// ===================================================================
// P8: faults at the signing primitive and dirty caller state
// ===================================================================

/// Shared by the fault-injecting keys of ONE history (one thread).
#[derive(Default)]
struct FaultPlan {
    /// Some(j): the j-th sign_raw call from now (over all keys of the
    /// history) returns the trait's error; the plan then disarms
    countdown: Cell<Option<usize>>,
    fired: Cell<bool>,
    /// (octets handed to sign_raw, call let through) since the last `arm`
    seen: RefCell<Vec<(Vec<u8>, bool)>>,
}

impl FaultPlan {
    fn arm(&self, at: Option<usize>) {
        self.countdown.set(at);
        self.fired.set(false);
        self.seen.borrow_mut().clear();
    }
}

/// A `SignRaw` implementation (what an HSM / remote signer back end is to the
/// library) around a real ring key pair that fails on demand.
struct Faulty<'a> {
    inner: &'a KeyPair,
    plan: &'a FaultPlan,
}

impl std::fmt::Debug for Faulty<'_> {
    fn fmt(&self, f: &mut std::fmt::Formatter<'_>) -> std::fmt::Result {
        write!(f, "Faulty({:?})", self.inner.algorithm())
    }
}

impl SignRaw for Faulty<'_> {
    fn algorithm(&self) -> SecurityAlgorithm {
        self.inner.algorithm()
    }
    fn dnskey(&self) -> Dnskey<Vec<u8>> {
        self.inner.dnskey()
    }
    fn sign_raw(&self, data: &[u8]) -> Result<Signature, SignError> {
        let fail = match self.plan.countdown.get() {
            Some(0) => {
                self.plan.countdown.set(None);
                self.plan.fired.set(true);
                true
            }
            Some(n) => {
                self.plan.countdown.set(Some(n - 1));
                false
            }
            None => false,
        };
        self.plan.seen.borrow_mut().push((data.to_vec(), !fail));
        if fail {
            Err(SignError)
        } else {
            self.inner.sign_raw(data)
        }
    }
}

type FKey<'a> = SigningKey<Bytes, Faulty<'a>>;

/// One call of a history.
#[derive(Clone, Debug, PartialEq)]
struct FStep {
    /// 'I' sign_sorted_rrset_in with the history's ONE scratch Vec;
    /// 'R' sign_rrset; 'G' Signable::sign of an Rrset;
    /// 'Z' sign_sorted_zone_records over the history's zone collection;
    /// 'P' SortedRecords::sign_zone (in place, denial already present) on it
    entry: char,
    /// I/R/G: sign the OTHER RRset `o.z TXT` instead of the case's
    other: bool,
    /// positions (0/1) in the history's key pair; I/R use the first only
    keys: Vec<usize>,
    /// the sign_raw call (counted within this API call) that fails
    fail: Option<usize>,
    /// I/R: the call is made with expiration < inception, which the library
    /// may refuse before it gets to sign (the other way for a call to fail)
    reversed: bool,
}

#[derive(Clone, Debug)]
struct FHist {
    /// type, sequence, owner, TTL, period, signer name, class (ki/entry unused)
    base: Case,
    /// the two keys of the history (indexes into env.keys)
    pair: [usize; 2],
    /// what the caller's scratch buffer holds:
    /// 0 Vec::new(); 1 Vec::with_capacity(4096); on entry 2 one zero octet,
    /// 3 forty unrelated octets, 4 a complete signed-data image of another
    /// RRset; 5 the caller appends the unrelated octets before EVERY call;
    /// 6 the caller overwrites it with the image before every call
    dirt: u8,
    steps: Vec<FStep>,
}

impl FHist {
    fn json(&self, env: &Env) -> Value {
        json!({"part": "faulthist", "case": self.base.json(env), "pair": [env.keys[self.pair[0]].alg, env.keys[self.pair[1]].alg], "dirt": self.dirt,
               "steps": self.steps.iter().map(|s| json!([s.entry.to_string(), s.other, s.keys, s.fail, s.reversed])).collect::<Vec<_>>()})
    }
    fn from_json(env: &Env, base: Case, v: &Value) -> FHist {
        let ki = |a: &Value| env.keys.iter().position(|k| Some(k.alg as u64) == a.as_u64()).expect("algorithm in this tier's menu");
        FHist {
            base,
            pair: [ki(&v["pair"][0]), ki(&v["pair"][1])],
            dirt: v["dirt"].as_u64().unwrap_or(0) as u8,
            steps: v["steps"]
                .as_array()
                .expect("steps")
                .iter()
                .map(|s| FStep {
                    entry: s[0].as_str().and_then(|x| x.chars().next()).expect("entry"),
                    other: s[1].as_bool().unwrap_or(false),
                    keys: s[2].as_array().map(|a| a.iter().map(|x| x.as_u64().unwrap() as usize).collect()).unwrap_or_default(),
                    fail: s[3].as_u64().map(|x| x as usize),
                    reversed: s[4].as_bool().unwrap_or(false),
                })
                .collect(),
        }
    }
}

fn fh_entry_name(e: char) -> &'static str {
    match e {
        'I' => "sign_sorted_rrset_in",
        'R' => "sign_rrset",
        'G' => "Rrset::sign",
        'Z' => "sign_sorted_zone_records",
        _ => "sign_zone-in-place",
    }
}

/// The RRSIG records of a collection, as RRSIG records.
fn rrsigs_of(sorted: &SortedRecords<LName, ZData>) -> Vec<Record<LName, LSig>> {
    sorted
        .iter()
        .filter_map(|r| match r.data() {
            ZoneRecordData::Rrsig(s) => Some(Record::new(r.owner().clone(), r.class(), r.ttl(), s.clone())),
            _ => None,
        })
        .collect()
}

fn rrsig_key(r: &Record<LName, LSig>) -> (Vec<Vec<u8>>, SigF) {
    (name_labels(r.owner()), sigf_of(r.data()))
}

/// One history: a sequence of signing calls on state that the caller keeps
/// between the calls (ONE scratch Vec, the key objects, the Rrset /
/// SortedRecords objects, one zone collection that in-place signing grows),
/// with an injected sign_raw failure per call or not, followed by one retry
/// of every failed call on the same state.
///
/// Oracle: a call in which sign_raw failed returns Err and leaves no RRSIG
/// behind (a call with a reversed validity period may be refused likewise);
/// every other call returns Ok and each of its RRSIGs
/// passes judge_rrsig (fields; ring directly over the independent RFC 4034
/// §3.1.8.1 octets) and the library's own signed_data / verify_signed_data,
/// whatever happened earlier in the history and whatever the caller left in
/// the scratch buffer.
fn fault_hist_case(env: &Env, h: &FHist, l: &mut Local) {
    let c = &h.base;
    let spec = &env.types[c.ti];
    let ospec = env.types.iter().find(|t| t.rtype == 16).expect("TXT in the menu");
    let (inc, exp, _) = env.times[c.tm];
    let (rinc, rexp, _) = *env.times.iter().find(|t| t.2 == Period::Reversed).expect("a reversed period in the menu");
    let main = c.rrs(env);
    let other = vec![RawRR { owner: labels("o.z"), rtype: 16, class: c.class, ttl: c.ttl, fields: ospec.values[0].clone() }];
    let cj = h.json(env);
    l.evals += 1;
    let (zm, zo) = match guard(|| (lib_zrecs(&build_msg(&main, false).bytes), lib_zrecs(&build_msg(&other, false).bytes))) {
        Ok((Ok(a), Ok(b))) => (a, b),
        _ => {
            env.ctx.violation(&format!("C12|input|type={}|library-cannot-read-generated-record", spec.mn), "fault history: generated records unreadable", cj);
            return;
        }
    };
    let (i, e) = (Timestamp::from(inc), Timestamp::from(exp));
    let apex = lname(&labels("z"));
    let to_rrs = |sp: &TypeSpec, p: &Pubd, owner: &[Vec<u8>]| -> Vec<RawRR> {
        p.iter()
            .filter(|(o, t, ..)| *t == sp.rtype && lower_labels(o) == lower_labels(owner))
            .map(|(o, t, class, ttl, rd)| RawRR { owner: o.clone(), rtype: *t, class: *class, ttl: *ttl, fields: split_rdata(&sp.layout, rd).expect("library RDATA follows the layout") })
            .collect()
    };
    // ---- the state that lives through the history
    let plan = FaultPlan::default();
    let fkeys: Vec<FKey> = h
        .pair
        .iter()
        .map(|&ki| {
            let sk = &env.keys[ki].signers[c.si];
            SigningKey::new(sk.owner().clone(), sk.flags(), Faulty { inner: sk.raw_secret_key(), plan: &plan })
        })
        .collect();
    let setup = guard(|| {
        let sm: SortedRecords<LName, ZData> = SortedRecords::from(zm.clone());
        let so: SortedRecords<LName, ZData> = SortedRecords::from(zo.clone());
        let mut all = zm.clone();
        all.extend(zo.clone());
        let zone: SortedRecords<LName, ZData> = SortedRecords::from(all);
        (sm, so, zone)
    });
    let Ok((sm, so, mut zone)) = setup else {
        env.ctx.violation("C12|fault-history|setup|panic", "SortedRecords::from panicked", cj);
        return;
    };
    let setm: Vec<_> = sm.rrsets().collect();
    let seto: Vec<_> = so.rrsets().collect();
    let (unsm, unso) = (Rrset::new_from_owned(&zm), Rrset::new_from_owned(&zo));
    let (Ok(unsm), Ok(unso), 1, 1) = (unsm, unso, setm.len(), seto.len()) else {
        env.ctx.violation("C12|fault-history|setup", "SortedRecords split one RRset / Rrset::new_from_owned refused it", cj);
        return;
    };
    let (pm, po) = (published_of(&sm), published_of(&so));
    let junk: Vec<u8> = (0..40u8).map(|k| 0xA5 ^ k.wrapping_mul(7)).collect();
    let image: Vec<u8> = {
        let k0 = &env.keys[h.pair[0]];
        let f = SigF { tc: 16, alg: k0.alg, labels: 2, ottl: c.ttl, exp, inc, tag: keytag_app_b(&k0.rdata), signer: labels("z"), sig: vec![] };
        ref_octets(&f, &other, false).expect("labels fit")
    };
    let mut scratch: Vec<u8> = match h.dirt {
        0 => Vec::new(),
        1 => Vec::with_capacity(4096),
        2 => vec![0],
        3 | 5 => junk.clone(),
        _ => image.clone(),
    };
    let cfg = GenerateRrsigConfig::new(i, e);
    let scfg: SigningConfig<Bytes, DefaultSorter> = SigningConfig::new(DenialConfig::AlreadyPresent, i, e);
    // ---- the calls: the history, then one retry per failed call
    let mut queue: Vec<(FStep, bool)> = h.steps.iter().cloned().map(|s| (s, false)).collect();
    let mut qi = 0;
    let mut failed_before = false;
    let mut lib_used_scratch = false;
    while qi < queue.len() {
        let (st, retry) = queue[qi].clone();
        let pos = qi;
        qi += 1;
        if pos > 0 {
            match h.dirt {
                5 => scratch.extend_from_slice(&junk),
                6 => {
                    scratch.clear();
                    scratch.extend_from_slice(&image);
                }
                _ => {}
            }
        }
        let caller_dirty = st.entry == 'I' && (h.dirt >= 5 || (h.dirt >= 2 && !lib_used_scratch));
        let state = if retry {
            "retry-of-failed-call"
        } else if caller_dirty {
            "caller-left-octets-in-scratch"
        } else if failed_before {
            "after-failed-call"
        } else if pos == 0 {
            "first-call"
        } else {
            "after-ok-calls"
        };
        let ename = fh_entry_name(st.entry);
        let en = format!("fault-history|{ename}|{state}");
        let keys: Vec<&FKey> = st.keys.iter().map(|&k| &fkeys[k]).collect();
        let zone_before = published_of(&zone);
        let sigs_before: Vec<(Vec<Vec<u8>>, SigF)> = if st.entry == 'P' { rrsigs_of(&zone).iter().map(rrsig_key).collect() } else { Vec::new() };
        plan.arm(st.fail);
        l.evals += 1;
        let (sinc, sexp) = if st.reversed { (rinc, rexp) } else { (inc, exp) };
        let res = guard(|| -> Result<Vec<Record<LName, LSig>>, String> {
            let dbg = |e| format!("{e:?}");
            let (i, e) = if st.reversed { (Timestamp::from(rinc), Timestamp::from(rexp)) } else { (i, e) };
            match st.entry {
                'I' => sign_sorted_rrset_in(keys[0], if st.other { &seto[0] } else { &setm[0] }, i, e, &mut scratch).map(|r| vec![r]).map_err(dbg),
                'R' => sign_rrset(keys[0], if st.other { &unso } else { &unsm }, i, e).map(|r| vec![r]).map_err(dbg),
                'G' => (if st.other { &seto[0] } else { &setm[0] }).sign(&apex, &keys, i, e).map_err(dbg),
                'Z' => sign_sorted_zone_records(&apex, zone.owner_rrs(), &keys, &cfg).map_err(dbg),
                _ => zone.sign_zone(&apex, &scfg, &keys).map(|_| Vec::new()).map_err(dbg),
            }
        });
        if st.entry == 'I' {
            lib_used_scratch = true;
        }
        let fired = plan.fired.get();
        let seen: Vec<Vec<u8>> = plan.seen.borrow().iter().filter(|s| s.1).map(|s| s.0.clone()).collect();
        if st.fail.is_some() && !fired {
            l.c("fh:fault-position-beyond-the-sign_raw-calls-of-the-call");
        }
        let zone_after = published_of(&zone);
        let sigs = match res {
            Err(p) => {
                env.ctx.violation(&format!("C12|{en}|panic|{}", panic_class(&p)), &format!("call {pos}: signer panicked: {p}"), cj.clone());
                failed_before |= fired;
                continue;
            }
            Ok(Err(err)) => {
                let kind = err.split('(').next().unwrap_or("").to_string();
                if st.reversed && !fired && kind == "InvalidSignatureValidityPeriod" {
                    l.c(&format!("fh:refused-call(reversed period):{ename}"));
                    failed_before = true;
                    if !retry {
                        queue.push((FStep { reversed: false, ..st.clone() }, true));
                    }
                } else if fired {
                    l.c(&format!("fh:failed-call-returned-Err:{ename}"));
                    // which error it is reported as is not part of the property
                    l.c(&format!("fh:sign_raw-failure-reported-as:{kind}"));
                    if zone_after != zone_before {
                        env.ctx.violation(
                            &format!("C12|fault-history|{ename}|failed-call-changed-the-zone-collection"),
                            &format!("call {pos} failed (Err) and the zone collection went from {} to {} records", zone_before.len(), zone_after.len()),
                            cj.clone(),
                        );
                    }
                    failed_before = true;
                    if !retry {
                        queue.push((FStep { fail: None, ..st.clone() }, true));
                    }
                } else {
                    env.ctx.violation(
                        &format!("C12|{en}|sign-error|{kind}"),
                        &format!("call {pos}: signer returned {err} although every sign_raw call of this call succeeded ({} made)", seen.len()),
                        cj.clone(),
                    );
                }
                continue;
            }
            Ok(Ok(v)) => v,
        };
        if fired {
            env.ctx.violation(
                &format!("C12|fault-history|{ename}|sign_raw-failed-but-the-call-returned-Ok"),
                &format!("call {pos}: a sign_raw call returned its error and the call returned Ok with {} RRSIG(s)", sigs.len()),
                cj.clone(),
            );
            failed_before = true;
            continue;
        }
        l.c(&format!("fh:ok-call:{ename}|{state}"));
        if st.reversed {
            l.c("fh:reversed-period-signed");
        }
        let judge = |sp: &TypeSpec, k: usize, rrs: Vec<RawRR>, rec: &Record<LName, LSig>, tag: String, l: &mut Local| {
            l.evals += 1;
            let ki = h.pair[k];
            let x = Expect { en: &en, spec: sp, key: &env.keys[ki], si: c.si, inc: sinc, exp: sexp, ttl: c.ttl, class: c.class, hash: fnv(format!("{h:?}|{pos}|{tag}").as_bytes()), seen: Some(&seen) };
            if let Some(s) = judge_rrsig(env, &x, rrs, rec, &cj, l) {
                l.c(&format!("fh:verified:{ename}|{state}"));
                check_transforms(env, sp, &env.keys[ki], &cj, &s, 0, l);
            }
        };
        match st.entry {
            'I' | 'R' => {
                // exactly one RRSIG, for the RRset and key of the call
                let (sp, rrs) = match (st.other, st.entry) {
                    (false, 'I') => (spec, to_rrs(spec, &pm, &main[0].owner)),
                    (true, 'I') => (ospec, to_rrs(ospec, &po, &other[0].owner)),
                    (false, _) => (spec, main.clone()),
                    (true, _) => (ospec, other.clone()),
                };
                judge(sp, st.keys[0], rrs, &sigs[0], "0".into(), l);
            }
            _ => {
                // in-place signing: the RRSIGs are in the collection; the
                // other records must be what they were
                let in_place = st.entry == 'P';
                let (all, fresh): (Vec<Record<LName, LSig>>, Vec<bool>) = if in_place {
                    let non_sig = |p: &Pubd| p.iter().filter(|r| r.1 != 46).cloned().collect::<Vec<_>>();
                    if non_sig(&zone_after) != non_sig(&zone_before) {
                        env.ctx.violation("C12|fault-history|sign_zone-in-place|records-other-than-RRSIG-changed", &format!("call {pos}: in-place signing with the denial records declared present changed the zone's own records"), cj.clone());
                    }
                    let all = rrsigs_of(&zone);
                    let now: Vec<_> = all.iter().map(rrsig_key).collect();
                    if sigs_before.iter().any(|b| !now.contains(b)) {
                        env.ctx.violation("C12|fault-history|sign_zone-in-place|earlier-RRSIG-lost", &format!("call {pos}: an RRSIG that was in the collection before the call is gone"), cj.clone());
                    }
                    let fresh = now.iter().map(|k| !sigs_before.contains(k)).collect();
                    (all, fresh)
                } else {
                    let n = sigs.len();
                    (sigs, vec![true; n])
                };
                let zp = if st.entry == 'G' { if st.other { &po } else { &pm } } else { &zone_after };
                let mut groups: Vec<(&TypeSpec, Vec<RawRR>)> = Vec::new();
                if st.entry != 'G' || !st.other {
                    groups.push((spec, to_rrs(spec, zp, &main[0].owner)));
                }
                if st.entry != 'G' || st.other {
                    groups.push((ospec, to_rrs(ospec, zp, &other[0].owner)));
                }
                let mut claimed = vec![false; all.len()];
                for (gi, (sp, rrs)) in groups.into_iter().enumerate() {
                    let mine: Vec<usize> = (0..all.len())
                        .filter(|&k| all[k].data().type_covered().to_int() == sp.rtype && lower_labels(&name_labels(all[k].owner())) == lower_labels(&rrs[0].owner))
                        .collect();
                    if mine.is_empty() {
                        l.c("fh:zone-walk-skipped-rrset");
                        continue;
                    }
                    let mut used = vec![false; st.keys.len()];
                    for k in mine {
                        claimed[k] = true;
                        let alg = all[k].data().algorithm().to_int();
                        // in place: earlier calls' RRSIGs stay (and an equal
                        // one is not added twice), so a key may have several
                        match (0..st.keys.len()).find(|&j| (in_place || !used[j]) && env.keys[h.pair[st.keys[j]]].alg == alg) {
                            None if !fresh[k] => {}
                            None => {
                                env.ctx.violation(
                                    &format!("C12|fault-history|{ename}|RRSIG-for-no-given-key"),
                                    &format!("call {pos}: an RRSIG with algorithm {alg} for {} was made that matches none of the (remaining) signing keys", sp.mn),
                                    cj.clone(),
                                );
                            }
                            Some(j) => {
                                used[j] = true;
                                if fresh[k] {
                                    judge(sp, st.keys[j], rrs.clone(), &all[k], format!("{gi}|{k}"), l);
                                } else {
                                    l.c("fh:in-place:RRSIG-of-an-earlier-call-kept(judged-then)");
                                }
                            }
                        }
                    }
                    if used.iter().any(|u| !u) {
                        env.ctx.violation(
                            &format!("C12|fault-history|{ename}|no-RRSIG-for-a-given-key"),
                            &format!("call {pos}: {} keys were given but only {} have an RRSIG covering {} at {}", st.keys.len(), used.iter().filter(|u| **u).count(), sp.mn, name_text(&rrs[0].owner)),
                            cj.clone(),
                        );
                    }
                }
                if claimed.iter().any(|c| !c) {
                    env.ctx.violation(&format!("C12|fault-history|{ename}|RRSIG-for-no-RRset-of-the-zone"), &format!("call {pos}: an RRSIG was made that covers none of the RRsets handed in"), cj.clone());
                }
            }
        }
    }
    env.stats.sample(4, || cj.clone());
}

fn run_fault_hists(env: &Env, cases: &[FHist]) -> Local {
    cases
        .par_iter()
        .with_max_len(8)
        .fold(Local::default, |mut l, c| {
            fault_hist_case(env, c, &mut l);
            l
        })
        .reduce(Local::default, Local::merge)
}

/// All strings over `alpha` with a length in `lens`, shortest first.
fn strings<T: Clone>(alpha: &[T], lens: std::ops::RangeInclusive<usize>) -> Vec<Vec<T>> {
    let mut out = Vec::new();
    let mut buf = Vec::new();
    for n in lens {
        for i in 0..pow(alpha.len(), n) {
            nth_string(alpha, n, i, &mut buf);
            out.push(buf.clone());
        }
    }
    out
}

/// P8 alphabets, simplest symbol first.
///  A: sign_sorted_rrset_in x {key 1, key 2} x {the RRset, o.z TXT} x
///     {sign_raw succeeds, fails}, and x {key 1} x {RRset, other} with a
///     reversed validity period;
///  B: the five entry points; the single-RRset ones with the first key x
///     {RRset, other} x {ok, fail} and the RRset with a reversed period; the
///     key-list ones with {[k1], [k1,k2]} x
///     {no failure, failure at each of the sign_raw calls a two-RRset zone
///     needs}.
fn fh_alphabets() -> (Vec<FStep>, Vec<FStep>) {
    let mut a = Vec::new();
    for k in [0usize, 1] {
        for other in [false, true] {
            for fail in [None, Some(0)] {
                a.push(FStep { entry: 'I', other, keys: vec![k], fail, reversed: false });
            }
        }
    }
    for other in [false, true] {
        a.push(FStep { entry: 'I', other, keys: vec![0], fail: None, reversed: true });
    }
    let mut b = Vec::new();
    for entry in ['I', 'R'] {
        for other in [false, true] {
            for fail in [None, Some(0)] {
                b.push(FStep { entry, other, keys: vec![0], fail, reversed: false });
            }
        }
        b.push(FStep { entry, other: false, keys: vec![0], fail: None, reversed: true });
    }
    for (entry, rrsets) in [('G', 1usize), ('Z', 2), ('P', 2)] {
        for keys in [vec![0usize], vec![0, 1]] {
            b.push(FStep { entry, other: false, keys: keys.clone(), fail: None, reversed: false });
            for f in 0..rrsets * keys.len() {
                b.push(FStep { entry, other: false, keys: keys.clone(), fail: Some(f), reversed: false });
            }
        }
    }
    (a, b)
}

// ===================================================================
// fault enumeration: every single-bit flip
// ===================================================================

fn rr_field_class(off: usize, start: usize, owner_len: usize, rds: usize) -> &'static str {
    let o = off - start;
    if o < owner_len {
        "rr-owner"
    } else if o < owner_len + 2 {
        "rr-type"
    } else if o < owner_len + 4 {
        "rr-class"
    } else if o < owner_len + 8 {
        "rr-ttl"
    } else if off < rds {
        "rr-rdlen"
    } else {
        "rr-rdata"
    }
}

fn sig_field_class(o: usize, signer_len: usize) -> &'static str {
    match o {
        0..=1 => "sig-type-covered",
        2 => "sig-algorithm",
        3 => "sig-labels",
        4..=7 => "sig-original-ttl",
        8..=11 => "sig-expiration",
        12..=15 => "sig-inception",
        16..=17 => "sig-key-tag",
        _ if o < 18 + signer_len => "sig-signer-name",
        _ => "sig-signature",
    }
}

/// Independent reading of a (possibly damaged) message: n RRs + the RRSIG.
fn ref_read(msg: &[u8], n: usize, spec: &TypeSpec) -> Option<(Vec<RawRR>, SigF)> {
    let m = wire::read_message(msg).ok()?;
    if !m.pointers.is_empty() || m.sections[0].len() != n + 1 {
        return None;
    }
    let mut rrs = Vec::new();
    for r in &m.sections[0][..n] {
        let fields = if r.rtype == spec.rtype { split_rdata(&spec.layout, &r.rdata)? } else { vec![F::B(r.rdata.clone())] };
        rrs.push(RawRR { owner: r.owner.clone(), rtype: r.rtype, class: r.class, ttl: r.ttl, fields });
    }
    let s = &m.sections[0][n];
    if s.rtype != 46 {
        return None;
    }
    let sig = SigF::from_fields(&split_rdata(&[L::Fix(18), L::Name, L::Rest], &s.rdata)?)?;
    Some((rrs, sig))
}

fn fault_case(env: &Env, c: &Case, l: &mut Local) {
    let spec = &env.types[c.ti];
    let key = &env.keys[c.ki];
    let Some(s) = sign_case(env, c, l) else {
        l.c("fault:base-not-signed");
        return;
    };
    // what a resolver holds: the RRset without duplicates, and the RRSIG
    let mut rrs: Vec<RawRR> = Vec::new();
    for r in &s.rrs {
        if !rrs.iter().any(|x| x.rdata_canon(false) == r.rdata_canon(false)) {
            rrs.push(r.clone());
        }
    }
    let n = rrs.len();
    let open = rfc_canon(spec.rtype) == Canon::Open;
    let open_lower = s.refs[0] != ref_octets(&s.sig, &s.rrs, false).unwrap();
    let mut all = rrs.clone();
    all.push(s.sig.as_rr(&rrs[0].owner, c.class, c.ttl));
    let base = build_msg(&all, false);
    // baseline
    let base_out = match guard(|| lib_validate(&rrs, &s.sig, Form::Plain, &key.dnskey)) {
        Ok(Ok(o)) if o.verify.is_ok() && s.refs.contains(&o.octets) => o,
        _ => {
            l.c("fault:baseline-does-not-verify");
            return;
        }
    };
    let ref0 = &s.refs[0];
    // ECDSA signatures are randomised and a damaged length octet can make a
    // reader run into the signature octets: only the deterministic
    // algorithms get the detailed rejected/unreadable split in the counters
    let det = !matches!(key.alg, 13 | 14);
    let signer_len = name_wire(&s.sig.signer).len();
    let fault_json = |target: &str, bit: usize| json!({"part": "fault", "case": c.json(env), "target": target, "bit": bit});
    // ---- targets in the message: each RR entirely, the RRSIG RDATA
    let mut ranges: Vec<(String, usize, usize, usize)> = Vec::new(); // (target, from, to, rr index)
    for i in 0..n {
        ranges.push((format!("rr{i}"), base.spans[i].0, base.spans[i].2, i));
    }
    ranges.push(("rrsig-rdata".into(), base.spans[n].1, base.spans[n].2, n));
    for (target, from, to, idx) in &ranges {
        for bit in 0..(to - from) * 8 {
            l.evals += 1;
            let off = from + bit / 8;
            let fclass = if *idx < n {
                rr_field_class(off, base.spans[*idx].0, name_wire(&rrs[*idx].owner).len(), base.spans[*idx].1)
            } else {
                sig_field_class(off - from, signer_len)
            };
            let mut m = base.bytes.clone();
            m[off] ^= 0x80 >> (bit % 8);
            // independent expectation
            let rr = ref_read(&m, n, spec);
            // Some(true): must verify; Some(false): must fail; None: either
            let mut expect: Option<bool> = Some(false);
            let mut ref_oct: Option<Vec<Vec<u8>>> = None;
            if let Some((rrs_f, sig_f)) = &rr {
                let has_dups = {
                    let mut v: Vec<Vec<u8>> = rrs_f.iter().map(|r| r.rdata_canon(open_lower)).collect();
                    v.sort();
                    v.windows(2).any(|w| w[0] == w[1])
                };
                // RFC 4034 6.3 lets a validator treat duplicate RRs as an
                // error: no octets are demanded for such a damaged set
                // IPSECKEY/SVCB/HTTPS RDATA is opaque to the reference reader but
                // holds a name: a damaged gateway type / length can make the
                // library see a compression pointer there, for which no
                // canonical form is defined
                let opaque_name = matches!(spec.rtype, 45 | 64 | 65) && fclass == "rr-rdata";
                let proper = is_rrset(rrs_f, spec.rtype) && !has_dups && !opaque_name;
                let o1 = ref_octets(sig_f, rrs_f, open_lower);
                let same_sig = sig_f.sig == s.sig.sig;
                let eq1 = o1.as_ref() == Some(ref0);
                if open && proper {
                    // the other reading of NSEC canonical form
                    let o2 = ref_octets(sig_f, rrs_f, !open_lower);
                    let base2 = ref_octets(&s.sig, &rrs, !open_lower);
                    let eq2 = o2.is_some() && o2 == base2;
                    expect = if eq1 == eq2 { Some(eq1 && same_sig) } else { None };
                    if let (Some(a), Some(b)) = (o1.clone(), o2) {
                        ref_oct = Some(vec![a, b]);
                    }
                } else {
                    expect = Some(eq1 && same_sig);
                    if proper {
                        ref_oct = o1.clone().map(|a| vec![a]);
                    }
                }
            }
            // the library
            env.stats.distinct(fnv(format!("{c:?}|{target}|{bit}").as_bytes()));
            let lib = guard(|| -> Result<LibOut, String> {
                let (mut recs, lsig) = lib_vrecs(&m, n, true)?;
                let lsig = lsig.unwrap();
                let octets = lib_signed_data(&lsig, &mut recs);
                let verify = lsig.verify_signed_data(&key.dnskey, &octets).map_err(|e| format!("{e:?}"));
                Ok(LibOut { octets, verify, wce: None })
            });
            let out = match lib {
                Err(p) => {
                    env.ctx.violation(
                        &format!("C12|fault|{fclass}|panic|{}", panic_class(&p)),
                        &format!("panic while reading/validating after flipping bit {bit} of {target}: {p}"),
                        fault_json(target, bit),
                    );
                    continue;
                }
                Ok(Err(_)) => {
                    l.c(&if det { format!("fault:{fclass}:unreadable-by-library") } else { format!("fault:{fclass}:rejected-or-unreadable(ecdsa)") });
                    continue;
                }
                Ok(Ok(o)) => o,
            };
            if let (Some(ro), Some((rrs_f, sig_f))) = (&ref_oct, &rr) {
                if !ro.contains(&out.octets) {
                    let d = diagnose(sig_f, rrs_f, open_lower, &|o| o == &out.octets[..]);
                    let class = octets_class("signed_data", &format!("bit-flip-in-{fclass}"), spec, &d);
                    env.ctx.violation(
                        &class,
                        &format!("after flipping bit {bit} of {target} ({fclass}) signed_data = {} but the independent construction gives {}; diagnosis: {d}", hex(&out.octets), hex(&ro[0])),
                        fault_json(target, bit),
                    );
                }
            }
            match (rr.is_some(), expect, out.verify.is_ok()) {
                (false, _, true) => {
                    env.ctx.violation(
                        &format!("C12|fault|{fclass}|malformed-for-reference-reader-but-verified"),
                        &format!("flipping bit {bit} of {target} makes the message unreadable for the reference reader, yet the library verified it"),
                        fault_json(target, bit),
                    );
                }
                (false, _, false) => l.c(&if det { format!("fault:{fclass}:ref-unreadable,lib-rejects") } else { format!("fault:{fclass}:rejected-or-unreadable(ecdsa)") }),
                (true, Some(true), false) => {
                    let class = if spec.lib_unknown_listed && fclass == "rr-rdata" {
                        "C12|fault|rr-rdata|RFC4034-6.2-listed-type-without-library-type|name-case-bit-changes-verification".to_string()
                    } else {
                        format!("C12|fault|{fclass}|signed-octets-identical-but-verification-failed")
                    };
                    env.ctx.violation(
                        &class,
                        &format!(
                            "flipping bit {bit} of {target} ({fclass}, type {}) leaves the RFC 4034 signed octets and the signature unchanged, but verify_signed_data = {:?}",
                            spec.mn, out.verify
                        ),
                        fault_json(target, bit),
                    );
                }
                (true, Some(false), true) => {
                    env.ctx.violation(
                        &format!("C12|fault|{fclass}|altered-but-verified"),
                        &format!("flipping bit {bit} of {target} ({fclass}) changes the signed octets or the signature, yet verify_signed_data = Ok"),
                        fault_json(target, bit),
                    );
                }
                (true, Some(true), true) => l.c(&format!("fault:{fclass}:same-octets,verifies")),
                (true, Some(false), false) => l.c(&if det { format!("fault:{fclass}:altered,rejected") } else { format!("fault:{fclass}:rejected-or-unreadable(ecdsa)") }),
                (true, None, v) => l.c(&format!("fault:{fclass}:open(NSEC case),{}", if v { "verifies" } else { "rejected" })),
            }
        }
    }
    // ---- the DNSKEY: flags, protocol, algorithm, every public key bit
    let kr = &key.rdata;
    for bit in 0..kr.len() * 8 {
        l.evals += 1;
        let mut r = kr.clone();
        r[bit / 8] ^= 0x80 >> (bit % 8);
        let fclass = match bit / 8 {
            0 | 1 => "dnskey-flags",
            2 => "dnskey-protocol",
            3 => "dnskey-algorithm",
            _ => "dnskey-public-key",
        };
        let res = guard(|| {
            let dk = Dnskey::new(u16::from_be_bytes([r[0], r[1]]), r[2], SecurityAlgorithm::from_int(r[3]), Bytes::copy_from_slice(&r[4..])).unwrap();
            lib_sig_from(&s.sig).verify_signed_data(&dk, &base_out.octets).map_err(|e| format!("{e:?}"))
        });
        env.stats.distinct(fnv(format!("{c:?}|dnskey|{bit}").as_bytes()));
        match res {
            Err(p) => {
                env.ctx.violation(
                    &format!("C12|fault|{fclass}|panic|{}", panic_class(&p)),
                    &format!("panic verifying with DNSKEY bit {bit} flipped: {p}"),
                    fault_json("dnskey", bit),
                );
            }
            Ok(v) => {
                if bit / 8 >= 3 {
                    if v.is_ok() {
                        env.ctx.violation(
                            &format!("C12|fault|{fclass}|altered-but-verified"),
                            &format!("verification succeeded with bit {bit} of the DNSKEY RDATA ({fclass}) flipped"),
                            fault_json("dnskey", bit),
                        );
                    } else {
                        l.c(&format!("fault:{fclass}:altered,rejected"));
                    }
                } else {
                    // flags/protocol are not key material and not looked at by
                    // the primitives; key selection (key tag) is the caller's
                    l.c(&format!("fault:{fclass}:informational,{}", if v.is_ok() { "verifies" } else { "rejected" }));
                }
            }
        }
    }
    l.c("fault:cases-completed");
}

// ===================================================================
// key representations: text form, bytes form, generated keys, sign_raw
// ===================================================================

/// Own reading of a BIND private-key text: field name -> decoded octets
/// (base64 fields) or raw text (the two header lines).
fn bind_fields(text: &str) -> BTreeMap<String, Vec<u8>> {
    let mut m = BTreeMap::new();
    for line in text.lines() {
        let Some((k, v)) = line.split_once(':') else { continue };
        let (k, v) = (k.trim().to_string(), v.trim());
        if k == "Private-key-format" || k == "Algorithm" {
            m.insert(k, v.as_bytes().to_vec());
        } else {
            m.insert(k, b64(v));
        }
    }
    m
}

/// RSA modulus bit length / curve size, from the DNSKEY public key by hand.
fn ref_key_size(alg: u8, pubkey: &[u8]) -> Option<usize> {
    match alg {
        5 | 7 | 8 | 10 => {
            let (l, off) = if pubkey[0] != 0 { (pubkey[0] as usize, 1) } else { (u16::from_be_bytes([pubkey[1], pubkey[2]]) as usize, 3) };
            let n = &pubkey[off + l..];
            Some(n.len() * 8 - n[0].leading_zeros() as usize)
        }
        13 => Some(256),
        14 => Some(384),
        15 => Some(256),
        16 => Some(456),
        _ => None,
    }
}

/// Sign the small RRset menu (A, MX, TXT at z and *.a.z) with a key pair and
/// judge every RRSIG under the public key `pubk` (fields, ring over the
/// independent octets, signed_data / verify_signed_data through the reduced
/// transformation menu). Returns the number of RRSIGs that passed.
fn sign_small_menu(env: &Env, part: &str, kp: KeyPair, pubk: &KeyMat, form: &str, l: &mut Local) -> usize {
    let mut passed = 0;
    let skey = SigningKey::new(lname(&labels(SIGNER_NAMES[0])), pubk.flags, kp);
    for mn in ["A", "MX", "TXT"] {
        let ti = env.types.iter().position(|t| t.mn == mn).unwrap();
        for oi in [0usize, 3] {
            l.evals += 1;
            let c = Case { ti, seq: vec![2, 0], oi, oc: 0, ttl: 3600, tm: 0, si: 0, class: 1, ki: 0, entry: 1, mixed: false };
            let rrs = c.rrs(env);
            let cj = json!({"part": part, "form": form, "alg": pubk.alg, "type": env.types[ti].mn, "owner": OWNERS[oi]});
            let (inc, exp, _) = env.times[0];
            let res = guard(|| {
                let z = lib_zrecs(&build_msg(&rrs, false).bytes)?;
                let rrset = Rrset::new_from_owned(&z).map_err(|e| format!("{e:?}"))?;
                sign_rrset(&skey, &rrset, Timestamp::from(inc), Timestamp::from(exp)).map_err(|e| format!("{e:?}"))
            });
            match res {
                Ok(Ok(rec)) => {
                    let en = format!("sign_rrset|key-form#{form}");
                    let x = Expect { en: &en, spec: &env.types[ti], key: pubk, si: 0, inc, exp, ttl: 3600, class: 1, hash: fnv(format!("{cj}").as_bytes()), seen: None };
                    if let Some(s) = judge_rrsig(env, &x, rrs, &rec, &cj, l) {
                        l.c(&format!("{part}:{form}:signature-verifies"));
                        check_transforms(env, &env.types[ti], pubk, &cj, &s, 1, l);
                        passed += 1;
                    }
                }
                other => {
                    env.ctx.violation(&format!("C12|key-form|{form}|sign-failed"), &format!("alg {}: signing with the {form} key failed: {other:?}", pubk.alg), cj);
                }
            }
        }
    }
    passed
}

fn key_form_checks(env: &Env, form_keys: &[KeyMat], all_keys: &[KeyMat], l: &mut Local) {
    use domain::crypto::common::PublicKey as LibPublicKey;
    use domain::crypto::sign::{generate, GenerateParams, SignRaw};
    let viol = |sig: String, what: String, rp: Value| {
        env.ctx.violation(&sig, &what, rp);
    };
    let sign_menu = |kp: KeyPair, pubk: &KeyMat, form: &str, l: &mut Local| sign_small_menu(env, "keyform", kp, pubk, form, l);
    for k in form_keys {
        let rp = |what: &str| json!({"part": "keyform", "alg": k.alg, "what": what});
        let pubrec = domain::dnssec::common::parse_from_bind::<Vec<u8>>(&k.key_text).expect("public key parses");
        // ---- (a) text form round trip
        l.evals += 1;
        let r = guard(|| -> Result<(String, String, String, u8), String> {
            let s1 = SecretKeyBytes::parse_from_bind(&k.priv_text).map_err(|e| format!("parse: {e}"))?;
            let t1 = s1.display_as_bind().to_string();
            let mut t2 = String::new();
            s1.format_as_bind(&mut t2).map_err(|e| format!("format: {e}"))?;
            let s2 = SecretKeyBytes::parse_from_bind(&t1).map_err(|e| format!("re-parse: {e}"))?;
            let t3 = s2.display_as_bind().to_string();
            let a = s1.algorithm().to_int();
            Ok((t1, t2, t3, a))
        });
        let t1 = match r {
            Ok(Ok((t1, t2, t3, a))) => {
                if t1 != t2 || t1 != t3 {
                    viol("C12|key-form|text|display-not-idempotent".into(), format!("alg {}: display_as_bind / format_as_bind / re-parsed display differ", k.alg), rp("text"));
                }
                if a != k.alg {
                    viol("C12|key-form|text|algorithm".into(), format!("alg {}: SecretKeyBytes::algorithm() = {a}", k.alg), rp("text"));
                }
                if bind_fields(&t1) != bind_fields(&k.priv_text) {
                    viol("C12|key-form|text|fields-changed-by-round-trip".into(), format!("alg {}: the key material written back differs from the file (own reading of both texts)", k.alg), rp("text"));
                } else {
                    l.c("keyform:text-round-trip-preserves-fields");
                }
                t1
            }
            other => {
                viol("C12|key-form|text|round-trip-failed".into(), format!("alg {}: {other:?}", k.alg), rp("text"));
                continue;
            }
        };
        // ---- text variants a BIND tool may write
        let body: String = k.priv_text.lines().skip(1).collect::<Vec<_>>().join("\n");
        let variants: Vec<(&str, String)> = vec![
            ("as-written-back", t1.clone()),
            ("no-final-newline", k.priv_text.trim_end().to_string()),
            ("v1.3+timing-fields", format!("Private-key-format: v1.3\n{body}\nCreated: 20240101000000\nPublish: 20240101000000\nActivate: 20240101000000\n")),
            ("blank-lines", k.priv_text.replace('\n', "\n\n")),
        ];
        for (vn, text) in &variants {
            l.evals += 1;
            let r = guard(|| -> Result<KeyPair, String> {
                let s = SecretKeyBytes::parse_from_bind(text).map_err(|e| format!("parse: {e}"))?;
                if s.display_as_bind().to_string() != t1 {
                    return Err("different key".into());
                }
                KeyPair::from_bytes(&s, pubrec.data()).map_err(|e| format!("from_bytes: {e}"))
            });
            match r {
                Ok(Ok(kp)) => {
                    env.stats.distinct(fnv(format!("keyform|{}|{vn}", k.alg).as_bytes()));
                    // ---- (b) the imported pair reports the file's public key
                    let d = kp.dnskey();
                    if kp.algorithm().to_int() != k.alg || d.public_key() != &k.pubkey || d.flags() != k.flags || d.protocol() != 3 || d.algorithm().to_int() != k.alg {
                        viol("C12|key-form|bytes|dnskey-differs-from-key-file".into(), format!("alg {}: KeyPair::dnskey() after text variant {vn}", k.alg), rp(vn));
                    }
                    // ---- (c) and signs verifiably under the file's public key
                    sign_menu(kp, k, &format!("text:{vn}"), l);
                }
                other => viol(format!("C12|key-form|text|variant={vn}|rejected"), format!("alg {}: {other:?}", k.alg), rp(vn)),
            }
        }
        // ---- (d) sign_raw: the primitive under the signer
        let msgs: Vec<Vec<u8>> = vec![vec![], b"a".to_vec(), vec![0x55; 1000], (0..70_000u32).map(|i| i as u8).collect()];
        let r = guard(|| -> Result<Vec<(u8, Vec<u8>, Vec<u8>)>, String> {
            let s = SecretKeyBytes::parse_from_bind(&k.priv_text).map_err(|e| format!("{e}"))?;
            let kp = KeyPair::from_bytes(&s, pubrec.data()).map_err(|e| format!("{e}"))?;
            let mut out = Vec::new();
            for m in &msgs {
                let sig = kp.sign_raw(m).map_err(|e| format!("sign_raw: {e}"))?;
                let a = sig.algorithm().to_int();
                let by_ref = sig.as_ref().to_vec();
                let boxed: Box<[u8]> = sig.into();
                out.push((a, by_ref, boxed.to_vec()));
            }
            Ok(out)
        });
        match r {
            Ok(Ok(v)) => {
                for (m, (a, by_ref, boxed)) in msgs.iter().zip(v) {
                    l.evals += 1;
                    env.stats.distinct(fnv(format!("sign_raw|{}|{}", k.alg, m.len()).as_bytes()));
                    let lib = guard(|| {
                        let pk = LibPublicKey::from_dnskey(&k.dnskey).map_err(|e| format!("{e:?}"))?;
                        let ok = pk.verify(m, &by_ref).map_err(|e| format!("{e:?}"));
                        let mut m2 = m.clone();
                        m2.push(0);
                        let bad = pk.verify(&m2, &by_ref).map_err(|e| format!("{e:?}"));
                        Ok::<_, String>((ok, bad))
                    });
                    let good = a == k.alg && by_ref == boxed && by_ref.len() == sig_len(k.alg, &k.pubkey) && ring_verify(k.alg, &k.pubkey, m, &by_ref);
                    if !good {
                        viol("C12|sign_raw|signature-does-not-verify-with-ring".into(), format!("alg {}: sign_raw over {} octets: algorithm {a}, {} octets", k.alg, m.len(), by_ref.len()), rp("sign_raw"));
                    }
                    match lib {
                        Ok(Ok((Ok(()), Err(_)))) => l.c("sign_raw:verifies,other-message-rejected"),
                        other => viol("C12|sign_raw|PublicKey::verify-disagrees".into(), format!("alg {}: crypto::common::PublicKey::verify over sign_raw output: {other:?}", k.alg), rp("sign_raw")),
                    }
                }
            }
            other => viol("C12|sign_raw|failed".into(), format!("alg {}: {other:?}", k.alg), rp("sign_raw")),
        }
        // ---- (e) a secret key must only pair with ITS public key
        let secret = SecretKeyBytes::parse_from_bind(&k.priv_text).expect("parsed above");
        for other in all_keys {
            l.evals += 1;
            let r = guard(|| KeyPair::from_bytes(&secret, &other.dnskey).is_ok());
            match r {
                Ok(ok) if ok == (other.alg == k.alg) => l.c(if ok { "from_bytes:own-public-key-accepted" } else { "from_bytes:foreign-public-key-refused" }),
                other_r => viol("C12|key-form|from_bytes|foreign-public-key".into(), format!("secret key alg {} with the public key of alg {}: accepted = {other_r:?}", k.alg, other.alg), rp("from_bytes")),
            }
        }
        for bit in 0..k.rdata.len() * 8 {
            l.evals += 1;
            let mut r = k.rdata.clone();
            r[bit / 8] ^= 0x80 >> (bit % 8);
            let res = guard(|| {
                let dk = Dnskey::new(u16::from_be_bytes([r[0], r[1]]), r[2], SecurityAlgorithm::from_int(r[3]), r[4..].to_vec()).unwrap();
                KeyPair::from_bytes(&secret, &dk).is_ok()
            });
            env.stats.distinct(fnv(format!("from_bytes|{}|{bit}", k.alg).as_bytes()));
            match (bit / 8, res) {
                (_, Err(p)) => viol(format!("C12|key-form|from_bytes|panic|{}", panic_class(&p)), format!("alg {} bit {bit}: {p}", k.alg), rp("from_bytes")),
                // flags and protocol are not key material
                (0..=2, Ok(_)) => l.c("from_bytes:flags/protocol-flip(not judged)"),
                (_, Ok(false)) => l.c("from_bytes:altered-public-key-refused"),
                (_, Ok(true)) => viol(
                    "C12|key-form|from_bytes|altered-public-key-accepted".into(),
                    format!("alg {}: KeyPair::from_bytes accepted the public key with bit {bit} of the DNSKEY RDATA flipped; signatures would not verify under it", k.alg),
                    json!({"part": "keyform", "alg": k.alg, "bit": bit}),
                ),
            }
        }
    }
    // ---- Ed448 and friends: a secret the backend cannot use must be refused
    for k in all_keys.iter().filter(|k| !form_keys.iter().any(|f| f.alg == k.alg)) {
        l.evals += 1;
        let r = guard(|| match SecretKeyBytes::parse_from_bind(&k.priv_text) {
            Ok(s) => format!("parsed, from_bytes ok = {}", KeyPair::from_bytes(&s, &k.dnskey).is_ok()),
            Err(e) => format!("not parsed ({e})"),
        });
        match r {
            Ok(t) if !t.ends_with("= true") => l.c("from_bytes:unsupported-algorithm-refused"),
            other => viol("C12|key-form|unsupported-algorithm-imported".into(), format!("alg {}: {other:?}", k.alg), json!({"part": "keyform", "alg": k.alg})),
        }
    }
    // ---- (f) key size, flag predicates, algorithm support predicates
    for k in all_keys {
        l.evals += 1;
        let got = guard(|| k.dnskey.key_size().map_err(|e| format!("{e:?}")));
        if got != Ok(Ok(ref_key_size(k.alg, &k.pubkey).unwrap())) {
            viol("C12|key_size|differs".into(), format!("alg {}: key_size() = {got:?}, by hand {:?}", k.alg, ref_key_size(k.alg, &k.pubkey)), json!({"part": "keyform", "alg": k.alg}));
        }
        let can_verify = domain::crypto::common::PublicKey::from_dnskey(&k.dnskey).is_ok();
        let says = domain::dnssec::validator::base::supported_algorithm(&SecurityAlgorithm::from_int(k.alg));
        l.c(&format!("supported_algorithm({})={says},primitives-can-verify={can_verify}", k.alg));
    }
    for code in 0..=255u8 {
        l.evals += 1;
        let d = DigestAlgorithm::from_int(code);
        let says = domain::dnssec::validator::base::supported_digest(&d);
        let does = all_keys[0].dnskey.digest(&lname(&labels("test")), d).is_ok();
        if says != does {
            viol("C12|supported_digest|disagrees-with-digest()".into(), format!("digest type {code}: supported_digest = {says}, digest() ok = {does}"), json!({"part": "keyform", "digest_type": code}));
        }
    }
    for flags in [0u16, 0x0001, 0x0080, 0x0100, 0x0101, 0x0180, 0x0181, 0x8000, 0xFFFF, 0xFE7E] {
        l.evals += 1;
        let k = form_keys.iter().find(|k| k.alg == 15).unwrap();
        let r = guard(|| {
            let s = SecretKeyBytes::parse_from_bind(&k.priv_text).unwrap();
            let dk = Dnskey::new(flags, 3, SecurityAlgorithm::ED25519, k.pubkey.clone()).unwrap();
            let kp = KeyPair::from_bytes(&s, &dk).unwrap();
            let kd = kp.dnskey();
            let sk = SigningKey::new(lname(&labels("z")), flags, kp);
            (
                (sk.flags(), sk.is_zone_signing_key(), sk.is_revoked(), sk.is_secure_entry_point()),
                (kd.flags(), kd.is_zone_key(), kd.is_revoked(), kd.is_secure_entry_point()),
                (sk.dnskey().flags(), dk.protocol()),
            )
        });
        // RFC 4034 2.1.1 (bit 7 = Zone Key, bit 15 = SEP), RFC 5011 (bit 8 = REVOKE)
        let want = (flags, flags & 0x0100 != 0, flags & 0x0080 != 0, flags & 0x0001 != 0);
        if r != Ok((want, want, (flags, 3))) {
            viol("C12|signing-key|flag-predicates".into(), format!("flags {flags:#06x}: {r:?}"), json!({"part": "keyform", "flags": flags}));
        } else {
            l.c("signing-key:flag-predicates-agree");
        }
    }
    // ---- (g) generated keys
    let params = [
        GenerateParams::EcdsaP256Sha256,
        GenerateParams::EcdsaP384Sha384,
        GenerateParams::Ed25519,
        GenerateParams::RsaSha256 { bits: 2048 },
        GenerateParams::RsaSha512 { bits: 2048 },
        GenerateParams::Ed448,
    ];
    for p in &params {
        for flags in [256u16, 257] {
            l.evals += 1;
            let alg = p.algorithm().to_int();
            let rp = json!({"part": "keyform", "what": "generate", "alg": alg, "flags": flags});
            let r = guard(|| generate(p, flags).map_err(|e| format!("{e}")));
            match r {
                Err(pn) => viol(format!("C12|generate|panic|{}", panic_class(&pn)), pn, rp),
                Ok(Err(_)) => l.c(&format!("generate:alg{alg}:refused(backend cannot generate)")),
                Ok(Ok((secret, dk))) => {
                    let mut rdata = flags.to_be_bytes().to_vec();
                    rdata.extend_from_slice(&[3, alg]);
                    rdata.extend_from_slice(dk.public_key());
                    let want_len = match alg {
                        13 => 64,
                        14 => 96,
                        15 => 32,
                        _ => dk.public_key().len(),
                    };
                    if dk.flags() != flags || dk.protocol() != 3 || dk.algorithm().to_int() != alg || secret.algorithm().to_int() != alg || dk.public_key().len() != want_len || dk.key_tag() != keytag_app_b(&rdata) {
                        viol("C12|generate|dnskey-fields".into(), format!("generate({p:?}, {flags}) returned an inconsistent DNSKEY"), rp.clone());
                        continue;
                    }
                    let pubk = KeyMat {
                        alg,
                        tag_file: 0,
                        owner_file: vec![],
                        flags,
                        pubkey: dk.public_key().clone(),
                        rdata,
                        dnskey: Dnskey::new(flags, 3, SecurityAlgorithm::from_int(alg), Bytes::from(dk.public_key().clone())).unwrap(),
                        signers: vec![],
                        ds_text: None,
                        key_text: String::new(),
                        priv_text: String::new(),
                    };
                    // through the text form and back, then import and sign
                    let kp = guard(|| -> Result<KeyPair, String> {
                        let text = secret.display_as_bind().to_string();
                        let s2 = SecretKeyBytes::parse_from_bind(&text).map_err(|e| format!("re-parse: {e}"))?;
                        if s2.display_as_bind().to_string() != text {
                            return Err("text form not stable".into());
                        }
                        KeyPair::from_bytes(&s2, &dk).map_err(|e| format!("from_bytes: {e}"))
                    });
                    match kp {
                        Ok(Ok(kp)) => {
                            l.c(&format!("generate:alg{alg}:generated,imported"));
                            env.stats.distinct(fnv(format!("generate|{alg}|{flags}").as_bytes()));
                            sign_menu(kp, &pubk, "generated", l);
                        }
                        other => viol("C12|generate|generated-key-not-importable".into(), format!("generate({p:?}, {flags}): {other:?}"), rp),
                    }
                }
            }
        }
    }
}

// ===================================================================
// P9: key sizes and public-key encodings
// ===================================================================

/// An RSA key made ONCE with the openssl command line tool (mc/keys/gen.py,
/// never run by the check) and committed: BIND private-key text, DNSKEY
/// line with the RFC 3110 public key field, and PKCS#1 v1.5 signatures made
/// by openssl over mc/keys/msg.bin with SHA-1 / SHA-256 / SHA-512.
struct RsaFixture {
    name: &'static str,
    bits: usize,
    e: u64,
    key: &'static str,
    private: &'static str,
    sigs: &'static str,
}

macro_rules! rsa_fixture {
    ($bits:literal, $e:literal) => {
        RsaFixture {
            name: concat!("rsa-", $bits, "-e", $e),
            bits: $bits,
            e: $e,
            key: include_str!(concat!("../../keys/rsa-", $bits, "-e", $e, ".key")),
            private: include_str!(concat!("../../keys/rsa-", $bits, "-e", $e, ".private")),
            sigs: include_str!(concat!("../../keys/rsa-", $bits, "-e", $e, ".sigs")),
        }
    };
}

const FIXTURE_MSG: &[u8] = include_bytes!("../../keys/msg.bin");

fn rsa_fixtures() -> Vec<RsaFixture> {
    vec![
        rsa_fixture!(1024, 65537),
        rsa_fixture!(2048, 65537),
        rsa_fixture!(3072, 65537),
        rsa_fixture!(4096, 65537),
        rsa_fixture!(2048, 3),
        rsa_fixture!(2048, 16777217),
        rsa_fixture!(2056, 65537),
        rsa_fixture!(4088, 65537),
    ]
}

fn alg_mnemonic(alg: u8) -> &'static str {
    match alg {
        5 => "RSASHA1",
        7 => "NSEC3RSASHA1",
        8 => "RSASHA256",
        10 => "RSASHA512",
        _ => "?",
    }
}

impl RsaFixture {
    fn pubkey(&self) -> Vec<u8> {
        let tok: Vec<&str> = self.key.split_whitespace().collect();
        let di = tok.iter().position(|t| *t == "DNSKEY").expect("DNSKEY token");
        b64(&tok[di + 4..].concat())
    }
    /// The openssl signature over FIXTURE_MSG with the hash of a DNSSEC algorithm.
    fn sig(&self, alg: u8) -> Vec<u8> {
        let h = match alg {
            5 | 7 => "sha1",
            8 => "sha256",
            _ => "sha512",
        };
        let line = self.sigs.lines().find(|l| l.split_whitespace().next() == Some(h)).expect("signature line");
        unhex(line.split_whitespace().nth(1).unwrap())
    }
    /// The fixture as a key of one of the four RSA DNSSEC algorithms (the key
    /// material of RFC 3110 / RFC 5702 keys is the same; only the algorithm
    /// number and the hash differ).
    fn keymat(&self, alg: u8) -> KeyMat {
        let pubkey = self.pubkey();
        let flags = 256u16;
        let mut rdata = flags.to_be_bytes().to_vec();
        rdata.extend_from_slice(&[3, alg]);
        rdata.extend_from_slice(&pubkey);
        let tok: Vec<&str> = self.key.split_whitespace().collect();
        let di = tok.iter().position(|t| *t == "DNSKEY").unwrap();
        let key_text = format!("z. IN DNSKEY {flags} 3 {alg} {}\n", tok[di + 4..].concat());
        let priv_text = self.private.replace("Algorithm: 8 (RSASHA256)", &format!("Algorithm: {alg} ({})", alg_mnemonic(alg)));
        assert!(priv_text.contains(&format!("Algorithm: {alg} (")), "harness: fixture algorithm line");
        KeyMat {
            alg,
            tag_file: keytag_app_b(&rdata),
            owner_file: labels("z"),
            flags,
            dnskey: Dnskey::new(flags, 3, SecurityAlgorithm::from_int(alg), Bytes::from(pubkey.clone())).unwrap(),
            pubkey,
            rdata,
            signers: vec![],
            ds_text: None,
            key_text,
            priv_text,
        }
    }
}

/// Deterministic octet string of a length with a chosen first octet and an
/// odd last octet (an RSA modulus and a usable public exponent are odd).
fn synth_int(len: usize, lead: u8, salt: u8) -> Vec<u8> {
    let mut v: Vec<u8> = (0..len).map(|i| (i as u8).wrapping_mul(37).wrapping_add(salt)).collect();
    if len > 0 {
        v[len - 1] |= 1;
        v[0] = lead;
    }
    if len == 1 && lead != 0 {
        v[0] = lead | 1;
    }
    v
}

/// RFC 3110 §2 encoding written out. `long_form` forces the three-octet
/// length form.
fn rfc3110_encode(e: &[u8], n: &[u8], long_form: bool) -> Vec<u8> {
    let mut v = Vec::new();
    if e.len() <= 255 && !long_form {
        v.push(e.len() as u8);
    } else {
        v.push(0);
        v.extend_from_slice(&(e.len() as u16).to_be_bytes());
    }
    v.extend_from_slice(e);
    v.extend_from_slice(n);
    v
}

fn modulus_class(nlen: usize) -> &'static str {
    match nlen {
        0 => "modulus=absent",
        1..=127 => "modulus<1024-bit",
        128 => "modulus=1024-bit(backend-minimum)",
        129..=511 => "modulus=in-range",
        512 => "modulus=4096-bit(RFC3110-maximum)",
        _ => "modulus>4096-bit",
    }
}
fn exponent_class(elen: usize, long_form: bool) -> String {
    let l = match elen {
        0 => "absent",
        1..=4 => "1..4-octets",
        5..=255 => "5..255-octets",
        256..=511 => "256..511-octets",
        512 => "512-octets(RFC3110-maximum)",
        _ => ">512-octets",
    };
    format!("exponent={l},{}-length-form", if long_form { "3-octet" } else { "1-octet" })
}

/// KeyPair::from_bytes with an ECDSA secret key and a DNSKEY that carries
/// another algorithm number (but octets from which the curve point can still
/// be read) is accepted by the library as of this writing; reported to the
/// maintainer of the checks as a candidate finding, not judged here.
const JUDGE_RELABELLED_DNSKEY: bool = false;

fn key_size_checks(env: &Env, form_keys: &[KeyMat], all_keys: &[KeyMat], l: &mut Local) {
    use domain::crypto::common::{rsa_encode, rsa_exponent_modulus, PublicKey as LibPublicKey};
    use domain::crypto::sign::SignRaw;
    let quick = env.quick;
    let viol = |sig: String, what: String, rp: Value| {
        env.ctx.violation(&sig, &what, rp);
    };
    // library verdict on (key, message, signature): Ok(true) verified,
    // Ok(false) refused at from_dnskey or at verify, Err = panic
    let lib_verifies = |dk: &Dnskey<Bytes>, m: &[u8], s: &[u8]| -> Result<bool, String> {
        guard(|| match LibPublicKey::from_dnskey(dk) {
            Ok(pk) => pk.verify(m, s).is_ok(),
            Err(_) => false,
        })
    };
    // ------------------------------------------------------------------
    // (a) real RSA keys of every size / exponent length
    // ------------------------------------------------------------------
    let fixtures = rsa_fixtures();
    let mut fixture_keys: Vec<KeyMat> = Vec::new();
    for f in &fixtures {
        let pubkey = f.pubkey();
        let (e, n) = rsa_split(&pubkey).expect("harness: fixture public key splits");
        let fields = bind_fields(f.private);
        assert!(fields["Modulus"] == n && fields["PublicExponent"] == e, "harness: fixture {} .key and .private disagree", f.name);
        assert!(n.len() == (f.bits + 7) / 8 && ref_key_size(8, &pubkey) == Some(f.bits), "harness: fixture {} size", f.name);
        assert!(e.iter().fold(0u64, |a, b| (a << 8) | *b as u64) == f.e && e[0] != 0, "harness: fixture {} exponent", f.name);
        for alg in [5u8, 7, 8, 10] {
            let k = f.keymat(alg);
            let rp = |what: &str| json!({"part": "keysize", "fixture": f.name, "alg": alg, "what": what});
            let size = format!("{},exponent={}-octets", modulus_class(n.len()), e.len());
            let sig = f.sig(alg);
            assert!(ring_verify(alg, &pubkey, FIXTURE_MSG, &sig), "harness: fixture {} signature for alg {alg} does not verify with ring", f.name);
            // ---- the independent signer's signature under the library's key
            l.evals += 1;
            match guard(|| LibPublicKey::from_dnskey(&k.dnskey).map_err(|e| format!("{e:?}"))) {
                Err(p) => viol(format!("C12|key-size|rsa|from_dnskey|panic|{}", panic_class(&p)), format!("{} alg {alg}: {p}", f.name), rp("from_dnskey")),
                Ok(Err(err)) => viol(
                    format!("C12|key-size|rsa|from_dnskey|{size}|legal-key-refused"),
                    format!("{} as an alg {alg} DNSKEY ({} bit modulus, {} octet exponent): PublicKey::from_dnskey = Err({err}); RFC 3110 allows up to 4096 bits and the backend verifies from 1024 bits up", f.name, f.bits, e.len()),
                    rp("from_dnskey"),
                ),
                Ok(Ok(pk)) => {
                    env.stats.distinct(fnv(format!("keysize|{}|{alg}|verify", f.name).as_bytes()));
                    let other = f.sig(if alg == 8 { 10 } else { 8 });
                    let mut m2 = FIXTURE_MSG.to_vec();
                    m2.push(0);
                    let r = guard(|| (pk.verify(FIXTURE_MSG, &sig).is_ok(), pk.verify(FIXTURE_MSG, &other).is_ok(), pk.verify(&m2, &sig).is_ok(), pk.verify(FIXTURE_MSG, &sig[..sig.len() - 1]).is_ok()));
                    match r {
                        Ok((true, false, false, false)) => l.c("keysize:rsa:independent-signature-verifies,altered-rejected"),
                        Ok((false, ..)) => viol(
                            format!("C12|key-size|rsa|verify|{size}|valid-signature-of-independent-signer-rejected"),
                            format!("{} alg {alg}: PublicKey::verify rejects the PKCS#1 v1.5 signature made by openssl over the fixture message (ring, called directly, accepts it)", f.name),
                            rp("verify"),
                        ),
                        other_r => viol(
                            format!("C12|key-size|rsa|verify|{size}|altered-input-accepted"),
                            format!("{} alg {alg}: (good, other-hash signature, other message, truncated signature) verified = {other_r:?}", f.name),
                            rp("verify"),
                        ),
                    }
                }
            }
            // ---- size, tag, field split and re-encoding
            l.evals += 1;
            let got = guard(|| (k.dnskey.key_size().map_err(|e| format!("{e:?}")), k.dnskey.key_tag()));
            if got != Ok((Ok(f.bits), keytag_app_b(&k.rdata))) {
                viol(format!("C12|key-size|rsa|key_size-or-key_tag|{size}|differs"), format!("{} alg {alg}: (key_size, key_tag) = {got:?}, by hand ({}, {})", f.name, f.bits, keytag_app_b(&k.rdata)), rp("key_size"));
            } else {
                l.c("keysize:rsa:key_size,key_tag-agree");
            }
            for min in [0usize, 128, n.len(), n.len() + 1] {
                l.evals += 1;
                let got = guard(|| rsa_exponent_modulus(&k.dnskey, min).ok());
                let want = if n.len() >= min { Some((e.to_vec(), n.to_vec())) } else { None };
                if got.as_ref() != Ok(&want) {
                    viol(
                        format!("C12|key-size|rsa|rsa_exponent_modulus|{size}|min_len{}modulus|expected={}", if n.len() >= min { "<=" } else { ">" }, if want.is_some() { "split" } else { "refusal" }),
                        format!("{} alg {alg}: rsa_exponent_modulus(min_len {min}) = {:?}", f.name, got.map(|o| o.map(|(e, n)| (e.len(), n.len())))),
                        rp("rsa_exponent_modulus"),
                    );
                }
            }
            l.evals += 1;
            if guard(|| rsa_encode(e, n)) != Ok(pubkey.clone()) {
                viol(format!("C12|key-size|rsa|rsa_encode|{size}|differs-from-RFC3110"), format!("{} alg {alg}: rsa_encode(e, n) is not the public key field of the key file", f.name), rp("rsa_encode"));
            }
            // ---- a public key field one octet shorter / longer is another key
            for (vn, pk2) in [("modulus-minus-last-octet", pubkey[..pubkey.len() - 1].to_vec()), ("modulus-plus-one-octet", [&pubkey[..], &[1u8][..]].concat())] {
                l.evals += 1;
                let dk = Dnskey::new(256, 3, SecurityAlgorithm::from_int(alg), Bytes::from(pk2)).unwrap();
                match lib_verifies(&dk, FIXTURE_MSG, &sig) {
                    Ok(false) => l.c("keysize:rsa:resized-public-key-does-not-verify"),
                    other => viol(format!("C12|key-size|rsa|verify|{vn}|verifies-or-panics"), format!("{} alg {alg}: {other:?}", f.name), rp(vn)),
                }
            }
            // ---- the private side: text form, import, signing
            if matches!(alg, 8 | 10) {
                l.evals += 1;
                let parsed = guard(|| -> Result<(SecretKeyBytes, String), String> {
                    let s = SecretKeyBytes::parse_from_bind(&k.priv_text).map_err(|e| format!("parse: {e}"))?;
                    let t = s.display_as_bind().to_string();
                    Ok((s, t))
                });
                let secret = match parsed {
                    Ok(Ok((s, t))) if bind_fields(&t) == bind_fields(&k.priv_text) && s.algorithm().to_int() == alg => {
                        l.c("keysize:rsa:private-key-text-round-trip");
                        s
                    }
                    other => {
                        viol(format!("C12|key-size|rsa|private-key-text|{size}|not-read-or-changed"), format!("{} alg {alg}: {:?}", f.name, other.map(|r| r.map(|x| x.1))), rp("text"));
                        continue;
                    }
                };
                // the sizes every RSA signer handles (RFC 5702 2 / the ring
                // backend's documented "2048-bit keys or larger", F4 exponent)
                let standard = f.e == 65537 && matches!(f.bits, 2048 | 3072 | 4096);
                match guard(|| KeyPair::from_bytes(&secret, &k.dnskey).map_err(|e| format!("{e}"))) {
                    Err(p) => viol(format!("C12|key-size|rsa|from_bytes|panic|{}", panic_class(&p)), format!("{} alg {alg}: {p}", f.name), rp("from_bytes")),
                    Ok(Err(e)) if standard => viol(format!("C12|key-size|rsa|from_bytes|{size}|standard-size-key-refused"), format!("{} alg {alg}: KeyPair::from_bytes = Err({e})", f.name), rp("from_bytes")),
                    Ok(Err(_)) => l.c(&format!("keysize:rsa:{}:not-importable-for-signing(accepted: size/exponent outside what the backend signs with)", f.name)),
                    Ok(Ok(kp)) => {
                        let d = kp.dnskey();
                        if kp.algorithm().to_int() != alg || d.public_key() != &pubkey || d.algorithm().to_int() != alg || d.flags() != 256 || d.protocol() != 3 {
                            viol(format!("C12|key-size|rsa|from_bytes|{size}|dnskey-differs-from-key-file"), format!("{} alg {alg}: KeyPair::dnskey()", f.name), rp("from_bytes"));
                        }
                        for m in [&b""[..], FIXTURE_MSG] {
                            l.evals += 1;
                            let r = guard(|| kp.sign_raw(m).map(|s| s.as_ref().to_vec()).map_err(|e| format!("{e}")));
                            match r {
                                Ok(Ok(s)) if s.len() == n.len() && ring_verify(alg, &pubkey, m, &s) => {
                                    // PKCS#1 v1.5 is deterministic: the two signers agree
                                    if m == FIXTURE_MSG && s != sig {
                                        viol(format!("C12|key-size|rsa|sign_raw|{size}|differs-from-independent-signer"), format!("{} alg {alg}: sign_raw and openssl disagree on a deterministic signature", f.name), rp("sign_raw"));
                                    }
                                    match lib_verifies(&k.dnskey, m, &s) {
                                        Ok(true) => l.c("keysize:rsa:sign_raw-verifies(ring,library)"),
                                        other => viol(
                                            format!("C12|key-size|rsa|verify|{size}|own-signature-rejected"),
                                            format!("{} alg {alg}: sign_raw output verifies with ring directly but PublicKey::from_dnskey + verify says {other:?}", f.name),
                                            rp("sign_raw"),
                                        ),
                                    }
                                }
                                other => viol(format!("C12|key-size|rsa|sign_raw|{size}|no-valid-signature"), format!("{} alg {alg}: {:?}", f.name, other.map(|r| r.map(|s| s.len()))), rp("sign_raw")),
                            }
                        }
                        env.stats.distinct(fnv(format!("keysize|{}|{alg}|sign", f.name).as_bytes()));
                        sign_small_menu(env, "keysize", kp, &k, &format!("fixture:{}", f.name), l);
                    }
                }
                // a secret key pairs with its own public key only
                for g in &fixtures {
                    if g.name == f.name {
                        continue;
                    }
                    l.evals += 1;
                    let other = g.keymat(alg);
                    match guard(|| KeyPair::from_bytes(&secret, &other.dnskey).is_ok()) {
                        Ok(false) => l.c("keysize:rsa:foreign-public-key-refused"),
                        r => viol("C12|key-size|rsa|from_bytes|foreign-public-key".into(), format!("secret {} with public {}: accepted = {r:?}", f.name, g.name), rp("from_bytes")),
                    }
                }
            }
            fixture_keys.push(k);
        }
    }
    ds_checks(env, "keysize", &fixture_keys, l);
    // ------------------------------------------------------------------
    // (b) the RFC 3110 public key field: exponent length x modulus length x
    //     leading octets x length form, without private keys
    // ------------------------------------------------------------------
    let mut elens: Vec<usize> = vec![1, 3, 4, 255, 256, 512, 513];
    let mut nlens: Vec<usize> = vec![0, 1, 63, 64, 127, 128, 129, 255, 256, 257, 384, 511, 512, 513, 1024];
    if !quick {
        elens.extend([2, 5, 8, 128, 254, 257, 511, 514, 1024]);
        nlens.extend([2, 65, 126, 130, 254, 383, 385, 510, 514, 640, 2048]);
    }
    // (name, first octet of the exponent, first octet of the modulus)
    let leads: [(&str, u8, u8); 5] = [("both-full", 0x01, 0x80), ("modulus-low-top-octet", 0x01, 0x01), ("exponent-high-top-octet", 0xFF, 0xFF), ("exponent-leading-zero", 0x00, 0x80), ("modulus-leading-zero", 0x01, 0x00)];
    for &elen in &elens {
        for &nlen in &nlens {
            for (ln, e0, n0) in leads {
                for long_form in [false, true] {
                    if !long_form && elen > 255 {
                        continue;
                    }
                    // the three-octet form for a length that fits one octet
                    // is not the RFC 3110 encoding; accepting it is harmless
                    let canonical = long_form == (elen > 255);
                    // a one-octet exponent is 3 (1 is no RSA exponent), not 1
                    let e = synth_int(elen, if elen == 1 && e0 == 1 { 3 } else { e0 }, 3);
                    let n = synth_int(nlen, n0, 11);
                    let bits = if nlen > 0 { nlen * 8 - n[0].leading_zeros() as usize } else { 0 };
                    let pubkey = rfc3110_encode(&e, &n, long_form);
                    let zero_lead = e[0] == 0 || n.first() == Some(&0);
                    // RFC 3110 2: each limited to 4096 bits, leading zero octets prohibited
                    let legal = (1..=512).contains(&elen) && (1..=512).contains(&nlen) && !zero_lead;
                    let cause = format!("{},{}{}", exponent_class(elen, long_form), modulus_class(nlen), if zero_lead { ",leading-zero-octet" } else { "" });
                    let rp = json!({"part": "keysize", "what": "rsa-public-key-field", "exponent_octets": elen, "modulus_octets": nlen, "leading_octets": ln, "three_octet_length_form": long_form, "public_key": hex(&pubkey[..pubkey.len().min(24)])});
                    let dk8 = Dnskey::new(256, 3, SecurityAlgorithm::RSASHA256, Bytes::from(pubkey.clone())).unwrap();
                    env.stats.distinct(fnv(format!("keysize|field|{elen}|{nlen}|{ln}|{long_form}").as_bytes()));
                    // ---- the field splitter
                    for min in [0usize, 128, 256, 513] {
                        l.evals += 1;
                        let got = guard(|| rsa_exponent_modulus(&dk8, min).ok());
                        let split = Some((e.clone(), n.clone()));
                        let ok = match &got {
                            Err(_) => false,
                            Ok(g) if !legal => g.is_none(),
                            Ok(g) if nlen < min => g.is_none(),
                            Ok(g) if canonical => *g == split,
                            Ok(g) => g.is_none() || *g == split,
                        };
                        if ok {
                            l.c(if matches!(got, Ok(Some(_))) { "keysize:field:split-agrees" } else { "keysize:field:refused-as-expected" });
                        } else {
                            let want = if !legal {
                                "refusal(RFC3110-limit-or-leading-zero)"
                            } else if nlen < min {
                                "refusal(below-min_len)"
                            } else {
                                "split"
                            };
                            viol(
                                format!("C12|key-size|rsa|rsa_exponent_modulus|{cause}|expected={want}"),
                                format!("rsa_exponent_modulus(min_len {min}) over a public key field with a {elen}-octet exponent and a {nlen}-octet modulus ({ln}) = {:?}", got.map(|o| o.map(|(e, n)| (hex(&e[..e.len().min(4)]), e.len(), n.len())))),
                                rp.clone(),
                            );
                        }
                    }
                    // ---- the verifier's key import, under all four RSA algorithms
                    for alg in [5u8, 7, 8, 10] {
                        l.evals += 1;
                        let dk = Dnskey::new(256, 3, SecurityAlgorithm::from_int(alg), Bytes::from(pubkey.clone())).unwrap();
                        let r = guard(|| match LibPublicKey::from_dnskey(&dk) {
                            Ok(pk) => Some(pk.verify(FIXTURE_MSG, &vec![0x5A; nlen.max(1)]).is_ok()),
                            Err(_) => None,
                        });
                        match r {
                            Err(p) => viol(format!("C12|key-size|rsa|from_dnskey|panic|{}", panic_class(&p)), format!("alg {alg}, {cause}: {p}"), rp.clone()),
                            Ok(Some(true)) => viol(format!("C12|key-size|rsa|verify|{cause}|garbage-signature-verifies"), format!("alg {alg}"), rp.clone()),
                            Ok(Some(false)) if !legal => viol(
                                format!("C12|key-size|rsa|from_dnskey|{cause}|illegal-key-accepted"),
                                format!("alg {alg}: PublicKey::from_dnskey accepts a public key field RFC 3110 prohibits ({elen}-octet exponent, {nlen}-octet modulus, {ln})"),
                                rp.clone(),
                            ),
                            Ok(None) if legal && canonical && bits >= 1024 && elen <= 4 => viol(
                                format!("C12|key-size|rsa|from_dnskey|{cause}|legal-key-refused"),
                                format!("alg {alg}: PublicKey::from_dnskey refuses a legal key ({elen}-octet exponent, {nlen}-octet modulus, {ln})"),
                                rp.clone(),
                            ),
                            Ok(Some(false)) => l.c("keysize:field:from_dnskey-accepts(garbage signature rejected)"),
                            Ok(None) if !legal => l.c("keysize:field:from_dnskey-refuses-illegal"),
                            Ok(None) => l.c("keysize:field:from_dnskey-refuses(not judged: below 1024 bit, exponent above 4 octets or long form)"),
                        }
                    }
                    if legal {
                        // ---- size of a legal key; the encoder and its round trip
                        l.evals += 1;
                        let want_bits = bits;
                        let got = guard(|| dk8.key_size().ok());
                        if canonical && got != Ok(Some(want_bits)) {
                            viol(format!("C12|key-size|rsa|key_size|{cause}|differs"), format!("key_size() = {got:?}, by hand {want_bits}"), rp.clone());
                        }
                        if canonical {
                            let padded_e = [&[0u8, 0][..], &e[..]].concat();
                            let padded_n = [&[0u8][..], &n[..]].concat();
                            let got = guard(|| (rsa_encode(&e, &n), rsa_encode(&padded_e, &padded_n)));
                            if got != Ok((pubkey.clone(), pubkey.clone())) {
                                viol(
                                    format!("C12|key-size|rsa|rsa_encode|{cause}|differs-from-RFC3110"),
                                    format!("rsa_encode of a {elen}-octet exponent and a {nlen}-octet modulus (plain / with leading zero octets to strip) is not the RFC 3110 field: lengths {:?}, expected {}", got.map(|(a, b)| (a.len(), b.len())), pubkey.len()),
                                    rp.clone(),
                                );
                            } else {
                                l.c("keysize:field:rsa_encode-agrees");
                            }
                        }
                    }
                }
            }
        }
    }
    // fields that end before the exponent does, and degenerate fields
    let mut short: Vec<(&str, Vec<u8>)> = vec![
        ("empty", vec![]),
        ("length-octet-only", vec![3]),
        ("zero-only", vec![0]),
        ("long-form-cut-in-length", vec![0, 1]),
        ("long-form-length-only", vec![0, 1, 0]),
        ("long-form-zero-length", [&[0u8, 0, 0][..], &synth_int(256, 0x80, 1)[..]].concat()),
        ("one-octet-form-zero-length-by-long-form", [&[0u8, 0, 0][..], &synth_int(128, 0x80, 1)[..]].concat()),
        ("exponent-cut", vec![3, 1, 0]),
        ("exponent-exactly-fills-field", vec![3, 1, 0, 1]),
        ("long-exponent-cut", [&[0u8, 1, 0][..], &synth_int(255, 0x01, 3)[..]].concat()),
        ("exponent-255-cut", [&[255u8][..], &synth_int(254, 0x01, 3)[..]].concat()),
    ];
    short.push(("long-exponent-exactly-fills-field", [&[0u8, 1, 0][..], &synth_int(256, 0x01, 3)[..]].concat()));
    for (vn, pubkey) in &short {
        for alg in [5u8, 7, 8, 10] {
            l.evals += 1;
            let dk = Dnskey::new(256, 3, SecurityAlgorithm::from_int(alg), Bytes::from(pubkey.clone())).unwrap();
            let r = guard(|| (rsa_exponent_modulus(&dk, 0).is_ok(), LibPublicKey::from_dnskey(&dk).is_ok()));
            env.stats.distinct(fnv(format!("keysize|short|{vn}|{alg}").as_bytes()));
            match r {
                Ok((false, false)) => l.c("keysize:field:incomplete-field-refused"),
                Ok(other) => viol(format!("C12|key-size|rsa|public-key-field|incomplete({vn})|accepted"), format!("alg {alg}: (rsa_exponent_modulus ok, from_dnskey ok) = {other:?}"), json!({"part": "keysize", "what": vn, "alg": alg})),
                Err(p) => viol(format!("C12|key-size|rsa|public-key-field|panic|{}", panic_class(&p)), format!("alg {alg}, {vn}: {p}"), json!({"part": "keysize", "what": vn, "alg": alg})),
            }
        }
    }
    // ------------------------------------------------------------------
    // (c) fixed-length public keys (ECDSA, EdDSA): exact length only
    // ------------------------------------------------------------------
    let ec: Vec<&KeyMat> = form_keys.iter().filter(|k| matches!(k.alg, 13 | 14 | 15)).collect();
    for k in &ec {
        let msg: &[u8] = b"C12 public key length probe";
        let made = guard(|| -> Result<(SecretKeyBytes, Vec<u8>), String> {
            let s = SecretKeyBytes::parse_from_bind(&k.priv_text).map_err(|e| format!("{e}"))?;
            let kp = KeyPair::from_bytes(&s, &k.dnskey).map_err(|e| format!("{e}"))?;
            let sig = kp.sign_raw(msg).map_err(|e| format!("{e}"))?.as_ref().to_vec();
            Ok((s, sig))
        });
        let (secret, sig) = match made {
            Ok(Ok(x)) if ring_verify(k.alg, &k.pubkey, msg, &x.1) => x,
            other => {
                viol("C12|key-size|fixed-length|sign_raw|no-valid-signature".into(), format!("alg {}: {:?}", k.alg, other.map(|r| r.map(|x| x.1.len()))), json!({"part": "keysize", "alg": k.alg}));
                continue;
            }
        };
        let want_len = match k.alg {
            13 => 64, // RFC 6605 4
            14 => 96,
            _ => 32, // RFC 8080 3
        };
        assert_eq!(k.pubkey.len(), want_len, "harness: key file length");
        let p = &k.pubkey;
        let variants: Vec<(&str, Vec<u8>)> = vec![
            ("exact", p.clone()),
            ("minus-last-octet", p[..p.len() - 1].to_vec()),
            ("minus-first-octet", p[1..].to_vec()),
            ("plus-zero-octet", [&p[..], &[0u8][..]].concat()),
            ("plus-one-octet-in-front", [&[0u8][..], &p[..]].concat()),
            ("sec1-uncompressed-prefix", [&[4u8][..], &p[..]].concat()),
            ("first-half", p[..p.len() / 2].to_vec()),
            ("doubled", [&p[..], &p[..]].concat()),
            ("empty", vec![]),
        ];
        for (vn, pk2) in &variants {
            for alg in [13u8, 14, 15, 16] {
                l.evals += 1;
                let exact = *vn == "exact" && alg == k.alg;
                let dk = Dnskey::new(k.flags, 3, SecurityAlgorithm::from_int(alg), Bytes::from(pk2.clone())).unwrap();
                let rp = json!({"part": "keysize", "what": "fixed-length-public-key", "key_alg": k.alg, "as_alg": alg, "variant": vn});
                env.stats.distinct(fnv(format!("keysize|ec|{}|{alg}|{vn}", k.alg).as_bytes()));
                let cause = format!("key-of-alg-{}|{}|{}", k.alg, if alg == k.alg { "own-algorithm" } else { "other-algorithm-number" }, vn);
                match lib_verifies(&dk, msg, &sig) {
                    Ok(v) if v == exact => l.c(if v { "keysize:fixed-length:exact-key-verifies" } else { "keysize:fixed-length:resized-or-relabelled-key-does-not-verify" }),
                    Ok(v) => viol(format!("C12|key-size|fixed-length|verify|{cause}|expected={exact}|got={v}"), format!("a {}-octet public key as alg {alg}: signature of the alg {} key verifies = {v}", pk2.len(), k.alg), rp.clone()),
                    Err(pn) => viol(format!("C12|key-size|fixed-length|verify|panic|{}", panic_class(&pn)), format!("{cause}: {pn}"), rp.clone()),
                }
                match guard(|| KeyPair::from_bytes(&secret, &dk).is_ok()) {
                    // a DNSKEY with another algorithm number than the secret
                    // key: a refusal is what the RSA and Ed25519 branches do; the
                    // ECDSA branch accepts such a DNSKEY when the octets still
                    // contain the point (the pair then reports its own algorithm
                    // and key). Counted by outcome unless JUDGE_RELABELLED_DNSKEY.
                    Ok(v) if alg != k.alg && !JUDGE_RELABELLED_DNSKEY => l.c(&format!("keysize:fixed-length:dnskey-with-other-algorithm-number:from_bytes-ok={v}(not judged)")),
                    Ok(v) if v == exact => l.c(if v { "keysize:fixed-length:own-key-imports" } else { "keysize:fixed-length:resized-public-key-refused-by-from_bytes" }),
                    Ok(v) => viol(format!("C12|key-size|fixed-length|from_bytes|{cause}|expected={exact}|got={v}"), format!("KeyPair::from_bytes with a {}-octet public key as alg {alg} accepted = {v}", pk2.len()), rp.clone()),
                    Err(pn) => viol(format!("C12|key-size|fixed-length|from_bytes|panic|{}", panic_class(&pn)), format!("{cause}: {pn}"), rp.clone()),
                }
            }
        }
        // a signature one octet short / long is not a signature
        for (vn, s2) in [("minus-last-octet", sig[..sig.len() - 1].to_vec()), ("plus-zero-octet", [&sig[..], &[0u8][..]].concat()), ("empty", vec![])] {
            l.evals += 1;
            match lib_verifies(&k.dnskey, msg, &s2) {
                Ok(false) => l.c("keysize:fixed-length:resized-signature-does-not-verify"),
                other => viol(format!("C12|key-size|fixed-length|verify|signature-{vn}|verifies-or-panics"), format!("alg {}: {other:?}", k.alg), json!({"part": "keysize", "alg": k.alg, "what": vn})),
            }
        }
    }
    // what the backend says about the key it cannot use (Ed448): counted
    for k in all_keys.iter().filter(|k| k.alg == 16) {
        l.evals += 1;
        let r = guard(|| LibPublicKey::from_dnskey(&k.dnskey).is_ok());
        l.c(&format!("keysize:ed448:from_dnskey-ok={r:?}(not judged)"));
    }
}

// ===================================================================
// key tag and DS digest
// ===================================================================

fn keytag_checks(env: &Env, all_keys: &[KeyMat], quick: bool, l: &mut Local) {
    // the fixed keys: file name tag, library tag, App. B tag
    for k in all_keys {
        l.evals += 1;
        let want = keytag_app_b(&k.rdata);
        let got = guard(|| k.dnskey.key_tag());
        if want != k.tag_file {
            panic!("harness: App. B key tag {want} != tag in file name {}", k.tag_file);
        }
        if got.as_ref().ok() != Some(&want) {
            env.ctx.violation("C12|key_tag|fixed-key|differs-from-RFC4034-AppB", &format!("alg {} key: key_tag() = {got:?}, App. B = {want}", k.alg), json!({"part": "keytag", "alg": k.alg}));
        }
        for sk in &k.signers {
            let got = guard(|| (sk.dnskey().key_tag(), sk.dnskey().public_key().to_vec(), sk.dnskey().flags(), sk.algorithm().to_int()));
            if got != Ok((want, k.pubkey.clone(), k.flags, k.alg)) {
                env.ctx.violation("C12|signing-key|dnskey|differs-from-key-file", &format!("alg {}: SigningKey::dnskey() does not reproduce the key file", k.alg), json!({"part": "keytag", "alg": k.alg}));
            }
        }
        l.c("keytag:fixed-keys");
    }
    // synthetic DNSKEY RDATA: every key over an octet alphabet to a length
    let alpha: &[u8] = if quick { &[0x00, 0x01, 0xFF] } else { &[0x00, 0x01, 0x7F, 0x80, 0xFF] };
    let maxlen = if quick { 4 } else { 5 };
    let mut keys: Vec<Vec<u8>> = Vec::new();
    for n in 0..=maxlen {
        let mut buf = Vec::new();
        for i in 0..pow(alpha.len(), n) {
            nth_string(alpha, n, i, &mut buf);
            keys.push(buf.clone());
        }
    }
    for n in [255usize, 256, 257, 1024, 4097, 65531] {
        keys.push(vec![0xFF; n]);
        keys.push((0..n).map(|i| if i % 2 == 0 { 0xFF } else { 0x00 }).collect());
    }
    for key in &keys {
        for flags in [0u16, 256, 257, 0xFFFF] {
            for proto in [3u8, 255] {
                for alg in [1u8, 5, 8, 13, 15, 255] {
                    l.evals += 1;
                    let mut rd = flags.to_be_bytes().to_vec();
                    rd.push(proto);
                    rd.push(alg);
                    rd.extend_from_slice(key);
                    let want = if alg == 1 {
                        // App. B.1: most significant 16 of the least significant 24 bits of the modulus
                        if key.len() < 3 {
                            l.c("keytag:alg1-short(undefined)");
                            continue;
                        }
                        u16::from_be_bytes([key[key.len() - 3], key[key.len() - 2]])
                    } else {
                        keytag_app_b(&rd)
                    };
                    let got = guard(|| Dnskey::new(flags, proto, SecurityAlgorithm::from_int(alg), key.clone()).unwrap().key_tag());
                    env.stats.distinct(fnv(&rd));
                    match got {
                        Ok(g) if g == want => l.c("keytag:synthetic-agree"),
                        Ok(g) => {
                            env.ctx.violation(
                                &format!("C12|key_tag|synthetic|alg1={}|differs-from-RFC4034-AppB", alg == 1),
                                &format!("key_tag() of DNSKEY RDATA {} = {g}, App. B = {want}", hex(&rd[..rd.len().min(40)])),
                                json!({"part": "keytag", "rdata": hex(&rd)}),
                            );
                        }
                        Err(p) => {
                            env.ctx.violation(&format!("C12|key_tag|panic|{}", panic_class(&p)), &format!("key_tag() panicked: {p}"), json!({"part": "keytag", "rdata": hex(&rd)}));
                        }
                    }
                }
            }
        }
    }
}

fn ds_checks(env: &Env, part: &str, all_keys: &[KeyMat], l: &mut Local) {
    use ring::digest as rd;
    let owners = ["test", "TEST", "tEsT", "z", "a.Z", "*.Sub.Test", "."];
    for k in all_keys {
        for o in owners {
            let ol = labels(o);
            for (code, da, ra) in [
                (1u8, DigestAlgorithm::SHA1, Some(&rd::SHA1_FOR_LEGACY_USE_ONLY)),
                (2, DigestAlgorithm::SHA256, Some(&rd::SHA256)),
                (4, DigestAlgorithm::SHA384, Some(&rd::SHA384)),
                (3, DigestAlgorithm::GOST, None),
            ] {
                l.evals += 1;
                let got = guard(|| k.dnskey.digest(&lname(&ol), da).map(|d| d.as_ref().to_vec()).map_err(|e| format!("{e:?}")));
                let replay = json!({"part": part, "what": "ds", "alg": k.alg, "key_octets": k.pubkey.len(), "owner": o, "digest_type": code});
                match (got, ra) {
                    (Err(p), _) => {
                        env.ctx.violation(&format!("C12|ds-digest|panic|{}", panic_class(&p)), &format!("digest() panicked: {p}"), replay);
                    }
                    (Ok(Err(_)), None) => l.c("ds:unsupported-digest-type-refused"),
                    (Ok(Ok(_)), None) => l.c("ds:gost-computed(not checked)"),
                    (Ok(Err(e)), Some(_)) => {
                        env.ctx.violation(&format!("C12|ds-digest|type={code}|error"), &format!("digest() = Err({e}) for digest type {code}"), replay);
                    }
                    (Ok(Ok(d)), Some(ra)) => {
                        let mut input = name_wire(&lower_labels(&ol));
                        input.extend_from_slice(&k.rdata);
                        let want = rd::digest(ra, &input).as_ref().to_vec();
                        env.stats.distinct(fnv(format!("ds|{}|{}|{o}|{code}", k.alg, k.tag_file).as_bytes()));
                        // the DS RDATA built from it (RFC 4034 5.1)
                        let tag = keytag_app_b(&k.rdata);
                        let mut hand = tag.to_be_bytes().to_vec();
                        hand.extend_from_slice(&[k.alg, code]);
                        hand.extend_from_slice(&want);
                        let lib_ds = guard(|| {
                            let ds = domain::rdata::Ds::new(k.dnskey.key_tag(), k.dnskey.algorithm(), da, d.clone()).map_err(|e| format!("{e}"))?;
                            let mut v = Vec::new();
                            ds.compose_rdata(&mut v).expect("vec");
                            Ok::<_, String>((v, ds.key_tag(), ds.algorithm().to_int(), ds.digest_type().to_int(), ds.digest().clone()))
                        });
                        if lib_ds != Ok(Ok((hand.clone(), tag, k.alg, code, want.clone()))) && d == want {
                            env.ctx.violation(&format!("C12|ds-rdata|type={code}|differs"), &format!("Ds::new(..) for the alg {} key composes to something else than {}", k.alg, hex(&hand)), replay.clone());
                        }
                        if d != want {
                            env.ctx.violation(
                                &format!("C12|ds-digest|type={code}|differs-from-RFC4034-5.1.4"),
                                &format!("digest({o}, type {code}) for the alg {} key = {}, independent = {}", k.alg, hex(&d), hex(&want)),
                                replay,
                            );
                        } else {
                            l.c("ds:agree");
                        }
                        // the .ds file shipped next to the key
                        if let (Some(t), true) = (&k.ds_text, o == "test") {
                            let tok: Vec<&str> = t.split_whitespace().collect();
                            if let Some(di) = tok.iter().position(|x| *x == "DS") {
                                if tok[di + 3].parse::<u8>().ok() == Some(code) {
                                    let file = unhex(&tok[di + 4..].concat().to_lowercase());
                                    let tag: u16 = tok[di + 1].parse().unwrap();
                                    if file != want || tag != keytag_app_b(&k.rdata) || lower_labels(&k.owner_file) != labels("test") {
                                        panic!("harness: .ds file of alg {} disagrees with the independent digest", k.alg);
                                    }
                                    l.c("ds:matches-.ds-file");
                                }
                            }
                        }
                    }
                }
            }
        }
    }
}

// ===================================================================
// enumeration
// ===================================================================

fn seqs(k: usize, maxlen: usize) -> Vec<Vec<usize>> {
    let alpha: Vec<usize> = (0..k).collect();
    let mut out = Vec::new();
    let mut buf = Vec::new();
    for n in 1..=maxlen {
        for i in 0..pow(k, n) {
            nth_string(&alpha, n, i, &mut buf);
            out.push(buf.clone());
        }
    }
    out
}

fn build_env(ctx: Arc<Ctx>, quick: bool) -> (Env, Vec<KeyMat>, Vec<KeyMat>) {
    let sign_algs: &[(u8, u16)] = if quick { &[(13, 42253), (15, 56037)] } else { &[(8, 60616), (10, 46731), (13, 42253), (14, 33566), (15, 56037)] };
    let keys: Vec<KeyMat> = sign_algs.iter().map(|&(a, t)| load_key(a, t, true)).collect();
    // keys the ring backend cannot sign with still have a tag and a DS
    let mut all_keys: Vec<KeyMat> = sign_algs.iter().map(|&(a, t)| load_key(a, t, true)).collect();
    for (a, t) in [(5u8, 439u16), (7, 22204), (16, 7379)] {
        all_keys.push(load_key(a, t, false));
    }
    if quick {
        for (a, t) in [(8u8, 60616u16), (10, 46731), (14, 33566)] {
            all_keys.push(load_key(a, t, false));
        }
    }
    // every algorithm the backend can sign with, in both tiers, for the key
    // representation checks
    let form_keys: Vec<KeyMat> = [(8u8, 60616u16), (10, 46731), (13, 42253), (14, 33566), (15, 56037)].iter().map(|&(a, t)| load_key(a, t, false)).collect();
    let env = Env { ctx, stats: Stats::new(), types: type_menu(quick), keys, times: time_menu(quick), verbose: false, quick };
    (env, all_keys, form_keys)
}

fn run_all(env: &Env, cases: &[Case], f: impl Fn(&Env, &Case, &mut Local) + Sync) -> Local {
    cases
        .par_iter()
        .with_max_len(8)
        .fold(Local::default, |mut l, c| {
            f(env, c, &mut l);
            l
        })
        .reduce(Local::default, Local::merge)
}

fn sign_and_transform(env: &Env, c: &Case, l: &mut Local) {
    if let Some(s) = sign_case(env, c, l) {
        env.stats.sample(3, || {
            json!({"case": c.json(env), "rrsig": s.sig.json(), "signed_octets_reference": hex(&s.refs[0]),
                   "transforms_checked": transforms(&s).iter().map(|t| t.0.clone()).collect::<Vec<_>>()})
        });
        if env.verbose {
            println!("signed: {}", s.sig.json());
            println!("reference signed octets: {}", hex(&s.refs[0]));
        }
        check_transforms(env, &env.types[c.ti], &env.keys[c.ki], &c.json(env), &s, 2, l);
    }
}

fn main() {
    let ctx = Ctx::new("C12", "fault_enumeration");
    // ---------------- replay
    if let Some(path) = ctx.replay.clone() {
        let text = std::fs::read_to_string(&path).expect("replay file");
        let v: Value = serde_json::from_str(&text).expect("replay json");
        let case = &v["case"];
        let node = if matches!(case["part"].as_str(), Some("transform") | Some("fault")) { case["case"].clone() } else { case.clone() };
        let is_multi = node["part"] == "multi";
        let is_fh = node["part"] == "faulthist";
        let inner = if is_multi || is_fh { node["case"].clone() } else { node.clone() };
        let tier_quick = inner["tier"].as_str().map(|t| t == "quick").unwrap_or(ctx.quick());
        let (mut env, all_keys, form_keys) = build_env(ctx.clone(), tier_quick);
        env.verbose = true;
        let mut l = Local::default();
        match if node["part"] == "keyform" {
            "keyform"
        } else if node["part"] == "keysize" {
            "keysize"
        } else {
            case["part"].as_str().unwrap_or("")
        } {
            "keyform" => key_form_checks(&env, &form_keys, &all_keys, &mut l),
            "keytag" => keytag_checks(&env, &all_keys, tier_quick, &mut l),
            "ds" => ds_checks(&env, "ds", &all_keys, &mut l),
            "keysize" => key_size_checks(&env, &form_keys, &all_keys, &mut l),
            part => {
                let mut c = Case::from_json(&inner);
                c.ti = env.types.iter().position(|t| Some(t.mn) == inner["type"].as_str()).expect("type in this tier's menu");
                c.ki = env.keys.iter().position(|k| Some(k.alg as u64) == inner["alg"].as_u64()).expect("algorithm in this tier's menu");
                println!("replaying {part}: {}", c.json(&env));
                for r in c.rrs(&env) {
                    println!("  rr: {}", r.json());
                }
                if is_multi {
                    let m = Multi {
                        base: c.clone(),
                        mode: node["mode"].as_u64().unwrap_or(4) as u8,
                        zone: node["zone"].as_u64().unwrap_or(0) as u8,
                        refs: node["refs"].as_bool().unwrap_or(false),
                        steps: node["steps"]
                            .as_array()
                            .unwrap()
                            .iter()
                            .map(|s| (env.keys.iter().position(|k| Some(k.alg as u64) == s[0].as_u64()).expect("algorithm in this tier's menu"), s[1].as_bool().unwrap_or(false)))
                            .collect(),
                    };
                    println!("multi-step history: {}", m.json(&env));
                    multi_case(&env, &m, &mut l);
                } else if is_fh {
                    let h = FHist::from_json(&env, c.clone(), &node);
                    println!("history with injected sign_raw failures / dirty scratch: {}", h.json(&env));
                    fault_hist_case(&env, &h, &mut l);
                } else if part == "fault" {
                    fault_case(&env, &c, &mut l);
                } else {
                    sign_and_transform(&env, &c, &mut l);
                }
            }
        }
        println!("counters: {}", json!(l.counts));
        ctx.finish(
            json!({"evaluations": l.evals.max(1), "distinct_nontrivial": env.stats.distinct_count(), "rule": "replay of one case", "samples": [v["case"].clone()], "exhaustive": false}),
            &["replay"],
        );
    }
    // ---------------- full run
    let quick = ctx.quick();
    let (env, all_keys, form_keys) = build_env(ctx.clone(), quick);
    let k = env.types[0].values.len();
    let all_seqs = seqs(k, 3);
    let nkeys = env.keys.len();
    // P1: the records product
    let mut p1: Vec<Case> = Vec::new();
    for ti in 0..env.types.len() {
        for seq in &all_seqs {
            for oi in 0..OWNERS.len() {
                let ocs: Vec<usize> = if seq.len() == 1 {
                    vec![0, 1]
                } else if quick {
                    vec![0, 2]
                } else {
                    vec![0, 1, 2]
                };
                for oc in ocs {
                    for ki in 0..nkeys {
                        // sequences of three records: with the two fast
                        // algorithms only (record handling does not depend on
                        // the algorithm; 8, 10, 14 get all shorter sequences)
                        if seq.len() == 3 && !matches!(env.keys[ki].alg, 13 | 15) {
                            continue;
                        }
                        for entry in [1u8, 2, 3] {
                            if entry == 3 && ki != nkeys - 1 {
                                continue;
                            }
                            p1.push(Case { ti, seq: seq.clone(), oi, oc, ttl: 3600, tm: 0, si: 0, class: 1, ki, entry, mixed: false });
                        }
                    }
                }
            }
        }
    }
    // P2: the envelope product
    let reps: Vec<Vec<usize>> = vec![vec![0], vec![2, 0], vec![1, 2, 0]];
    let classes: Vec<u16> = if quick { vec![1] } else { vec![1, 3] };
    let mut p2: Vec<Case> = Vec::new();
    for ti in 0..env.types.len() {
        for seq in &reps {
            for oi in 0..OWNERS.len() {
                for ttl in [0u32, 3600] {
                    for tm in 0..env.times.len() {
                        for si in 0..SIGNER_NAMES.len() {
                            for &class in &classes {
                                for ki in 0..nkeys {
                                    for entry in [1u8, 2] {
                                        let c = Case { ti, seq: seq.clone(), oi, oc: 0, ttl, tm, si, class, ki, entry, mixed: false };
                                        // already part of P1
                                        if (ttl == 3600 && tm == 0 && si == 0 && class == 1) || (class != 1 && tm != 0) {
                                            continue;
                                        }
                                        p2.push(c);
                                    }
                                }
                            }
                        }
                    }
                }
            }
        }
    }
    // P3: fault enumeration bases (duplicate-free sequences)
    let mut freps: Vec<Vec<usize>> = vec![vec![0], vec![2, 0]];
    if !quick {
        freps.push(vec![3, 0, 2]);
    }
    let mut p3: Vec<Case> = Vec::new();
    for ti in 0..env.types.len() {
        if env.types[ti].rtype == 46 {
            continue;
        }
        for seq in &freps {
            for oi in 0..OWNERS.len() {
                for ki in 0..nkeys {
                    p3.push(Case { ti, seq: seq.clone(), oi, oc: 0, ttl: 3600, tm: 0, si: 0, class: 1, ki, entry: 2, mixed: false });
                }
            }
        }
    }
    // P4: mixed-case names in RDATA: every ordered pair of the mixed-case
    // values of every name-bearing type, as a two-record RRset at the apex
    let fast: Vec<usize> = (0..nkeys).filter(|&ki| matches!(env.keys[ki].alg, 13 | 15)).collect();
    let mut p4: Vec<Case> = Vec::new();
    for ti in 0..env.types.len() {
        let n = env.types[ti].mixed.len();
        if env.types[ti].rtype == 46 {
            continue;
        }
        for a in 0..n {
            for b in 0..n {
                for &ki in &fast {
                    if quick && env.keys[ki].alg != 15 {
                        continue;
                    }
                    for entry in [1u8, 2] {
                        p4.push(Case { ti, seq: vec![a, b], oi: 0, oc: 0, ttl: 3600, tm: 0, si: 0, class: 1, ki, entry, mixed: true });
                    }
                }
            }
        }
    }
    // P5: multi-step signing histories
    //  mode 4: every sequence of sign_sorted_rrset_in calls (key x which of
    //          two RRsets) to length 3 sharing one scratch Vec;
    //  mode 5: sign_sorted_zone_records with every key list to length 3
    //          (repetition allowed), zone of one or two RRsets
    let mut sym4: Vec<(usize, bool)> = Vec::new();
    for ki in 0..nkeys {
        for o in [false, true] {
            sym4.push((ki, o));
        }
    }
    let hist = |alpha: &[(usize, bool)], lens: std::ops::RangeInclusive<usize>| -> Vec<Vec<(usize, bool)>> {
        let mut out = Vec::new();
        let mut buf = Vec::new();
        for n in lens {
            for i in 0..pow(alpha.len(), n) {
                nth_string(alpha, n, i, &mut buf);
                out.push(buf.clone());
            }
        }
        out
    };
    let sym4_fast: Vec<(usize, bool)> = sym4.iter().cloned().filter(|s| fast.contains(&s.0)).collect();
    let sym5: Vec<(usize, bool)> = (0..nkeys).map(|k| (k, false)).collect();
    let sym5_fast: Vec<(usize, bool)> = fast.iter().map(|&k| (k, false)).collect();
    // slow algorithms (RSA, P-384) take part in histories to length 2
    let (h4, h5) = if quick {
        (hist(&sym4, 1..=3), hist(&sym5, 1..=3))
    } else {
        let mut a = hist(&sym4, 1..=2);
        a.extend(hist(&sym4_fast, 3..=3));
        let mut b = hist(&sym5, 1..=2);
        b.extend(hist(&sym5_fast, 3..=3));
        (a, b)
    };
    let mut p5: Vec<Multi> = Vec::new();
    for ti in 0..env.types.len() {
        if env.types[ti].rtype == 46 {
            continue;
        }
        let base = |oi: usize| Case { ti, seq: vec![2, 0], oi, oc: 0, ttl: 3600, tm: 0, si: 0, class: 1, ki: 0, entry: 0, mixed: false };
        for oi in [0usize, 3] {
            for h in &h4 {
                p5.push(Multi { base: base(oi), mode: 4, steps: h.clone(), zone: 0, refs: false });
            }
        }
        for oi in 0..OWNERS.len() {
            for h in &h5 {
                // the slice-of-references input route with the two-RRset zone
                for (zone, refs) in [(0u8, false), (1, false), (2, false), (1, true)] {
                    p5.push(Multi { base: base(oi), mode: 5, steps: h.clone(), zone, refs });
                }
            }
        }
    }
    // P7: every public construction route of SortedRecords must end in a
    // collection whose RRset signs to the independent octets
    let last_ki = nkeys - 1; // Ed25519
    let mut p7: Vec<Case> = Vec::new();
    for ti in 0..env.types.len() {
        if env.types[ti].rtype == 46 {
            continue;
        }
        for seq in &all_seqs {
            for oi in [0usize, 3] {
                for entry in 10u8..=16 {
                    p7.push(Case { ti, seq: seq.clone(), oi, oc: 0, ttl: 3600, tm: 0, si: 0, class: 1, ki: last_ki, entry, mixed: false });
                }
            }
        }
    }
    // P8: histories with injected sign_raw failures and a caller-dirtied
    // scratch buffer (see fault_hist_case)
    let (alpha_a, alpha_b) = fh_alphabets();
    let ti_of = |mn: &str| env.types.iter().position(|t| t.mn == mn).expect("type in the menu");
    let small_types: Vec<usize> = if quick { vec![ti_of("A"), ti_of("MX")] } else { vec![ti_of("A"), ti_of("MX"), ti_of("NSEC")] };
    let all_types: Vec<usize> = (0..env.types.len()).filter(|&ti| env.types[ti].rtype != 46).collect();
    let fast_pair = [fast[0], fast[1]];
    let dirt_all: Vec<u8> = (0..=6).collect();
    let dirt_some: Vec<u8> = vec![0, 3, 5];
    let mut p8: Vec<FHist> = Vec::new();
    let mut p8_bound: Vec<Value> = Vec::new();
    let mut p8_add = |what: &str, types: &[usize], owners: &[usize], pair: [usize; 2], dirts: &[u8], hs: &[Vec<FStep>]| {
        let before = p8.len();
        for &ti in types {
            for &oi in owners {
                for &dirt in dirts {
                    for steps in hs {
                        p8.push(FHist { base: Case { ti, seq: vec![2, 0], oi, oc: 0, ttl: 3600, tm: 0, si: 0, class: 1, ki: 0, entry: 0, mixed: false }, pair, dirt, steps: steps.clone() });
                    }
                }
            }
        }
        p8_bound.push(json!({"histories": what, "call_sequences": hs.len(), "scratch_variants": dirts, "types": types.len(), "owners": owners.iter().map(|&o| OWNERS[o]).collect::<Vec<_>>(),
            "algorithms": [env.keys[pair[0]].alg, env.keys[pair[1]].alg], "count": p8.len() - before}));
    };
    if quick {
        // quick: the on-entry variants 3, 4 are the first call of 5, 6 followed
        // by what variant 0 sees; 1 differs from 0 in capacity only
        p8_add("A: sign_sorted_rrset_in over one scratch Vec, length 1..=3", &small_types, &[0, 3], fast_pair, &[0, 2, 5, 6], &strings(&alpha_a, 1..=3));
        p8_add("B: five entry points on shared state, length 1..=2", &small_types, &[0], fast_pair, &dirt_some, &strings(&alpha_b, 1..=2));
    } else {
        p8_add("A: sign_sorted_rrset_in over one scratch Vec, length 1..=3", &all_types, &[0, 3], fast_pair, &dirt_all, &strings(&alpha_a, 1..=3));
        p8_add("A: sign_sorted_rrset_in over one scratch Vec, length 4", &small_types, &[0, 3], fast_pair, &dirt_all, &strings(&alpha_a, 4..=4));
        p8_add("B: five entry points on shared state, length 1..=2", &all_types, &[0, 3], fast_pair, &dirt_some, &strings(&alpha_b, 1..=2));
        p8_add("B: five entry points on shared state, length 3", &small_types, &[0], fast_pair, &dirt_some, &strings(&alpha_b, 3..=3));
        // the slow algorithms (RSA, P-384): short histories
        let slow: Vec<usize> = (0..nkeys).filter(|ki| !fast.contains(ki)).collect();
        for w in slow.chunks(2) {
            let pair = [w[0], *w.get(1).unwrap_or(&fast[0])];
            p8_add("A: sign_sorted_rrset_in over one scratch Vec, length 1..=2", &small_types, &[0, 3], pair, &dirt_all, &strings(&alpha_a, 1..=2));
            p8_add("B: five entry points on shared state, length 1", &small_types, &[0], pair, &dirt_some, &strings(&alpha_b, 1..=1));
        }
    }
    let t0 = std::time::Instant::now();
    let mut total = Local::default();
    key_form_checks(&env, &form_keys, &all_keys, &mut total);
    let e6 = total.evals;
    eprintln!("P6 done: {} evaluations, {:.1}s", e6, t0.elapsed().as_secs_f64());
    key_size_checks(&env, &form_keys, &all_keys, &mut total);
    let e9 = total.evals - e6;
    eprintln!("P9 done: {} evaluations, {:.1}s", e9, t0.elapsed().as_secs_f64());
    keytag_checks(&env, &all_keys, quick, &mut total);
    ds_checks(&env, "ds", &all_keys, &mut total);
    let l1 = run_all(&env, &p1, sign_and_transform);
    eprintln!("P1 done: {} cases, {} evaluations, {:.1}s", p1.len(), l1.evals, t0.elapsed().as_secs_f64());
    let l2 = run_all(&env, &p2, sign_and_transform);
    eprintln!("P2 done: {} cases, {} evaluations, {:.1}s", p2.len(), l2.evals, t0.elapsed().as_secs_f64());
    let l3 = run_all(&env, &p3, fault_case);
    eprintln!("P3 done: {} cases, {} evaluations, {:.1}s", p3.len(), l3.evals, t0.elapsed().as_secs_f64());
    let l4 = run_all(&env, &p4, sign_and_transform);
    eprintln!("P4 done: {} cases, {} evaluations, {:.1}s", p4.len(), l4.evals, t0.elapsed().as_secs_f64());
    let l5 = run_multi(&env, &p5);
    eprintln!("P5 done: {} histories, {} evaluations, {:.1}s", p5.len(), l5.evals, t0.elapsed().as_secs_f64());
    let l7 = run_all(&env, &p7, sign_and_transform);
    eprintln!("P7 done: {} cases, {} evaluations, {:.1}s", p7.len(), l7.evals, t0.elapsed().as_secs_f64());
    let l8 = run_fault_hists(&env, &p8);
    eprintln!("P8 done: {} histories, {} evaluations, {:.1}s", p8.len(), l8.evals, t0.elapsed().as_secs_f64());
    let (e1, e2, e3, e4, e5, e7, e8) = (l1.evals, l2.evals, l3.evals, l4.evals, l5.evals, l7.evals, l8.evals);
    let total = total.merge(l1).merge(l2).merge(l3).merge(l4).merge(l5).merge(l7).merge(l8);
    let counters = &total.counts;
    let sum = |p: &str| -> u64 { counters.iter().filter(|(k, _)| k.contains(p)).map(|(_, v)| *v).sum() };
    let sum2 = |p: &str, q: &str| -> u64 { counters.iter().filter(|(k, _)| k.starts_with(p) && k.ends_with(q)).map(|(_, v)| *v).sum() };
    ctx.finish(
        json!({
            "evaluations": total.evals,
            "distinct_nontrivial": env.stats.distinct_count(),
            "rule": "distinct (hash of the case) among: signing cases where the signer produced an RRSIG that passed the field checks and verifies over the independent octets with ring; every single-bit flip (case, target, bit) put before the library (its refusal to read the records or its verification result was compared with the expectation); synthetic DNSKEY RDATA whose tag was compared; (key, owner, digest type) triples whose digest was compared",
            "exhaustive": true,
            "bound": {
                "types": env.types.iter().map(|t| t.mn).collect::<Vec<_>>(),
                "values_per_type": k,
                "sequences_per_type": all_seqs.len(),
                "owners": OWNERS,
                "algorithms": env.keys.iter().map(|k| k.alg).collect::<Vec<_>>(),
                "time_menu": env.times.iter().map(|t| json!([t.0, t.1, format!("{:?}", t.2)])).collect::<Vec<_>>(),
                "P1_records_product_cases": p1.len(),
                "P2_envelope_product_cases": p2.len(),
                "P3_fault_base_cases": p3.len(),
                "P4_mixed_case_rdata_name_pair_cases": p4.len(),
                "P4_mixed_case_names": mixed_names().iter().map(|n| name_text(n)).collect::<Vec<_>>(),
                "P5_multi_step_histories": p5.len(),
                "P5_reused_scratch_call_sequences_per_base": h4.len(),
                "P5_zone_key_lists": h5.len(),
                "P1_evaluations": e1, "P2_evaluations": e2, "P3_evaluations(bit flips + base)": e3, "P4_evaluations": e4, "P5_evaluations": e5,
                "P6_key_representation_evaluations": e6,
                "P6_key_form_algorithms": form_keys.iter().map(|k| k.alg).collect::<Vec<_>>(),
                "P7_sorted_records_route_cases": p7.len(), "P7_evaluations": e7,
                "P8_fault_histories": p8.len(), "P8_evaluations(calls + RRSIGs judged)": e8,
                "P8_alphabet_A_symbols": alpha_a.len(), "P8_alphabet_B_symbols": alpha_b.len(),
                "P8_blocks": p8_bound,
                "P9_key_size_and_public_key_encoding_evaluations": e9,
                "P9_rsa_fixture_keys": rsa_fixtures().iter().map(|f| f.name).collect::<Vec<_>>(),
            },
            "P8_calls_failed_by_injection(returned Err, no RRSIG)": sum("fh:failed-call-returned-Err:"),
            "P8_calls_refused_for_a_reversed_period(returned Err)": sum("fh:refused-call"),
            "P8_calls_ok": sum("fh:ok-call:"),
            "P8_rrsigs_verified": sum("fh:verified:"),
            "P8_rrsigs_verified_after_a_failed_call": sum2("fh:verified:", "|after-failed-call"),
            "P8_rrsigs_verified_in_retries": sum2("fh:verified:", "|retry-of-failed-call"),
            "P8_rrsigs_verified_with_caller_dirtied_scratch": sum2("fh:verified:", "|caller-left-octets-in-scratch"),
            "P9_rrsigs_of_fixture_keys_verified": sum2("keysize:fixture:", ":signature-verifies"),
            "P9_independent_signatures_verified_by_library": sum("keysize:rsa:independent-signature-verifies"),
            "P9_public_key_fields_split_checked": sum("keysize:field:split-agrees") + sum("keysize:field:refused-as-expected"),
            "signed": sum("signer:signed:"),
            "verified_after_legit_transform": sum("verify:ok-after-legit-transform"),
            "faults_same_octets_must_verify": sum(":same-octets,verifies"),
            "faults_altered_must_fail": sum(":altered,rejected") + sum(":rejected-or-unreadable(ecdsa)") + sum(":unreadable-by-library") + sum(":ref-unreadable,lib-rejects"),
            "faults_altered_rejected_by_verification(deterministic algorithms)": sum(":altered,rejected"),
            "faults_unreadable(deterministic algorithms)": sum(":unreadable-by-library") + sum(":ref-unreadable,lib-rejects"),
            "counters": counters,
            "samples": env.stats.samples(),
        }),
        &[
            "keys: the fixed key files of /repo/test-data/dnssec-keys (one key per algorithm) in P1-P8; P9 adds committed RSA fixtures (mc/keys, made once with the openssl command line tool, embedded at compile time, never generated by the check); signing algorithms limited to what the ring backend imports (8, 10, 13, 14, 15)",
            "P9 (both tiers): (a) RSA fixtures 1024/2048/3072/4096/2056/4088 bit with e=65537 and 2048 bit with e=3 and e=16777217 (exponent lengths 1, 3, 4 octets; modulus lengths 128, 256, 257, 384, 511, 512 octets), each as algorithm 5, 7, 8, 10: PublicKey::from_dnskey must accept and verify the PKCS#1 v1.5 signature openssl made over a fixed message (and reject the other-hash signature, another message, a truncated signature, and the key with the modulus one octet shorter/longer); key_size, key_tag (App. B), DS digests, rsa_exponent_modulus (min_len around the modulus length) and rsa_encode agree with the hand split of the key file; as algorithm 8 and 10 the BIND private text round-trips, KeyPair::from_bytes must import the 2048/3072/4096-bit F4 keys (a refusal of the other sizes/exponents is accepted), sign_raw equals the openssl signature and every imported key signs the A/MX/TXT x {z, *.a.z} RRsets, each RRSIG judged like everywhere else (fields, ring over the independent octets, signed_data, verify_signed_data through the reduced transformation menu); a secret key with any other fixture's public key must be refused; (b) synthetic RFC 3110 public key fields: exponent lengths {1,3,4,255,256,512,513} x modulus lengths {0,1,63,64,127,128,129,255,256,257,384,511,512,513,1024} (thorough: more) x five leading-octet patterns x one-octet / three-octet length form, plus 12 cut-off fields: rsa_exponent_modulus with min_len {0,128,256,513} must return exactly the hand split for a legal field (1..512 octets each, no leading zero octet) with a long enough modulus and refuse otherwise; PublicKey::from_dnskey (algorithms 5,7,8,10) must refuse an illegal field and accept a legal one of >= 1024 bit with an exponent of <= 4 octets (legal fields below 1024 bit or with longer exponents, and the three-octet form for a short exponent, are not judged on acceptance); an all-0x5A signature must never verify; key_size and rsa_encode (also with leading zero octets to strip) agree with the hand computation; (c) ECDSA P-256/P-384 and Ed25519 public keys: exact, minus first/last octet, plus one octet at either end, SEC1 0x04 prefix, half, doubled, empty, each under algorithm numbers 13, 14, 15, 16: only the exact key under its own number verifies a signature made by the key and is importable with the secret key; resized signatures do not verify",
            "P1 (all sequences of 1..3 records x owners x owner case x entry points, with algorithms 13 and 15; sequences of 1..2 records with every algorithm) is run at TTL 3600 / first validity period / signer 'z.' / class IN; P2 crosses TTL, validity period, signer-name case (and class CH at the first validity period) with three representative sequences per type; sign_sorted_zone_records (entry 3) is run with the last algorithm of the menu only",
            "fault enumeration bases: duplicate-free sequences [v0], [v2,v0] (and [v3,v0,v2] thorough), lower-case owners; flips are single-bit; DNSKEY flags/protocol flips are recorded but not judged (not key material, not read by the primitives)",
            "P4: for every type with a domain name in its RDATA, every ordered pair over 27 mixed-case names (first label {a,A,b}^2, second label z/Z/y) put into each name field in turn, as a two-record RRset at the apex, through sign_rrset and the SortedRecords pipeline (algorithm 15; thorough also 13)",
            "P5: per type, RRset [v2,v0]: (mode 4) every sequence of sign_sorted_rrset_in calls over (key x {this RRset, o.z TXT}) to length 3 sharing one scratch Vec, owners z and *.a.z; (mode 5) sign_sorted_zone_records with every key list to length 3 (repetition allowed) on a zone of one or two RRsets, all owners; in thorough the slow algorithms (8, 10, 14) take part in histories/key lists to length 2 only; every RRSIG is checked field by field, with ring over the independent octets, and through a reduced transformation menu (identity, compressed-reversed, combined)",
            "P6 (both tiers, algorithms 8 10 13 14 15): private key text -> SecretKeyBytes -> text (own field reader compares the key material), four text variants (written-back, no final newline, v1.3 with timing fields, blank lines) each imported with KeyPair::from_bytes and used to sign A/MX/TXT RRsets at z and *.a.z, every RRSIG judged under the key FILE's public key; sign_raw over 4 message lengths verified with ring and with crypto::common::PublicKey; every secret key x every public key of the 8 key files and every single-bit flip of its own DNSKEY RDATA through from_bytes (a foreign or altered public key must be refused); key_size, flag predicates, supported_digest vs digest(); generate() for all 6 parameter sets x flags {256,257}: a generated key goes through the text form, from_bytes and signs the same RRsets verifiably (a refusal to generate is accepted)",
            "P7 (algorithm 15, owners z and *.a.z, all sequences): SortedRecords built by new+insert, default+extend, extend one by one, collect, from+remove_all+extend, from+remove_first*+insert, from(stand-in)+update_data; bookkeeping methods (len, is_empty, deref, find_soa, find_apex_rtype, remove_* results) compared with the contents; each result signed and judged like entry 2; the validator side additionally runs once with Vec<u8> as octets type (Dnskey::convert, OctetsFrom for records and RRSIG)",
            "P5 mode 5 also runs with out-of-zone records before (a.y) and after (zz) the zone and (two-RRset zone) with RecordsIter::new_from_refs as input; any RRSIG covering none of the zone's RRsets is a violation",
            "P8: RRset [v2,v0] of the type and o.z TXT, owners z and *.a.z, two keys (13 and 15; thorough also the pairs of slow algorithms in short histories); the injected fault is the SignRaw error only (no panic, no wrong-length signature); a call with a reversed validity period may be refused or sign; which SigningError variant reports a sign_raw failure is counted, not judged; in-place sign_zone runs with DenialConfig::AlreadyPresent (no NSEC generation) and must leave the collection unchanged when it fails; retries run after the history (an immediate retry is the history 'X fails, X'); quick runs alphabet A on types A and MX with scratch variants {0,2,5,6} and alphabet B to length 2 at owner z; thorough runs A to length 3 and B to length 2 on every type, A at length 4 and B at length 3 on A, MX, NSEC",
            "NSEC: RFC 4034 6.2 (lower-case next name) and RFC 6840 5.1 (keep case) are both accepted",
            "a record TTL above the original TTL is not a covered-field alteration; such flips are expected to verify like any other TTL change",
        ],
    );
}
