//! C12 — DNSSEC signatures made by the signer verify; the signed octets
//! follow RFC 4034.
//!
//! Exhaustive enumeration (no sampling) of
//!   * RRsets: per record type a small value list; every sequence of length
//!     1..=3 over it (so every permutation and every duplicate pattern), four
//!     owner shapes (apex, a.z, *.z, *.a.z) x owner case forms, TTL menu,
//!     inception/expiration menu (incl. wrap across 2^32, reversed, the
//!     undefined 2^31 distance), signer-name case, class, every algorithm the
//!     ring backend can sign with (fixed key files of /repo/test-data),
//!     three signer entry points (sign_rrset, SortedRecords ->
//!     sign_sorted_rrset_in, sign_sorted_zone_records);
//!   * every legitimate resolver-side transformation from a fixed menu
//!     (all permutations, duplicate removal, owner / RDATA-name / signer-name
//!     case changes, TTL decrement, wildcard expansion, round trip through an
//!     uncompressed and a compressed message, all combined);
//!   * fault enumeration: EVERY single-bit flip of every RR's wire form, of
//!     the RRSIG RDATA (fields, signer name, signature) and of the DNSKEY.
//!
//! Oracle (all written here, nothing taken from the library):
//!   * an RFC 4034 §3.1.8.1 / §6.2 / §6.3 / RFC 4035 §5.3.2 / RFC 6840 §5.1
//!     construction of the signed octets (own lower-casing by the RFC type
//!     list, own memcmp sort + dedup, original TTL, label count / wildcard
//!     owner reconstruction);
//!   * the signature must verify over THOSE octets with `ring` called
//!     directly (public key decoded from the .key file with an own base64
//!     decoder);
//!   * `RrsigExt::signed_data` must produce exactly those octets and
//!     `verify_signed_data` must return Ok after every legitimate transform;
//!   * key tag == RFC 4034 App. B written out; DS digest == ring::digest over
//!     owner | RDATA composed by hand;
//!   * each bit flip is classified by the independent construction:
//!     different signed octets / signature / key => verification must fail,
//!     identical signed octets => verification must still succeed.
use bytes::Bytes;
use domain::base::cmp::CanonicalOrd;
use domain::base::iana::{Class, DigestAlgorithm, Rtype, SecurityAlgorithm};
use domain::base::name::{FlattenInto, Name, ParsedName, ToName};
use domain::base::rdata::ComposeRecordData;
use domain::base::{Message, Record, RecordData, Ttl};
use domain::crypto::sign::{KeyPair, SecretKeyBytes, SignRaw};
use domain::dnssec::sign::keys::signingkey::SigningKey;
use domain::dnssec::sign::records::{Rrset, SortedRecords};
use domain::dnssec::sign::signatures::rrsigs::{
    sign_rrset, sign_sorted_rrset_in, sign_sorted_zone_records, GenerateRrsigConfig,
};
use domain::dnssec::validator::base::{DnskeyExt, RrsigExt};
use domain::rdata::dnssec::Timestamp;
use domain::rdata::{AllRecordData, Dnskey, Rrsig, ZoneRecordData};
use mc::*;
use rayon::prelude::*;
use serde_json::{json, Value};
use std::collections::BTreeMap;
use std::sync::Arc;

type LName = Name<Bytes>;
type ZData = ZoneRecordData<Bytes, LName>;
type ZRec = Record<LName, ZData>;
type VData = AllRecordData<Bytes, ParsedName<Bytes>>;
type VRec = Record<LName, VData>;
type LSig = Rrsig<Bytes, LName>;
type SKey = SigningKey<Bytes, KeyPair>;

const KEYDIR: &str = "/repo/test-data/dnssec-keys";

// ===================================================================
// raw (harness-side) representation
// ===================================================================

/// One RDATA field: opaque octets or a domain name (label list, absolute).
#[derive(Clone, Debug, PartialEq, Eq, Hash, PartialOrd, Ord)]
enum F {
    B(Vec<u8>),
    N(Vec<Vec<u8>>),
}

/// RDATA layout element, used to split received RDATA independently.
#[derive(Clone, Copy, Debug, PartialEq)]
enum L {
    Fix(usize),
    Name,
    CharStr,
    Rest,
}

/// What RFC 4034 §6.2 (as corrected by RFC 6840 §5.1) says about names
/// embedded in the RDATA of a type.
#[derive(Clone, Copy, Debug, PartialEq)]
enum Canon {
    /// not in the list: RDATA is used as is
    AsIs,
    /// in the list: embedded names are lower-cased
    Lower,
    /// NSEC: RFC 4034 says lower-case, RFC 6840 says do not: either accepted
    Open,
}

/// The RFC list, by type code (own transcription of RFC 4034 §6.2 item 3;
/// HINFO has no names; NSEC per RFC 6840 §5.1 is open).
fn rfc_canon(rtype: u16) -> Canon {
    match rtype {
        2 | 3 | 4 | 5 | 6 | 7 | 8 | 9 | 12 | 14 | 15 | 17 | 18 | 21 | 24 | 26 | 30 | 35 | 36
        | 33 | 39 | 38 | 46 => Canon::Lower,
        47 => Canon::Open,
        _ => Canon::AsIs,
    }
}

#[derive(Clone, Debug, PartialEq, Eq, Hash)]
struct RawRR {
    owner: Vec<Vec<u8>>,
    rtype: u16,
    class: u16,
    ttl: u32,
    fields: Vec<F>,
}

fn lower_labels(l: &[Vec<u8>]) -> Vec<Vec<u8>> {
    l.iter()
        .map(|x| {
            x.iter()
                .map(|b| if (b'A'..=b'Z').contains(b) { b + 32 } else { *b })
                .collect()
        })
        .collect()
}
fn upper_labels(l: &[Vec<u8>]) -> Vec<Vec<u8>> {
    l.iter()
        .map(|x| {
            x.iter()
                .map(|b| if (b'a'..=b'z').contains(b) { b - 32 } else { *b })
                .collect()
        })
        .collect()
}
fn name_wire(l: &[Vec<u8>]) -> Vec<u8> {
    let mut v = Vec::new();
    for x in l {
        v.push(x.len() as u8);
        v.extend_from_slice(x);
    }
    v.push(0);
    v
}
fn name_text(l: &[Vec<u8>]) -> String {
    if l.is_empty() {
        return ".".into();
    }
    let mut s = String::new();
    for x in l {
        for &b in x {
            if b.is_ascii_graphic() && b != b'.' && b != b'\\' {
                s.push(b as char);
            } else {
                s.push_str(&format!("\\{b:03}"));
            }
        }
        s.push('.');
    }
    s
}
/// "a.B.z" -> labels (absolute; "." -> root)
fn labels(s: &str) -> Vec<Vec<u8>> {
    s.split('.')
        .filter(|x| !x.is_empty())
        .map(|x| x.as_bytes().to_vec())
        .collect()
}

impl RawRR {
    fn rdata_plain(&self) -> Vec<u8> {
        let mut v = Vec::new();
        for f in &self.fields {
            match f {
                F::B(b) => v.extend_from_slice(b),
                F::N(n) => v.extend_from_slice(&name_wire(n)),
            }
        }
        v
    }
    /// Canonical RDATA by the RFC list. `open_lower` selects the RFC 4034
    /// reading (lower-case) for NSEC instead of the RFC 6840 one.
    fn rdata_canon(&self, open_lower: bool) -> Vec<u8> {
        let lower = match rfc_canon(self.rtype) {
            Canon::Lower => true,
            Canon::Open => open_lower,
            Canon::AsIs => false,
        };
        let mut v = Vec::new();
        for f in &self.fields {
            match f {
                F::B(b) => v.extend_from_slice(b),
                F::N(n) => {
                    if lower {
                        v.extend_from_slice(&name_wire(&lower_labels(n)))
                    } else {
                        v.extend_from_slice(&name_wire(n))
                    }
                }
            }
        }
        v
    }
    fn has_upper_rdata_name(&self) -> bool {
        self.fields.iter().any(|f| match f {
            F::N(n) => n.iter().any(|l| l.iter().any(|b| b.is_ascii_uppercase())),
            _ => false,
        })
    }
    fn json(&self) -> Value {
        json!({"owner": name_text(&self.owner), "type": self.rtype, "class": self.class, "ttl": self.ttl, "rdata": hex(&self.rdata_plain())})
    }
}

/// Split RDATA octets by a layout. None when the octets do not fit.
fn split_rdata(layout: &[L], rd: &[u8]) -> Option<Vec<F>> {
    let mut pos = 0usize;
    let mut out = Vec::new();
    for l in layout {
        match *l {
            L::Fix(n) => {
                out.push(F::B(rd.get(pos..pos + n)?.to_vec()));
                pos += n;
            }
            L::CharStr => {
                let n = *rd.get(pos)? as usize;
                out.push(F::B(rd.get(pos..pos + 1 + n)?.to_vec()));
                pos += 1 + n;
            }
            L::Rest => {
                out.push(F::B(rd.get(pos..)?.to_vec()));
                pos = rd.len();
            }
            L::Name => {
                let mut labs = Vec::new();
                let mut total = 0usize;
                loop {
                    let n = *rd.get(pos)? as usize;
                    if n == 0 {
                        pos += 1;
                        total += 1;
                        break;
                    }
                    if n > 63 {
                        return None;
                    }
                    labs.push(rd.get(pos + 1..pos + 1 + n)?.to_vec());
                    pos += 1 + n;
                    total += 1 + n;
                }
                if total > 255 {
                    return None;
                }
                out.push(F::N(labs));
            }
        }
    }
    if pos != rd.len() {
        return None;
    }
    Some(out)
}

/// RRSIG RDATA fields as the harness sees them.
#[derive(Clone, Debug, PartialEq, Eq)]
struct SigF {
    tc: u16,
    alg: u8,
    labels: u8,
    ottl: u32,
    exp: u32,
    inc: u32,
    tag: u16,
    signer: Vec<Vec<u8>>,
    sig: Vec<u8>,
}

impl SigF {
    fn head(&self) -> Vec<u8> {
        let mut v = Vec::new();
        v.extend_from_slice(&self.tc.to_be_bytes());
        v.push(self.alg);
        v.push(self.labels);
        v.extend_from_slice(&self.ottl.to_be_bytes());
        v.extend_from_slice(&self.exp.to_be_bytes());
        v.extend_from_slice(&self.inc.to_be_bytes());
        v.extend_from_slice(&self.tag.to_be_bytes());
        v
    }
    fn as_rr(&self, owner: &[Vec<u8>], class: u16, ttl: u32) -> RawRR {
        RawRR {
            owner: owner.to_vec(),
            rtype: 46,
            class,
            ttl,
            fields: vec![F::B(self.head()), F::N(self.signer.clone()), F::B(self.sig.clone())],
        }
    }
    fn from_fields(f: &[F]) -> Option<SigF> {
        let (h, n, s) = match f {
            [F::B(h), F::N(n), F::B(s)] if h.len() == 18 => (h, n, s),
            _ => return None,
        };
        Some(SigF {
            tc: u16::from_be_bytes([h[0], h[1]]),
            alg: h[2],
            labels: h[3],
            ottl: u32::from_be_bytes([h[4], h[5], h[6], h[7]]),
            exp: u32::from_be_bytes([h[8], h[9], h[10], h[11]]),
            inc: u32::from_be_bytes([h[12], h[13], h[14], h[15]]),
            tag: u16::from_be_bytes([h[16], h[17]]),
            signer: n.clone(),
            sig: s.clone(),
        })
    }
    fn json(&self) -> Value {
        json!({"type_covered": self.tc, "alg": self.alg, "labels": self.labels, "orig_ttl": self.ottl, "exp": self.exp, "inc": self.inc,
               "key_tag": self.tag, "signer": name_text(&self.signer), "sig": hex(&self.sig)})
    }
}

// ===================================================================
// the independent RFC constructions
// ===================================================================

/// RFC 4034 §3.1.8.1 signed data, with RFC 4035 §5.3.2 owner reconstruction,
/// RFC 4034 §6.2 canonical RR form and §6.3 ordering + duplicate removal.
/// Returns None when the RRSIG Labels field exceeds the number of labels of
/// an owner (RFC 4035 §5.3.2: such an RRSIG must not be used; no octets are
/// defined).
fn ref_octets(s: &SigF, rrs: &[RawRR], open_lower: bool) -> Option<Vec<u8>> {
    let mut out = s.head();
    out.extend_from_slice(&name_wire(&lower_labels(&s.signer)));
    // (canonical rdata, full RR(i)) pairs
    let mut items: Vec<(Vec<u8>, Vec<u8>)> = Vec::new();
    for rr in rrs {
        let n = rr.owner.len();
        let k = s.labels as usize;
        if k > n {
            return None;
        }
        let low = lower_labels(&rr.owner);
        let mut name = Vec::new();
        if k < n {
            name.extend_from_slice(b"\x01*");
            name.extend_from_slice(&name_wire(&low[n - k..]));
        } else {
            name.extend_from_slice(&name_wire(&low));
        }
        let rd = rr.rdata_canon(open_lower);
        let mut item = name;
        item.extend_from_slice(&rr.rtype.to_be_bytes());
        item.extend_from_slice(&rr.class.to_be_bytes());
        item.extend_from_slice(&s.ottl.to_be_bytes());
        item.extend_from_slice(&(rd.len() as u16).to_be_bytes());
        item.extend_from_slice(&rd);
        items.push((rd, item));
    }
    // §6.3: RDATA as left-justified unsigned octet sequences; absence of an
    // octet sorts before a zero octet == slice order of [u8].
    items.sort();
    items.dedup();
    for (_, it) in items {
        out.extend_from_slice(&it);
    }
    Some(out)
}

/// true when all RRs have the same owner (case-insensitively), type, class.
fn is_rrset(rrs: &[RawRR], rtype: u16) -> bool {
    rrs.iter().all(|r| {
        r.rtype == rtype && r.class == rrs[0].class && lower_labels(&r.owner) == lower_labels(&rrs[0].owner)
    })
}

/// RFC 4034 Appendix B, over the DNSKEY RDATA octets.
fn keytag_app_b(rdata: &[u8]) -> u16 {
    let mut ac: u64 = 0;
    for (i, &b) in rdata.iter().enumerate() {
        ac += if i & 1 == 1 { b as u64 } else { (b as u64) << 8 };
    }
    ac += (ac >> 16) & 0xFFFF;
    (ac & 0xFFFF) as u16
}

/// Own base64 decoder (RFC 4648 §4), strict enough for the key files.
fn b64(s: &str) -> Vec<u8> {
    let mut acc: u32 = 0;
    let mut bits = 0;
    let mut out = Vec::new();
    for c in s.bytes() {
        let v = match c {
            b'A'..=b'Z' => c - b'A',
            b'a'..=b'z' => c - b'a' + 26,
            b'0'..=b'9' => c - b'0' + 52,
            b'+' => 62,
            b'/' => 63,
            b'=' => break,
            _ => continue,
        } as u32;
        acc = (acc << 6) | v;
        bits += 6;
        if bits >= 8 {
            bits -= 8;
            out.push((acc >> bits) as u8);
            acc &= (1 << bits) - 1;
        }
    }
    out
}

/// Verification with ring called directly (not through the library).
fn ring_verify(alg: u8, pubkey: &[u8], msg: &[u8], sig: &[u8]) -> bool {
    use ring::signature as rs;
    match alg {
        8 | 10 => {
            // RFC 3110 §2 public key format
            if pubkey.is_empty() {
                return false;
            }
            let (e, n) = if pubkey[0] != 0 {
                let l = pubkey[0] as usize;
                (&pubkey[1..1 + l], &pubkey[1 + l..])
            } else {
                let l = u16::from_be_bytes([pubkey[1], pubkey[2]]) as usize;
                (&pubkey[3..3 + l], &pubkey[3 + l..])
            };
            let params = if alg == 8 {
                &rs::RSA_PKCS1_2048_8192_SHA256
            } else {
                &rs::RSA_PKCS1_2048_8192_SHA512
            };
            rs::RsaPublicKeyComponents { n, e }.verify(params, msg, sig).is_ok()
        }
        13 | 14 => {
            let mut k = vec![4u8];
            k.extend_from_slice(pubkey);
            let a: &'static dyn rs::VerificationAlgorithm = if alg == 13 {
                &rs::ECDSA_P256_SHA256_FIXED
            } else {
                &rs::ECDSA_P384_SHA384_FIXED
            };
            rs::UnparsedPublicKey::new(a, k).verify(msg, sig).is_ok()
        }
        15 => rs::UnparsedPublicKey::new(&rs::ED25519, pubkey).verify(msg, sig).is_ok(),
        _ => false,
    }
}

// ===================================================================
// own message writer (with optional compression)
// ===================================================================

struct MsgOut {
    bytes: Vec<u8>,
    /// per RR: (start of RR, start of RDATA, end of RR)
    spans: Vec<(usize, usize, usize)>,
}

/// RFC 3597 §4: only the RFC 1035 types may have compressed RDATA names.
fn rdata_compressible(rtype: u16) -> bool {
    matches!(rtype, 2 | 3 | 4 | 5 | 6 | 7 | 8 | 9 | 12 | 14 | 15)
}

fn build_msg(rrs: &[RawRR], compress: bool) -> MsgOut {
    let mut m = vec![0u8; 12];
    m[2] = 0x84; // QR, AA
    m[6..8].copy_from_slice(&(rrs.len() as u16).to_be_bytes());
    let mut dict: Vec<(Vec<Vec<u8>>, usize)> = Vec::new();
    let mut spans = Vec::new();
    fn put_name(m: &mut Vec<u8>, dict: &mut Vec<(Vec<Vec<u8>>, usize)>, n: &[Vec<u8>], compress: bool) {
        for i in 0..n.len() {
            let suf = lower_labels(&n[i..]);
            if compress {
                if let Some((_, off)) = dict.iter().find(|(d, _)| *d == suf) {
                    m.push(0xC0 | (*off >> 8) as u8);
                    m.push(*off as u8);
                    return;
                }
            }
            if m.len() < 0x4000 {
                dict.push((suf, m.len()));
            }
            m.push(n[i].len() as u8);
            m.extend_from_slice(&n[i]);
        }
        m.push(0);
    }
    for rr in rrs {
        let start = m.len();
        put_name(&mut m, &mut dict, &rr.owner, compress);
        m.extend_from_slice(&rr.rtype.to_be_bytes());
        m.extend_from_slice(&rr.class.to_be_bytes());
        m.extend_from_slice(&rr.ttl.to_be_bytes());
        let lenpos = m.len();
        m.extend_from_slice(&[0, 0]);
        let rds = m.len();
        for f in &rr.fields {
            match f {
                F::B(b) => m.extend_from_slice(b),
                F::N(n) => {
                    let c = compress && rdata_compressible(rr.rtype);
                    if c {
                        put_name(&mut m, &mut dict, n, true);
                    } else {
                        // never a pointer target either: keep it simple
                        let mut nodict = Vec::new();
                        put_name(&mut m, &mut nodict, n, false);
                    }
                }
            }
        }
        let rdlen = (m.len() - rds) as u16;
        m[lenpos..lenpos + 2].copy_from_slice(&rdlen.to_be_bytes());
        spans.push((start, rds, m.len()));
    }
    MsgOut { bytes: m, spans }
}

// ===================================================================
// library adapters (everything here is the subject; called under guard)
// ===================================================================

fn lname(l: &[Vec<u8>]) -> LName {
    Name::from_octets(Bytes::from(name_wire(l))).expect("harness name")
}

/// Signer-side records: parse an uncompressed message, flatten.
fn lib_zrecs(msg: &[u8]) -> Result<Vec<ZRec>, String> {
    let m = Message::from_octets(Bytes::copy_from_slice(msg)).map_err(|e| format!("message: {e}"))?;
    let mut out = Vec::new();
    for item in m.answer().map_err(|e| format!("answer: {e}"))? {
        let pr = item.map_err(|e| format!("record: {e}"))?;
        let rec = pr
            .to_record::<ZoneRecordData<Bytes, ParsedName<Bytes>>>()
            .map_err(|e| format!("rdata: {e}"))?
            .ok_or_else(|| "rdata: not a zone record type".to_string())?;
        let data: ZData = rec.data().clone().flatten_into();
        out.push(Record::new(pr.owner().to_name::<Bytes>(), pr.class(), pr.ttl(), data));
    }
    Ok(out)
}

/// Validator-side records, exactly as dnssec::validator::group builds them:
/// the first `n` answers as AllRecordData with ParsedName, the next one (if
/// `with_sig`) as RRSIG.
fn lib_vrecs(msg: &[u8], n: usize, with_sig: bool) -> Result<(Vec<VRec>, Option<LSig>), String> {
    let m = Message::from_octets(Bytes::copy_from_slice(msg)).map_err(|e| format!("message: {e}"))?;
    let mut out = Vec::new();
    let mut sig = None;
    for (i, item) in m.answer().map_err(|e| format!("answer: {e}"))?.enumerate() {
        let pr = item.map_err(|e| format!("record: {e}"))?;
        if i < n {
            let rec = pr
                .to_record::<VData>()
                .map_err(|e| format!("rdata: {e}"))?
                .ok_or_else(|| "rdata: none".to_string())?;
            out.push(Record::new(pr.owner().to_name::<Bytes>(), pr.class(), pr.ttl(), rec.data().clone()));
        } else if i == n && with_sig {
            let rec = pr
                .to_record::<Rrsig<Bytes, ParsedName<Bytes>>>()
                .map_err(|e| format!("rrsig rdata: {e}"))?
                .ok_or_else(|| "rrsig: not an RRSIG".to_string())?;
            let r = rec.data();
            sig = Some(
                Rrsig::new(
                    r.type_covered(),
                    r.algorithm(),
                    r.labels(),
                    r.original_ttl(),
                    r.expiration(),
                    r.inception(),
                    r.key_tag(),
                    r.signer_name().to_name::<Bytes>(),
                    Bytes::copy_from_slice(r.signature().as_ref()),
                )
                .map_err(|e| format!("rrsig new: {e}"))?,
            );
        }
    }
    if out.len() != n || (with_sig && sig.is_none()) {
        return Err("record count".into());
    }
    Ok((out, sig))
}

fn lib_sig_from(s: &SigF) -> LSig {
    Rrsig::new(
        Rtype::from_int(s.tc),
        SecurityAlgorithm::from_int(s.alg),
        s.labels,
        Ttl::from_secs(s.ottl),
        Timestamp::from(s.exp),
        Timestamp::from(s.inc),
        s.tag,
        lname(&s.signer),
        Bytes::from(s.sig.clone()),
    )
    .expect("rrsig")
}

fn sigf_of(r: &LSig) -> SigF {
    SigF {
        tc: r.type_covered().to_int(),
        alg: r.algorithm().to_int(),
        labels: r.labels(),
        ottl: r.original_ttl().as_secs(),
        exp: r.expiration().into_int(),
        inc: r.inception().into_int(),
        tag: r.key_tag(),
        signer: name_labels(r.signer_name()),
        sig: r.signature().as_ref().to_vec(),
    }
}

/// Labels of a library name read from its uncompressed octets (own reader).
fn name_labels(n: &LName) -> Vec<Vec<u8>> {
    wire::validate_name(n.as_slice(), true).expect("library name is a valid absolute name")
}

fn lib_signed_data<D>(sig: &LSig, recs: &mut [Record<LName, D>]) -> Vec<u8>
where
    D: RecordData + CanonicalOrd + ComposeRecordData + Sized,
{
    let mut buf = Vec::new();
    sig.signed_data(&mut buf, recs).expect("Vec never short");
    buf
}

// ===================================================================
// keys
// ===================================================================

struct KeyMat {
    alg: u8,
    tag_file: u16,
    owner_file: Vec<Vec<u8>>,
    flags: u16,
    proto: u8,
    pubkey: Vec<u8>,
    /// DNSKEY RDATA composed by hand from the hand-decoded fields
    rdata: Vec<u8>,
    dnskey: Dnskey<Bytes>,
    /// one signing key per signer-name variant; empty when the ring backend
    /// cannot sign with this algorithm
    signers: Vec<SKey>,
    ds_text: Option<String>,
}

const SIGNER_NAMES: [&str; 2] = ["z.", "Z."];

fn load_key(alg: u8, tag: u16, can_sign: bool) -> KeyMat {
    let base = format!("{KEYDIR}/Ktest.+{alg:03}+{tag:05}");
    let key_text = std::fs::read_to_string(format!("{base}.key")).expect("key file");
    let ds_text = std::fs::read_to_string(format!("{base}.ds")).ok();
    // own parse of the .key line
    let line = key_text
        .lines()
        .find(|l| !l.trim().is_empty() && !l.trim_start().starts_with(';'))
        .expect("key line");
    let line = line.split(';').next().unwrap();
    let tok: Vec<&str> = line.split_whitespace().collect();
    let di = tok.iter().position(|t| *t == "DNSKEY").expect("DNSKEY token");
    let owner_file = labels(tok[0]);
    let flags: u16 = tok[di + 1].parse().unwrap();
    let proto: u8 = tok[di + 2].parse().unwrap();
    let a: u8 = tok[di + 3].parse().unwrap();
    assert_eq!(a, alg);
    let pubkey = b64(&tok[di + 4..].concat());
    let mut rdata = Vec::new();
    rdata.extend_from_slice(&flags.to_be_bytes());
    rdata.push(proto);
    rdata.push(alg);
    rdata.extend_from_slice(&pubkey);
    let dnskey = Dnskey::new(flags, proto, SecurityAlgorithm::from_int(alg), Bytes::from(pubkey.clone())).unwrap();
    let mut signers = Vec::new();
    if can_sign {
        let priv_text = std::fs::read_to_string(format!("{base}.private")).expect("private file");
        for sn in SIGNER_NAMES {
            let secret = SecretKeyBytes::parse_from_bind(&priv_text).expect("private key parses");
            let pubrec = domain::dnssec::common::parse_from_bind::<Vec<u8>>(&key_text).expect("public key parses");
            let kp = KeyPair::from_bytes(&secret, pubrec.data()).expect("key pair imports");
            signers.push(SigningKey::new(lname(&labels(sn)), flags, kp));
        }
    }
    KeyMat { alg, tag_file: tag, owner_file, flags, proto, pubkey, rdata, dnskey, signers, ds_text }
}

// ===================================================================
// type / value menu
// ===================================================================

struct TypeSpec {
    rtype: u16,
    mn: &'static str,
    layout: Vec<L>,
    values: Vec<Vec<F>>,
    /// in the RFC 4034 §6.2 list but parsed by the library as unknown data
    lib_unknown_listed: bool,
}

fn fb(b: &[u8]) -> F {
    F::B(b.to_vec())
}
fn fnm(s: &str) -> F {
    F::N(labels(s))
}
fn fcs(s: &[u8]) -> F {
    let mut v = vec![s.len() as u8];
    v.extend_from_slice(s);
    F::B(v)
}
fn cat(parts: &[&[u8]]) -> Vec<u8> {
    parts.concat()
}
fn nw(s: &str) -> Vec<u8> {
    name_wire(&labels(s))
}
fn fill(n: usize, start: u8) -> Vec<u8> {
    (0..n).map(|i| start.wrapping_add(i as u8)).collect()
}

/// The four names used in name-bearing RDATA: v0/v1 are case twins (the same
/// record after §6.2 lower-casing, different records for types outside the
/// list); ab.z vs b.z order differently by name order and by octet order.
const NM: [&str; 4] = ["b.z", "B.Z", "ab.z", "ns1.z"];

fn type_menu(quick: bool) -> Vec<TypeSpec> {
    let mut t: Vec<TypeSpec> = Vec::new();
    let mut add = |rtype: u16, mn: &'static str, layout: Vec<L>, values: Vec<Vec<F>>, unk: bool| {
        t.push(TypeSpec { rtype, mn, layout, values, lib_unknown_listed: unk });
    };
    let single = |_: ()| -> Vec<Vec<F>> { NM.iter().map(|n| vec![fnm(n)]).collect() };
    let pref_name = |_: ()| -> Vec<Vec<F>> {
        vec![
            vec![fb(&[0, 10]), fnm(NM[0])],
            vec![fb(&[0, 10]), fnm(NM[1])],
            vec![fb(&[0, 10]), fnm(NM[2])],
            vec![fb(&[1, 0]), fnm("a.z")],
        ]
    };
    let two = |_: ()| -> Vec<Vec<F>> {
        vec![
            vec![fnm("b.z"), fnm("c.z")],
            vec![fnm("B.Z"), fnm("C.z")],
            vec![fnm("ab.z"), fnm("c.z")],
            vec![fnm("b.z"), fnm("ab.z")],
        ]
    };
    add(1, "A", vec![L::Fix(4)], vec![vec![fb(&[192, 0, 2, 1])], vec![fb(&[192, 0, 2, 2])], vec![fb(&[10, 0, 0, 255])], vec![fb(&[255, 0, 0, 1])]], false);
    let v6 = |last: u8, first: u8| {
        let mut a = [0u8; 16];
        a[0] = first;
        a[15] = last;
        vec![fb(&a)]
    };
    add(28, "AAAA", vec![L::Fix(16)], vec![v6(1, 0x20), v6(2, 0x20), v6(0, 0), v6(1, 0xff)], false);
    add(2, "NS", vec![L::Name], single(()), false);
    add(5, "CNAME", vec![L::Name], single(()), false);
    add(15, "MX", vec![L::Fix(2), L::Name], pref_name(()), false);
    let soa_tail = |serial: u32| {
        let mut v = serial.to_be_bytes().to_vec();
        for x in [7200u32, 3600, 1209600, 300] {
            v.extend_from_slice(&x.to_be_bytes());
        }
        v
    };
    add(
        6,
        "SOA",
        vec![L::Name, L::Name, L::Fix(20)],
        vec![
            vec![fnm("b.z"), fnm("h.z"), fb(&soa_tail(1))],
            vec![fnm("B.Z"), fnm("H.Z"), fb(&soa_tail(1))],
            vec![fnm("ab.z"), fnm("h.z"), fb(&soa_tail(1))],
            vec![fnm("b.z"), fnm("h.z"), fb(&soa_tail(0x0100_0000))],
        ],
        false,
    );
    add(16, "TXT", vec![L::Rest], vec![vec![fb(b"\x01a")], vec![fb(b"\x01A")], vec![fb(b"\x01a\x01b")], vec![fb(b"\x02ab")]], false);
    add(
        33,
        "SRV",
        vec![L::Fix(6), L::Name],
        vec![
            vec![fb(&[0, 0, 0, 0, 0, 80]), fnm(NM[0])],
            vec![fb(&[0, 0, 0, 0, 0, 80]), fnm(NM[1])],
            vec![fb(&[0, 0, 0, 0, 0, 80]), fnm(NM[2])],
            vec![fb(&[0, 1, 0, 0, 1, 187]), fnm(NM[0])],
        ],
        false,
    );
    let ds = |tag: u16, alg: u8, dt: u8, n: usize, s: u8| vec![fb(&cat(&[&tag.to_be_bytes(), &[alg, dt], &fill(n, s)]))];
    let ds_vals = vec![ds(12345, 13, 2, 32, 0x11), ds(12345, 13, 2, 32, 0x12), ds(12344, 8, 1, 20, 0x80), ds(12345, 13, 4, 48, 0x11)];
    add(43, "DS", vec![L::Rest], ds_vals.clone(), false);
    let dk = |flags: u16, alg: u8, n: usize, s: u8| vec![fb(&cat(&[&flags.to_be_bytes(), &[3, alg], &fill(n, s)]))];
    let dk_vals = vec![dk(257, 15, 32, 0x40), dk(256, 15, 32, 0x40), dk(257, 13, 64, 0xf0), dk(256, 8, 260, 0x03)];
    add(48, "DNSKEY", vec![L::Rest], dk_vals.clone(), false);
    let bm3: &[u8] = b"\x00\x06\x40\x00\x00\x00\x00\x03";
    add(
        47,
        "NSEC",
        vec![L::Name, L::Rest],
        vec![
            vec![fnm(NM[0]), fb(bm3)],
            vec![fnm(NM[1]), fb(bm3)],
            vec![fnm(NM[2]), fb(bm3)],
            vec![fnm(NM[0]), fb(b"\x00\x01\x40")],
        ],
        false,
    );
    let svcb = |_: ()| -> Vec<Vec<F>> {
        vec![
            vec![fb(&cat(&[&[0, 1], &nw("svc.z")]))],
            vec![fb(&cat(&[&[0, 1], &nw("SVC.Z")]))],
            vec![fb(&cat(&[&[0, 0], &nw("ab.z")]))],
            vec![fb(&cat(&[&[0, 1], &nw("svc.z"), &[0, 1, 0, 3, 2, b'h', b'2']]))],
        ]
    };
    add(64, "SVCB", vec![L::Rest], svcb(()), false);
    // --- thorough adds the rest of the zone types
    if !quick {
        for (c, m) in [(3u16, "MD"), (4, "MF"), (7, "MB"), (8, "MG"), (9, "MR"), (12, "PTR"), (39, "DNAME")] {
            add(c, m, vec![L::Name], single(()), false);
        }
        add(14, "MINFO", vec![L::Name, L::Name], two(()), false);
        add(17, "RP", vec![L::Name, L::Name], two(()), false);
        add(
            13,
            "HINFO",
            vec![L::CharStr, L::CharStr],
            vec![vec![fcs(b"cpu"), fcs(b"os")], vec![fcs(b"CPU"), fcs(b"os")], vec![fcs(b"c"), fcs(b"puos")], vec![fcs(b""), fcs(b"")]],
            false,
        );
        let naptr = |flags: &[u8], repl: &str| vec![fb(&[0, 100, 0, 10]), fcs(flags), fcs(b"E2U+sip"), fcs(b""), fnm(repl)];
        add(
            35,
            "NAPTR",
            vec![L::Fix(4), L::CharStr, L::CharStr, L::CharStr, L::Name],
            vec![naptr(b"u", NM[0]), naptr(b"u", NM[1]), naptr(b"U", NM[0]), naptr(b"u", NM[2])],
            false,
        );
        add(59, "CDS", vec![L::Rest], ds_vals.clone(), false);
        add(60, "CDNSKEY", vec![L::Rest], dk_vals.clone(), false);
        let n3 = |flags: u8, iter: u16, salt: &[u8]| {
            vec![fb(&cat(&[&[1, flags], &iter.to_be_bytes(), &[salt.len() as u8], salt, &[20], &fill(20, 0x30), b"\x00\x01\x40"]))]
        };
        add(50, "NSEC3", vec![L::Rest], vec![n3(0, 0, b""), n3(1, 0, b""), n3(0, 0, b"\xab\xcd"), n3(0, 10, b"")], false);
        let n3p = |flags: u8, iter: u16, salt: &[u8]| vec![fb(&cat(&[&[1, flags], &iter.to_be_bytes(), &[salt.len() as u8], salt]))];
        add(51, "NSEC3PARAM", vec![L::Rest], vec![n3p(0, 0, b""), n3p(0, 10, b""), n3p(0, 0, b"\xab\xcd"), n3p(1, 0, b"")], false);
        add(65, "HTTPS", vec![L::Rest], svcb(()), false);
        add(
            45,
            "IPSECKEY",
            vec![L::Rest],
            vec![
                vec![fb(&cat(&[&[10, 3, 2], &nw("gw.z"), &[1, 2, 3, 4]]))],
                vec![fb(&cat(&[&[10, 3, 2], &nw("GW.Z"), &[1, 2, 3, 4]]))],
                vec![fb(&cat(&[&[10, 0, 2], &[1, 2, 3, 4]]))],
                vec![fb(&cat(&[&[10, 1, 2], &[192, 0, 2, 1], &[1, 2, 3, 4]]))],
            ],
            false,
        );
        let caa = |flags: u8, tag: &[u8], val: &[u8]| vec![fb(&cat(&[&[flags, tag.len() as u8], tag, val]))];
        add(257, "CAA", vec![L::Rest], vec![caa(0, b"issue", b"ca.z"), caa(0, b"issue", b"CA.Z"), caa(128, b"issue", b"ca.z"), caa(0, b"iodef", b"mailto:x@z")], false);
        add(
            52,
            "TLSA",
            vec![L::Rest],
            vec![
                vec![fb(&cat(&[&[3, 1, 1], &fill(32, 1)]))],
                vec![fb(&cat(&[&[3, 1, 1], &fill(32, 2)]))],
                vec![fb(&cat(&[&[2, 0, 1], &fill(32, 1)]))],
                vec![fb(&cat(&[&[3, 1, 2], &fill(64, 1)]))],
            ],
            false,
        );
        add(
            44,
            "SSHFP",
            vec![L::Rest],
            vec![
                vec![fb(&cat(&[&[1, 1], &fill(20, 1)]))],
                vec![fb(&cat(&[&[1, 2], &fill(32, 1)]))],
                vec![fb(&cat(&[&[4, 2], &fill(32, 1)]))],
                vec![fb(&cat(&[&[1, 1], &fill(20, 2)]))],
            ],
            false,
        );
        add(61, "OPENPGPKEY", vec![L::Rest], vec![vec![fb(b"\x99\x01")], vec![fb(b"\x99\x02")], vec![fb(b"\x99")], vec![fb(b"\x99\x01\x00")]], false);
        let zmd = |serial: u32, alg: u8, n: usize| vec![fb(&cat(&[&serial.to_be_bytes(), &[1, alg], &fill(n, 0x50)]))];
        add(63, "ZONEMD", vec![L::Rest], vec![zmd(1, 1, 48), zmd(2, 1, 48), zmd(1, 2, 64), zmd(1, 240, 12)], false);
        add(65280, "TYPE65280", vec![L::Rest], vec![vec![fb(b"\x01A\x01z\x00")], vec![fb(b"\x01a\x01z\x00")], vec![fb(b"")], vec![fb(b"\x00")]], false);
        // in the RFC 4034 §6.2 list, but the library has no type for them
        add(18, "AFSDB", vec![L::Fix(2), L::Name], pref_name(()), true);
        add(21, "RT", vec![L::Fix(2), L::Name], pref_name(()), true);
        add(36, "KX", vec![L::Fix(2), L::Name], pref_name(()), true);
        add(
            26,
            "PX",
            vec![L::Fix(2), L::Name, L::Name],
            vec![
                vec![fb(&[0, 1]), fnm("b.z"), fnm("c.z")],
                vec![fb(&[0, 1]), fnm("B.Z"), fnm("C.Z")],
                vec![fb(&[0, 1]), fnm("ab.z"), fnm("c.z")],
                vec![fb(&[0, 2]), fnm("b.z"), fnm("c.z")],
            ],
            true,
        );
    }
    // RRSIG RRsets: the signer has to refuse them (RFC 4035 §2.2)
    let rs = |signer: &str, s: u8| {
        let h = SigF { tc: 1, alg: 13, labels: 1, ottl: 3600, exp: T0 + DAY, inc: T0 - DAY, tag: 4711, signer: vec![], sig: vec![] }.head();
        vec![fb(&h), fnm(signer), fb(&fill(64, s))]
    };
    add(46, "RRSIG", vec![L::Fix(18), L::Name, L::Rest], vec![rs("z", 1), rs("Z", 1), rs("z", 2), rs("z", 3)], false);
    drop(add);
    if quick {
        for s in t.iter_mut() {
            s.values.truncate(3);
        }
    }
    t
}

const T0: u32 = 1_700_000_000;
const DAY: u32 = 86_400;

#[derive(Clone, Copy, PartialEq, Debug)]
enum Period {
    /// expiration >= inception in serial arithmetic: the signer must sign
    Valid,
    /// expiration < inception: refusing is fine
    Reversed,
    /// distance exactly 2^31: RFC 1982 leaves the comparison undefined
    Undefined,
}

/// (inception, expiration, kind)
fn time_menu(quick: bool) -> Vec<(u32, u32, Period)> {
    let mut v = vec![
        (T0 - DAY, T0 + DAY, Period::Valid),
        (T0, T0, Period::Valid),
        (0xFFFF_FF00, 0x0000_0100, Period::Valid),
        (T0 + DAY, T0 - DAY, Period::Reversed),
    ];
    if !quick {
        v.extend_from_slice(&[
            (0x7FFF_FFFF, 0x8000_0001, Period::Valid),
            (0, 0x7FFF_FFFF, Period::Valid),
            (0x0000_0100, 0xFFFF_FF00, Period::Reversed),
            (0, 0x8000_0000, Period::Undefined),
        ]);
    }
    v
}

const OWNERS: [&str; 4] = ["z", "a.z", "*.z", "*.a.z"];

/// owner case forms: 0 = lower, 1 = upper, 2 = alternating per record
fn owner_of(oi: usize, oc: usize, idx: usize) -> Vec<Vec<u8>> {
    let l = labels(OWNERS[oi]);
    match oc {
        0 => l,
        1 => upper_labels(&l),
        _ => {
            if idx % 2 == 0 {
                upper_labels(&l)
            } else {
                l
            }
        }
    }
}
